(* C13/Budget.v — per (validator, feeder): the number of messages admitted since the nonce row was created never
   exceeds MaxNonce, over all histories. *)
From Coq Require Import List String Bool ZArith Lia.
From Exo Require Import Base.Util Oracle.Model Oracle.Lemmas C12.Proofs C12.NoGap C12.Retention C13.Proofs C13.Bound.
Import ListNotations.
Local Open Scope Z_scope.

Lemma NoDup_snoc_z (l : list Z) x : NoDup l -> ~ In x l -> NoDup (l ++ [x]).
Proof.
  intros Hn Hx. induction Hn as [|a r Ha Hr IH]; simpl; [constructor; [auto | constructor]|].
  constructor.
  - intro Hin. apply in_app_or in Hin. destruct Hin as [Hin|[Hin|[]]]; [exact (Ha Hin)|]. subst. apply Hx. left. reflexivity.
  - apply IH. intro Hin. apply Hx. right. exact Hin.
Qed.

(* ---- sorted tables, duplicate-free rows ---- *)
Lemma inc_keys_zset {V} (l : list (Z * V)) k v : inc_keys l -> inc_keys (zset l k v).
Proof.
  induction l as [|[k' v'] r IH]; intro Hi; simpl; [split; [intros ? ? [] | exact I]|].
  destruct Hi as [H1 H2]. destruct (k =? k') eqn:E.
  - apply Z.eqb_eq in E. subst k'. simpl. split; assumption.
  - destruct (k <? k') eqn:E2.
    + apply Z.ltb_lt in E2. simpl. split; [|split; assumption].
      intros k2 v2 [Hin|Hin]; [inversion Hin; subst; exact E2 | pose proof (H1 _ _ Hin); lia].
    + apply Z.ltb_ge in E2. apply Z.eqb_neq in E. simpl. split; [|exact (IH H2)].
      intros k2 v2 Hin. destruct (in_zset _ _ _ _ Hin) as [Eq|Hin2]; [inversion Eq; subst; lia | exact (H1 _ _ Hin2)].
Qed.

Lemma inc_keys_zget {V} (l : list (Z * V)) k v : inc_keys l -> In (k, v) l -> zget l k = Some v.
Proof.
  induction l as [|[k' v'] r IH]; intros Hi Hin; [contradiction|]. destruct Hi as [H1 H2]. simpl.
  destruct Hin as [Hin|Hin].
  - inversion Hin; subst. rewrite Z.eqb_refl. reflexivity.
  - pose proof (H1 _ _ Hin). destruct (k =? k') eqn:E; [apply Z.eqb_eq in E; lia | exact (IH H2 Hin)].
Qed.

Lemma row_value_in row f x : NoDup (map fst row) -> In (f, x) row -> row_value row f = Some x.
Proof.
  induction row as [|[g y] r IH]; intros Hn Hin; [contradiction|]. simpl. inversion Hn as [|? ? Hnot Hn']; subst.
  destruct Hin as [Hin|Hin].
  - inversion Hin; subst. rewrite Z.eqb_refl. reflexivity.
  - destruct (g =? f) eqn:E; [|exact (IH Hn' Hin)].
    apply Z.eqb_eq in E. subst g. exfalso. apply Hnot. change f with (fst (f, x)). apply in_map. exact Hin.
Qed.

Lemma row_value_some row f x : row_value row f = Some x -> In (f, x) row.
Proof.
  induction row as [|[g y] r IH]; simpl; [discriminate|].
  destruct (g =? f) eqn:E; intro H; [apply Z.eqb_eq in E; inversion H; subst; left; reflexivity | right; exact (IH H)].
Qed.

Definition tables_ok (n : list (Z * list (Z * Z))) : Prop :=
  inc_keys n /\ forall v row, In (v, row) n -> NoDup (map fst row).

Lemma rv_entry n v f x : tables_ok n -> (rv n v f = Some x <-> entry n v f x).
Proof.
  intros [Hi Hr]. unfold rv, entry. split.
  - destruct (zget n v) as [row|] eqn:Hz; [|discriminate]. intro H. exists row. split; [exact (zget_in _ _ _ Hz) | exact (row_value_some _ _ _ H)].
  - intros [row [H1 H2]]. rewrite (inc_keys_zget _ _ _ Hi H1). exact (row_value_in _ _ _ (Hr _ _ H1) H2).
Qed.

(* preservation *)
Lemma tables_ok_zset n v row : tables_ok n -> NoDup (map fst row) -> tables_ok (zset n v row).
Proof.
  intros [Hi Hr] Hn. split; [exact (inc_keys_zset _ _ _ Hi)|].
  intros v' row' Hin. destruct (in_zset _ _ _ _ Hin) as [E|E]; [inversion E; subst; exact Hn | exact (Hr _ _ E)].
Qed.

Lemma tables_ok_zdel n v : tables_ok n -> tables_ok (zdel n v).
Proof.
  intros [Hi Hr]. split; [exact (inc_keys_zdel _ _ Hi)|]. intros v' row' Hin. exact (Hr _ _ (in_zdel _ _ _ Hin)).
Qed.

Lemma row_bump_keys row fid nn row' : row_bump row fid nn = Some row' -> map fst row' = map fst row.
Proof.
  revert row'. induction row as [|[g y] r IH]; intros row' H; simpl in H; [discriminate|].
  destruct (g =? fid).
  - destruct (y + 1 =? nn); [|discriminate]. inversion H; subst. reflexivity.
  - destruct (row_bump r fid nn) as [r'|] eqn:Hr; [|discriminate]. inversion H; subst. simpl. rewrite (IH _ eq_refl). reflexivity.
Qed.

Lemma row_remove_nodup row fid : NoDup (map fst row) -> NoDup (map fst (row_remove row fid)).
Proof.
  induction row as [|[g y] r IH]; intro Hn; simpl; [constructor|]. inversion Hn as [|? ? Hnot Hn']; subst.
  destruct (g =? fid); [exact Hn'|]. simpl. constructor; [|exact (IH Hn')].
  intro Hin. apply Hnot. apply in_map_iff in Hin. destruct Hin as [[g2 y2] [E Hin]]. simpl in E. subst g2.
  apply in_map_iff. exists (g, y2). split; [reflexivity | exact (row_remove_in _ _ _ Hin)].
Qed.

Lemma row_has_false row fid : row_has row fid = false -> ~ In fid (map fst row).
Proof.
  induction row as [|[g y] r IH]; simpl; [auto|]. intro H. apply orb_false_iff in H. destruct H as [H1 H2].
  apply Z.eqb_neq in H1. intros [E|E]; [congruence | exact (IH H2 E)].
Qed.

Lemma check_and_increase_ok p n v fid nonce n' : tables_ok n -> check_and_increase p n v fid nonce = Some n' -> tables_ok n'.
Proof.
  intros Hok H. unfold check_and_increase in H. destruct (p_max_nonce p <? as_u32 nonce); [discriminate|].
  destruct (zget n v) as [row|] eqn:Hz; [|discriminate].
  destruct (row_bump row fid (as_u32 nonce)) as [row'|] eqn:Hb; [|discriminate]. inversion H; subst.
  apply tables_ok_zset; [exact Hok|]. rewrite (row_bump_keys _ _ _ _ Hb). exact (proj2 Hok _ _ (zget_in _ _ _ Hz)).
Qed.

Lemma ante_nonces_ok p : forall msgs n n', tables_ok n -> ante_nonces p n msgs = Some n' -> tables_ok n'.
Proof.
  induction msgs as [|m r IH]; intros n n' Hok H; simpl in H; [inversion H; subst; exact Hok|].
  destruct (check_and_increase p n (m_creator m) (m_feeder m) (m_nonce m)) as [n1|] eqn:Hc; [|discriminate].
  exact (IH _ _ (check_and_increase_ok _ _ _ _ _ _ Hok Hc) H).
Qed.

Lemma remove_nonce_one_ok n fid v : tables_ok n -> tables_ok (remove_nonce_one n fid v).
Proof.
  intro Hok. unfold remove_nonce_one. destruct (zget n v) as [row|] eqn:Hz; [|exact Hok].
  destruct (row_has row fid); [|exact Hok].
  pose proof (row_remove_nodup row fid (proj2 Hok _ _ (zget_in _ _ _ Hz))) as Hn.
  destruct (row_remove row fid) as [|e r]; [apply tables_ok_zdel; exact Hok | apply tables_ok_zset; assumption].
Qed.

Lemma remove_nonce_ok fid : forall vals n, tables_ok n -> tables_ok (remove_nonce n fid vals).
Proof.
  unfold remove_nonce. induction vals as [|v r IH]; intros n Hok; simpl; [exact Hok|].
  apply IH. apply remove_nonce_one_ok. exact Hok.
Qed.

Lemma add_zero_nonce_one_ok n fid v : tables_ok n -> tables_ok (add_zero_nonce_one n fid v).
Proof.
  intro Hok. unfold add_zero_nonce_one. destruct (zget n v) as [row|] eqn:Hz.
  - destruct (row_has row fid) eqn:Hh; [exact Hok|]. apply tables_ok_zset; [exact Hok|].
    rewrite map_app. simpl. apply NoDup_snoc_z; [exact (proj2 Hok _ _ (zget_in _ _ _ Hz)) | exact (row_has_false _ _ Hh)].
  - apply tables_ok_zset; [exact Hok|]. simpl. constructor; [intros [] | constructor].
Qed.

Lemma add_zero_nonce_ok fid : forall vals n, tables_ok n -> tables_ok (add_zero_nonce n fid vals).
Proof.
  unfold add_zero_nonce. induction vals as [|v r IH]; intros n Hok; simpl; [exact Hok|].
  apply IH. apply add_zero_nonce_one_ok. exact Hok.
Qed.

Lemma create_price_nonces p now s m x s' m' res :
  create_price p now s m x = (s', m', res) ->
  s_nonces s' = s_nonces s \/ exists fid vals, s_nonces s' = remove_nonce (s_nonces s) fid vals.
Proof.
  intro H. destruct res; try (left; destruct (create_price_nonfinal_store _ _ _ _ _ _ _ _ H ltac:(discriminate)) as [E _]; subst; reflexivity).
  right. unfold create_price in H.
  destruct (check_timestamp now x); simpl in H; [|inversion H].
  destruct (check_msg p m x); simpl in H; [|inversion H].
  match type of H with context [w_sealed ?w] => destruct (w_sealed w) end; [inversion H|].
  match type of H with context [worker_do ?a ?b ?c ?d ?e ?f] => destruct (worker_do a b c d e f) as [w1 filled] end.
  destruct filled; cbv beta iota in H; unfold negb in H; [|inversion H].
  destruct (agg_aggregate p w1); try (inversion H; fail).
  destruct (zget (m_rounds m) (m_feeder x)); [|inversion H].
  destruct (get_feeder p (m_feeder x)) as [f0|]; [|inversion H].
  match type of H with context [append_price ?a ?b ?c ?d] => destruct (append_price a b c d) as [s1 ok] eqn:Hap end.
  inversion H; subst s' m'. simpl. exists (m_feeder x), (val_ids m). f_equal.
  destruct ok.
  - unfold append_price in Hap. match type of Hap with context [if ?c then _ else _] => destruct c end; inversion Hap; subst; reflexivity.
  - apply grow_round_nonces.
Qed.

Lemma run_msgs_ok p now : forall l s m s' m', tables_ok (s_nonces s) -> run_msgs p now s m l = (Some s', m') -> tables_ok (s_nonces s').
Proof.
  induction l as [|x r IH]; intros s m s' m' Hok H; simpl in H; [inversion H; subst; exact Hok|].
  destruct (create_price p now s m x) as [[s1 m1] res] eqn:Hc.
  assert (Hok1 : tables_ok (s_nonces s1)).
  { destruct (create_price_nonces _ _ _ _ _ _ _ _ Hc) as [E|[fid [vals E]]]; rewrite E; [exact Hok | apply remove_nonce_ok; exact Hok]. }
  destruct res; try (inversion H; fail); exact (IH _ _ _ _ Hok1 H).
Qed.

Lemma fold_remove_ok : forall sealed n, tables_ok n -> tables_ok (fold_left (fun n fid => remove_nonce n fid (map fst n)) sealed n).
Proof. induction sealed as [|fid r IH]; intros n Hok; simpl; [exact Hok|]. apply IH. apply remove_nonce_ok. exact Hok. Qed.

Lemma fold_add_ok vals : forall fresh n, tables_ok n -> tables_ok (fold_left (fun n fid => add_zero_nonce n fid vals) fresh n).
Proof. induction fresh as [|fid r IH]; intros n Hok; simpl; [exact Hok|]. apply IH. apply add_zero_nonce_ok. exact Hok. Qed.

Lemma end_block_ok p h u st : tables_ok (s_nonces (st_store st)) -> tables_ok (s_nonces (st_store (end_block p h u st))).
Proof.
  intro Hok. unfold end_block.
  match goal with |- context [seal_round p h ?fo ?m1] => destruct (seal_round p h fo m1) as [[m2 failed] sealed] end.
  destruct (prepare_round p h m2) as [m3 fresh]. simpl. apply fold_add_ok. rewrite fold_grow_nonces. simpl.
  apply fold_remove_ok. exact Hok.
Qed.

(* ---- the counter ---- *)
(* c = messages of (v, f) admitted since the row (v, f) was last created; on EndBlock a re-created row (value 0)
   restarts the count: min c 0 = 0, an untouched row keeps it: min c x = c because c <= x *)
Definition count_step (p : params) (v f : Z) (sc : state * Z) (o : op) : state * Z :=
  let '(st, c) := sc in
  match o with
  | OpTx now t =>
      let '(st', adm, _) := deliver_tx p now st t in
      (st', if adm then c + count_prior (t_msgs t) v f else c)
  | OpEnd h u =>
      let st' := end_block p h u st in
      (st', match rv (s_nonces (st_store st')) v f with Some x' => Z.min c x' | None => c end)
  end.

Definition count_run (p : params) (v f : Z) (st : state) (ops : list op) : state * Z :=
  fold_left (count_step p v f) ops (st, 0).

Definition count_inv (p : params) (v f : Z) (sc : state * Z) : Prop :=
  let '(st, c) := sc in
  tables_ok (s_nonces (st_store st)) /\ bounded p (s_nonces (st_store st)) /\ 0 <= c /\
  match rv (s_nonces (st_store st)) v f with Some x => c <= x | None => c <= p_max_nonce p end.

Lemma count_step_inv p v f sc o : 0 <= p_max_nonce p -> count_inv p v f sc -> count_inv p v f (count_step p v f sc o).
Proof.
  intros Hmn Hinv. destruct sc as [st c]. destruct Hinv as [Hok [Hb [Hc Hrv]]]. destruct o as [now t|h u]; simpl.
  - destruct (deliver_tx p now st t) as [[st' adm] ok] eqn:Hd.
    pose proof (deliver_tx_bounded _ _ _ _ _ _ _ Hb Hd) as Hb'.
    unfold deliver_tx in Hd. destruct (ante p (st_store st) t) as [s1|] eqn:Ha.
    + destruct (ante_some _ _ _ _ Ha) as [_ [_ [_ [_ Hn]]]].
      pose proof (ante_nonces_ok _ _ _ _ Hok Hn) as Hok1.
      pose proof (ante_budget _ _ _ _ Ha v f) as Hbud.
      pose proof (count_prior_nonneg (t_msgs t) v f) as Hk.
      (* state after the ante handler *)
      assert (Hante : 0 <= c + count_prior (t_msgs t) v f /\
                      match rv (s_nonces s1) v f with
                      | Some x => c + count_prior (t_msgs t) v f <= x
                      | None => c + count_prior (t_msgs t) v f <= p_max_nonce p end).
      { split; [lia|]. destruct (rv (s_nonces (st_store st)) v f) as [x|].
        - destruct Hbud as [E _]. rewrite E. lia.
        - destruct Hbud as [E1 E2]. rewrite E2, E1. lia. }
      destruct Hante as [Hc1 Hrv1].
      destruct (run_msgs p now s1 (st_mem st) (t_msgs t)) as [[s2|] m2] eqn:Hr; inversion Hd; subst st' adm ok; simpl.
      * pose proof (run_msgs_ok _ _ _ _ _ _ _ Hok1 Hr) as Hok2.
        split; [exact Hok2|]. split; [exact Hb'|]. split; [exact Hc1|].
        destruct (rv (s_nonces s2) v f) as [y|] eqn:Hy.
        -- apply (rv_entry _ _ _ _ Hok2) in Hy. apply (run_msgs_entries _ _ _ _ _ _ _ Hr) in Hy.
           apply (rv_entry _ _ _ _ Hok1) in Hy. rewrite Hy in Hrv1. exact Hrv1.
        -- destruct (rv (s_nonces s1) v f) as [x|] eqn:Hx; [|exact Hrv1].
           apply (rv_entry _ _ _ _ Hok1) in Hx. pose proof (ante_nonces_bounded p _ _ _ Hb Hn v f x Hx). lia.
      * split; [exact Hok1|]. split; [exact Hb'|]. split; [exact Hc1|]. exact Hrv1.
    + inversion Hd; subst. simpl. split; [exact Hok|]. split; [exact Hb|]. split; [exact Hc|]. exact Hrv.
  - pose proof (end_block_ok p h u st Hok) as Hok'. pose proof (end_block_bounded p h u st Hmn Hb) as Hb'.
    split; [exact Hok'|]. split; [exact Hb'|].
    destruct (rv (s_nonces (st_store (end_block p h u st))) v f) as [x'|] eqn:Hx.
    + pose proof (proj1 (rv_entry _ _ _ _ Hok') Hx) as He. pose proof (Hb' _ _ _ He).
      split; [lia | lia].
    + split; [exact Hc|]. destruct (rv (s_nonces (st_store st)) v f) as [x|] eqn:Hx0; [|exact Hrv].
      apply (rv_entry _ _ _ _ Hok) in Hx0. pose proof (Hb _ _ _ Hx0). lia.
Qed.

Lemma count_run_inv p v f : 0 <= p_max_nonce p -> forall ops sc, count_inv p v f sc -> count_inv p v f (fold_left (count_step p v f) ops sc).
Proof.
  intro Hmn. induction ops as [|o r IH]; intros sc H; simpl; [exact H|]. apply IH. exact (count_step_inv _ _ _ _ _ Hmn H).
Qed.

(* the counter's state component is the model's run *)
Lemma count_run_state p v f : forall ops sc, fst (fold_left (count_step p v f) ops sc) = run p (fst sc) ops.
Proof.
  induction ops as [|o r IH]; intros [st c]; simpl; [reflexivity|]. rewrite IH. f_equal.
  destruct o as [now t|h u]; simpl; [destruct (deliver_tx p now st t) as [[st' adm] ok]; reflexivity | reflexivity].
Qed.

Theorem admitted_per_row_bounded p v f st ops :
  0 <= p_max_nonce p -> tables_ok (s_nonces (st_store st)) -> bounded p (s_nonces (st_store st)) ->
  snd (count_run p v f st ops) <= p_max_nonce p.
Proof.
  intros Hmn Hok Hb. unfold count_run.
  assert (H0 : count_inv p v f (st, 0)).
  { split; [exact Hok|]. split; [exact Hb|]. split; [lia|].
    destruct (rv (s_nonces (st_store st)) v f) as [x|] eqn:Hx; [|exact Hmn].
    apply (rv_entry _ _ _ _ Hok) in Hx. pose proof (Hb _ _ _ Hx). lia. }
  pose proof (count_run_inv p v f Hmn ops (st, 0) H0) as H.
  destruct (fold_left (count_step p v f) ops (st, 0)) as [st' c]. simpl. destruct H as [Hok' [Hb' [Hc Hrv]]].
  destruct (rv (s_nonces (st_store st')) v f) as [x|] eqn:Hx; [|exact Hrv].
  apply (rv_entry _ _ _ _ Hok') in Hx. pose proof (Hb' _ _ _ Hx). lia.
Qed.

(* ---- across a parameter update that keeps MaxNonce ---- *)
Lemma count_inv_params p p' v f sc : p_max_nonce p' = p_max_nonce p -> count_inv p v f sc -> count_inv p' v f sc.
Proof.
  intros E H. destruct sc as [st c]. destruct H as [H1 [H2 [H3 H4]]]. split; [exact H1|]. split; [|split; [exact H3|]].
  - intros v0 f0 x He. rewrite E. exact (H2 v0 f0 x He).
  - rewrite E. exact H4.
Qed.

Theorem admitted_bounded_across_update p p' v f st ops1 ops2 :
  0 <= p_max_nonce p -> p_max_nonce p' = p_max_nonce p ->
  tables_ok (s_nonces (st_store st)) -> bounded p (s_nonces (st_store st)) ->
  snd (fold_left (count_step p' v f) ops2 (fold_left (count_step p v f) ops1 (st, 0))) <= p_max_nonce p.
Proof.
  intros Hmn E Hok Hb.
  assert (H0 : count_inv p v f (st, 0)).
  { split; [exact Hok|]. split; [exact Hb|]. split; [lia|].
    destruct (rv (s_nonces (st_store st)) v f) as [x|] eqn:Hx; [|exact Hmn].
    apply (rv_entry _ _ _ _ Hok) in Hx. pose proof (Hb _ _ _ Hx). lia. }
  pose proof (count_run_inv p v f Hmn ops1 (st, 0) H0) as H1.
  pose proof (count_inv_params p p' v f _ E H1) as H1'.
  assert (Hmn' : 0 <= p_max_nonce p') by lia.
  pose proof (count_run_inv p' v f Hmn' ops2 _ H1') as H2.
  destruct (fold_left (count_step p' v f) ops2 (fold_left (count_step p v f) ops1 (st, 0))) as [st' c]. simpl.
  destruct H2 as [Hok' [Hb' [Hc Hrv]]]. rewrite E in *.
  destruct (rv (s_nonces (st_store st')) v f) as [x|] eqn:Hx; [|exact Hrv].
  apply (rv_entry _ _ _ _ Hok') in Hx. pose proof (Hb' _ _ _ Hx). lia.
Qed.
