(* C13/Proofs.v — lemmas for the C13 theorems (admission and counting of oracle price submissions). *)
From Coq Require Import List String Bool ZArith Lia.
From Exo Require Import Base.Util Oracle.Model Oracle.Lemmas.
Import ListNotations.
Local Open Scope Z_scope.

(* ---------- nonce rows ---------- *)
(* stored nonce of (validator, feeder); None = no row *)
Definition rv (n : list (Z * list (Z * Z))) (v f : Z) : option Z :=
  match zget n v with Some row => row_value row f | None => None end.

Lemma row_bump_spec row fid nn row' :
  row_bump row fid nn = Some row' ->
  exists val, row_value row fid = Some val /\ nn = val + 1 /\
              row_value row' fid = Some (val + 1) /\
              (forall f2, f2 <> fid -> row_value row' f2 = row_value row f2).
Proof.
  revert row'. induction row as [|[f v] r IH]; intros row' H; simpl in H; [discriminate|].
  destruct (f =? fid) eqn:E.
  - apply Z.eqb_eq in E. subst f.
    destruct (v + 1 =? nn) eqn:E2; [|discriminate]. apply Z.eqb_eq in E2. inversion H; subst row'.
    exists v. simpl. rewrite Z.eqb_refl. repeat split; try lia.
    intros f2 Hne. simpl. destruct (fid =? f2) eqn:E3; [apply Z.eqb_eq in E3; congruence | reflexivity].
  - destruct (row_bump r fid nn) as [r'|] eqn:Hr; [|discriminate]. inversion H; subst row'.
    destruct (IH r' eq_refl) as [val [H1 [H2 [H3 H4]]]].
    exists val. simpl. rewrite E. repeat split; try assumption.
    intros f2 Hne. simpl. destruct (f =? f2); [reflexivity | apply H4; exact Hne].
Qed.

Lemma check_and_increase_spec p n v fid nonce n' :
  check_and_increase p n v fid nonce = Some n' ->
  exists val, rv n v fid = Some val /\ as_u32 nonce = val + 1 /\ as_u32 nonce <= p_max_nonce p /\
              rv n' v fid = Some (val + 1) /\
              (forall v2 f2, (v2 <> v \/ f2 <> fid) -> rv n' v2 f2 = rv n v2 f2).
Proof.
  unfold check_and_increase. intro H.
  destruct (p_max_nonce p <? as_u32 nonce) eqn:Emax; [discriminate|]. apply Z.ltb_ge in Emax.
  destruct (zget n v) as [row|] eqn:Hrow; [|discriminate].
  destruct (row_bump row fid (as_u32 nonce)) as [row'|] eqn:Hb; [|discriminate].
  inversion H; subst n'. destruct (row_bump_spec _ _ _ _ Hb) as [val [H1 [H2 [H3 H4]]]].
  exists val. unfold rv. rewrite Hrow, zget_zset_same. repeat split; try assumption.
  intros v2 f2 Hne. rewrite zget_zset. destruct (v2 =? v) eqn:E.
  - apply Z.eqb_eq in E. subst v2. rewrite Hrow. destruct Hne as [Hne|Hne]; [congruence|]. apply H4. exact Hne.
  - reflexivity.
Qed.

Lemma count_prior_app l1 l2 c f : count_prior (l1 ++ l2) c f = count_prior l1 c f + count_prior l2 c f.
Proof. induction l1 as [|x r IH]; simpl; [reflexivity|]. rewrite IH. lia. Qed.

Lemma count_prior_nonneg l c f : 0 <= count_prior l c f.
Proof. induction l as [|x r IH]; simpl; [lia|]. destruct ((m_creator x =? c) && (m_feeder x =? f)); lia. Qed.

(* the nonce clause of the admission statement, relative to the table n0 the tx started from *)
Fixpoint nonce_part_ok (p : params) (n0 : list (Z * list (Z * Z))) (done todo : list msg) : bool :=
  match todo with
  | [] => true
  | x :: r =>
      (match rv n0 (m_creator x) (m_feeder x) with
       | Some v => (as_u32 (m_nonce x) =? v + 1 + count_prior done (m_creator x) (m_feeder x)) &&
                   (as_u32 (m_nonce x) <=? p_max_nonce p)
       | None => false
       end) && nonce_part_ok p n0 (done ++ [x]) r
  end.

(* invariant while the ante handler walks over the messages *)
Definition walk_inv (n0 ncur : list (Z * list (Z * Z))) (done : list msg) : Prop :=
  forall v f, rv ncur v f = match rv n0 v f with Some x => Some (x + count_prior done v f) | None => None end.

Lemma walk_inv_init n0 : walk_inv n0 n0 [].
Proof. intros v f. simpl. destruct (rv n0 v f); [f_equal; lia | reflexivity]. Qed.

Lemma walk_step p n0 ncur done x n' :
  walk_inv n0 ncur done ->
  check_and_increase p ncur (m_creator x) (m_feeder x) (m_nonce x) = Some n' ->
  walk_inv n0 n' (done ++ [x]) /\
  exists v0, rv n0 (m_creator x) (m_feeder x) = Some v0 /\
             as_u32 (m_nonce x) = v0 + 1 + count_prior done (m_creator x) (m_feeder x) /\
             as_u32 (m_nonce x) <= p_max_nonce p.
Proof.
  intros Hinv Hc. destruct (check_and_increase_spec _ _ _ _ _ _ Hc) as [val [H1 [H2 [H3 [H4 H5]]]]].
  pose proof (Hinv (m_creator x) (m_feeder x)) as Hx. rewrite H1 in Hx.
  destruct (rv n0 (m_creator x) (m_feeder x)) as [v0|] eqn:H0; [|discriminate]. inversion Hx; subst val.
  split.
  - intros v f. rewrite count_prior_app. simpl.
    destruct ((m_creator x =? v) && (m_feeder x =? f)) eqn:E.
    + apply andb_prop in E. destruct E as [E1 E2]. apply Z.eqb_eq in E1. apply Z.eqb_eq in E2. subst v f.
      rewrite H4, H0. f_equal. lia.
    + rewrite H5.
      * rewrite Hinv. destruct (rv n0 v f); [f_equal; lia | reflexivity].
      * apply andb_false_iff in E. destruct E as [E|E]; apply Z.eqb_neq in E; [left|right]; congruence.
  - exists v0. repeat split; [lia | exact H3].
Qed.

Lemma ante_nonces_walk p n0 : forall todo done ncur n',
  walk_inv n0 ncur done -> ante_nonces p ncur todo = Some n' ->
  nonce_part_ok p n0 done todo = true /\ walk_inv n0 n' (done ++ todo).
Proof.
  induction todo as [|x r IH]; intros done ncur n' Hinv H; simpl in *.
  - inversion H; subst. rewrite app_nil_r. split; [reflexivity | exact Hinv].
  - destruct (check_and_increase p ncur (m_creator x) (m_feeder x) (m_nonce x)) as [n1|] eqn:Hc; [|discriminate].
    destruct (walk_step _ _ _ _ _ _ Hinv Hc) as [Hinv' [v0 [H0 [H1 H2]]]].
    destruct (IH _ _ _ Hinv' H) as [Hok Hfin].
    rewrite H0. split.
    + apply andb_true_intro. split; [|exact Hok].
      apply andb_true_intro. split; [apply Z.eqb_eq; exact H1 | apply Z.leb_le; exact H2].
    + rewrite <- app_assoc in Hfin. exact Hfin.
Qed.

(* ---------- ante ---------- *)
Lemma ante_some p s t s' :
  ante p s t = Some s' ->
  t_size t <= tx_size_limit /\ t_pk_ok t = true /\ t_sig_ok t = true /\
  s_prices s' = s_prices s /\ ante_nonces p (s_nonces s) (t_msgs t) = Some (s_nonces s').
Proof.
  unfold ante. intro H.
  destruct (tx_size_limit <? t_size t) eqn:E1; [discriminate|]. apply Z.ltb_ge in E1.
  destruct (t_pk_ok t); [|discriminate]. destruct (t_sig_ok t); [|discriminate]. simpl in H.
  destruct (ante_nonces p (s_nonces s) (t_msgs t)) as [n'|]; [|discriminate].
  inversion H; subst s'. simpl. repeat split; try reflexivity; assumption.
Qed.

Lemma ante_admit p s t s' :
  ante p s t = Some s' ->
  t_size t <= tx_size_limit /\ t_pk_ok t = true /\ t_sig_ok t = true /\
  nonce_part_ok p (s_nonces s) [] (t_msgs t) = true.
Proof.
  intro H. destruct (ante_some _ _ _ _ H) as [H1 [H2 [H3 [_ H5]]]].
  repeat split; try assumption.
  apply (ante_nonces_walk p (s_nonces s) (t_msgs t) [] (s_nonces s) (s_nonces s') (walk_inv_init _) H5).
Qed.

(* every admitted message consumes exactly one unit of the validator's per-feeder allowance *)
Lemma ante_budget p s t s' :
  ante p s t = Some s' ->
  forall v f,
    match rv (s_nonces s) v f with
    | Some x => rv (s_nonces s') v f = Some (x + count_prior (t_msgs t) v f) /\
                (0 < count_prior (t_msgs t) v f -> x + count_prior (t_msgs t) v f <= p_max_nonce p)
    | None => count_prior (t_msgs t) v f = 0 /\ rv (s_nonces s') v f = None
    end.
Proof.
  intros H v f. destruct (ante_some _ _ _ _ H) as [_ [_ [_ [_ H5]]]].
  destruct (ante_nonces_walk p (s_nonces s) (t_msgs t) [] (s_nonces s) (s_nonces s') (walk_inv_init _) H5) as [Hok Hfin].
  simpl in Hfin. pose proof (Hfin v f) as Hvf.
  (* from nonce_part_ok: the last message of (v,f) satisfies the bound *)
  assert (Hgen : forall todo done, nonce_part_ok p (s_nonces s) done todo = true ->
            match rv (s_nonces s) v f with
            | Some x => 0 < count_prior todo v f -> x + count_prior done v f + count_prior todo v f <= p_max_nonce p
            | None => count_prior todo v f = 0
            end).
  { induction todo as [|y r IH]; intros done Hn; simpl in *.
    - destruct (rv (s_nonces s) v f); [lia | reflexivity].
    - apply andb_prop in Hn. destruct Hn as [Hy Hr]. specialize (IH _ Hr).
      rewrite count_prior_app in IH. simpl in IH.
      destruct ((m_creator y =? v) && (m_feeder y =? f)) eqn:E.
      + apply andb_prop in E. destruct E as [E1 E2]. apply Z.eqb_eq in E1. apply Z.eqb_eq in E2. subst v f.
        destruct (rv (s_nonces s) (m_creator y) (m_feeder y)) as [x|]; [|discriminate].
        apply andb_prop in Hy. destruct Hy as [Hy1 Hy2]. apply Z.eqb_eq in Hy1. apply Z.leb_le in Hy2.
        intros _. pose proof (count_prior_nonneg r (m_creator y) (m_feeder y)) as Hnn.
        destruct (Z.eq_dec (count_prior r (m_creator y) (m_feeder y)) 0) as [Hz|Hz]; [lia|].
        assert (0 < count_prior r (m_creator y) (m_feeder y)) by lia. specialize (IH H0). lia.
      + destruct (rv (s_nonces s) v f) as [x|]; [intro Hpos; assert (0 < count_prior r v f) by lia; specialize (IH H0); lia | lia]. }
  specialize (Hgen (t_msgs t) [] Hok). simpl in Hgen.
  destruct (rv (s_nonces s) v f) as [x|]; [split; [exact Hvf | intro Hp; specialize (Hgen Hp); lia] | split; [exact Hgen | exact Hvf]].
Qed.

(* ---------- DeliverTx ---------- *)
Lemma deliver_not_admitted p now st t st' ok :
  deliver_tx p now st t = (st', false, ok) -> st' = st /\ ok = false.
Proof.
  unfold deliver_tx. destruct (ante p (st_store st) t) as [s1|].
  - destruct (run_msgs p now s1 (st_mem st) (t_msgs t)) as [[s2|] m2]; intro H; inversion H.
  - intro H. inversion H. split; reflexivity.
Qed.

Lemma deliver_admitted p now st t st' ok :
  deliver_tx p now st t = (st', true, ok) -> exists s1, ante p (st_store st) t = Some s1.
Proof.
  unfold deliver_tx. destruct (ante p (st_store st) t) as [s1|]; [intros _; exists s1; reflexivity|].
  intro H. inversion H.
Qed.

Lemma deliver_failed_store p now st t st' :
  deliver_tx p now st t = (st', true, false) ->
  exists s1, ante p (st_store st) t = Some s1 /\ st_store st' = s1.
Proof.
  unfold deliver_tx. destruct (ante p (st_store st) t) as [s1|]; [|intro H; inversion H].
  destruct (run_msgs p now s1 (st_mem st) (t_msgs t)) as [[s2|] m2]; intro H; inversion H.
  exists s1. split; reflexivity.
Qed.

(* rows of validators that did not send any message of the tx are untouched by the ante handler *)
Lemma ante_other_rows p : forall msgs n n' v,
  ante_nonces p n msgs = Some n' -> (forall x, In x msgs -> m_creator x <> v) -> zget n' v = zget n v.
Proof.
  induction msgs as [|x r IH]; intros n n' v H Hno; simpl in H.
  - inversion H. reflexivity.
  - destruct (check_and_increase p n (m_creator x) (m_feeder x) (m_nonce x)) as [n1|] eqn:Hc; [|discriminate].
    rewrite (IH _ _ _ H); [|intros y Hy; apply Hno; right; exact Hy].
    unfold check_and_increase in Hc.
    destruct (p_max_nonce p <? as_u32 (m_nonce x)); [discriminate|].
    destruct (zget n (m_creator x)) as [row|]; [|discriminate].
    destruct (row_bump row (m_feeder x) (as_u32 (m_nonce x))) as [row'|]; [|discriminate].
    inversion Hc; subst n1. apply zget_zset_other. intro E. apply (Hno x); [left; reflexivity | symmetry; exact E].
Qed.

(* ---------- counting ---------- *)
Lemma set_add_s_mono size seen x seen1 ok y :
  set_add_s size seen x = (seen1, ok) -> mem_s y seen = true -> mem_s y seen1 = true.
Proof.
  unfold set_add_s. destruct (zlen seen =? size); [intro H; inversion H; subst; auto|].
  destruct (mem_s x seen); intro H; inversion H; subst; auto.
  intro Hy. clear H. induction seen as [|z r IH]; simpl in *; [discriminate|].
  destruct (String.eqb y z); simpl; [reflexivity|]. apply IH. exact Hy.
Qed.

Lemma set_add_s_new size seen x seen1 :
  set_add_s size seen x = (seen1, true) -> mem_s x seen = false.
Proof.
  unfold set_add_s. destruct (zlen seen =? size); [intro H; inversion H|].
  destruct (mem_s x seen); [intro H; inversion H | reflexivity].
Qed.

Lemma filter_items_kept size : forall items seen seen' kept,
  filter_items size seen items = (seen', kept) ->
  forall it, In it kept -> In it items /\ mem_s (pi_det it) seen = false.
Proof.
  induction items as [|a r IH]; intros seen seen' kept H it Hin; simpl in H.
  - inversion H; subst. contradiction.
  - destruct (set_add_s size seen (pi_det a)) as [seen1 ok] eqn:Ha.
    destruct (filter_items size seen1 r) as [seen2 kept2] eqn:Hr. inversion H; subst seen' kept. clear H.
    assert (Hrest : In it kept2 -> In it (a :: r) /\ mem_s (pi_det it) seen = false).
    { intro Hk. destruct (IH _ _ _ Hr it Hk) as [H1 H2]. split; [right; exact H1|].
      destruct (mem_s (pi_det it) seen) eqn:E; [|reflexivity].
      rewrite (set_add_s_mono _ _ _ _ _ _ Ha E) in H2. discriminate. }
    destruct ok.
    + destruct Hin as [Heq|Hk]; [subst it; split; [left; reflexivity | apply (set_add_s_new _ _ _ _ Ha)] | apply Hrest; exact Hk].
    + apply Hrest. exact Hin.
Qed.

Definition seen_dets (m : mem) (fid creator : Z) : list string :=
  match zget (m_workers m) fid with
  | Some w => match zget (w_fdets w) creator with Some l => l | None => [] end
  | None => []
  end.

Definition first_items (x : msg) : list pitem :=
  match m_prices x with ps :: _ => ps_prices ps | [] => [] end.

Lemma create_price_counted p now s m x s' m' r :
  create_price p now s m x = (s', m', r) -> r = MsgCounted \/ r = MsgFinal ->
  check_timestamp now x = true /\ check_msg p m x = true /\
  exists it, In it (first_items x) /\ mem_s (pi_det it) (seen_dets m (m_feeder x) (m_creator x)) = false.
Proof.
  unfold create_price. intros H Hr.
  destruct (check_timestamp now x) eqn:Ets; simpl in H; [|inversion H; subst; destruct Hr; discriminate].
  destruct (check_msg p m x) eqn:Ecm; simpl in H; [|inversion H; subst; destruct Hr; discriminate].
  split; [reflexivity|]. split; [reflexivity|].
  set (w0 := match zget (m_workers m) (m_feeder x) with Some w => w | None => new_worker m end) in *.
  destruct (w_sealed w0) eqn:Es; [inversion H; subst; destruct Hr; discriminate|].
  unfold worker_do in H.
  set (power := match zget (m_vals m) (m_creator x) with Some pw => pw | None => 0 end) in *.
  fold (first_items x) in H.
  destruct (filtrate p w0 (m_creator x) (m_nonce x) (first_items x)) as [w1 kept] eqn:Ef.
  destruct kept as [|k0 kr].
  - simpl in H. inversion H; subst; destruct Hr; discriminate.
  - clear H. unfold filtrate in Ef.
    destruct (set_add_z (p_max_nonce p) match zget (w_fnonces w0) (m_creator x) with Some l => l | None => [] end (m_nonce x)) as [nonces' ok].
    destruct ok; simpl in Ef; [|inversion Ef].
    destruct (filter_items (p_max_detid p) match zget (w_fdets w0) (m_creator x) with Some l => l | None => [] end (first_items x)) as [seen' kept'] eqn:Hf.
    inversion Ef; subst kept'. destruct (filter_items_kept _ _ _ _ _ Hf k0 (or_introl eq_refl)) as [Hin Hnew].
    exists k0. split; [exact Hin|].
    unfold seen_dets. unfold w0 in Hnew. destruct (zget (m_workers m) (m_feeder x)) as [w|]; [exact Hnew | reflexivity].
Qed.

Lemma check_msg_spec p m x :
  check_msg p m x = true ->
  (exists pw, zget (m_vals m) (m_creator x) = Some pw) /\
  exists r f ps,
    zget (m_rounds m) (m_feeder x) = Some r /\ r_status r = 1 /\ m_base x = r_base r /\
    get_feeder p (m_feeder x) = Some f /\ m_prices x = [ps] /\ ps_id ps = 1 /\
    exists d, token_decimal p (f_token f) = Some d /\ Forall (fun it => pi_dec it = d) (ps_prices ps).
Proof.
  unfold check_msg, sanity_check. intro H.
  apply andb_prop in H. destruct H as [Hs Hr].
  apply andb_prop in Hs. destruct Hs as [Hs _]. apply andb_prop in Hs. destruct Hs as [Hv _].
  split. { destruct (zget (m_vals m) (m_creator x)) as [pw|]; [exists pw; reflexivity | discriminate]. }
  destruct (zget (m_rounds m) (m_feeder x)) as [r|]; [|discriminate].
  apply andb_prop in Hr. destruct Hr as [Hr Hf]. apply andb_prop in Hr. destruct Hr as [Hr Hrules].
  apply andb_prop in Hr. destruct Hr as [Hst Hb]. apply Z.eqb_eq in Hst. apply Z.eqb_eq in Hb.
  destruct (get_feeder p (m_feeder x)) as [f|]; [|discriminate].
  unfold check_rules in Hrules. destruct (m_prices x) as [|ps [|ps2 rest]] eqn:Hp; try discriminate.
  apply Z.eqb_eq in Hrules. exists r, f, ps. repeat split; try assumption; try reflexivity.
  unfold check_decimal in Hf. rewrite Hp in Hf. destruct (token_decimal p (f_token f)) as [d|]; [|discriminate].
  exists d. split; [reflexivity|]. simpl in Hf. apply andb_prop in Hf. destruct Hf as [Hf _].
  apply Forall_forall. intros it Hin. rewrite forallb_forall in Hf. apply Z.eqb_eq. apply Hf. exact Hin.
Qed.

Lemma check_timestamp_spec now x :
  check_timestamp now x = true ->
  forall ps it, In ps (m_prices x) -> In it (ps_prices ps) -> 0 <= pi_ts it /\ pi_ts it * 1000000000 <= now + five_s.
Proof.
  unfold check_timestamp. intros H ps it Hps Hit. rewrite forallb_forall in H. specialize (H ps Hps).
  rewrite forallb_forall in H. specialize (H it Hit). apply andb_prop in H. destruct H as [H1 H2].
  apply Z.leb_le in H1. apply Z.leb_le in H2. split; assumption.
Qed.

(* ---------- a failing message leaves the store and the counted content of the memory alone ---------- *)
Definition counted (w : worker) :=
  (w_sealed w, w_price w, w_crounds w, w_reports w, w_rpower w, w_ds w, w_final w).

Lemma filtrate_counted p w c n items : counted (fst (filtrate p w c n items)) = counted w.
Proof.
  unfold filtrate. destruct (set_add_z (p_max_nonce p) match zget (w_fnonces w) c with Some l => l | None => [] end n) as [nonces' ok].
  destruct ok; simpl.
  - destruct (filter_items (p_max_detid p) match zget (w_fdets w) c with Some l => l | None => [] end items) as [seen' kept]. reflexivity.
  - reflexivity.
Qed.

Definition worker_or_new (m : mem) (fid : Z) : worker :=
  match zget (m_workers m) fid with Some w => w | None => new_worker m end.

Lemma worker_do_not_filled p w c pw n items w1 :
  worker_do p w c pw n items = (w1, false) -> counted w1 = counted w.
Proof.
  unfold worker_do. pose proof (filtrate_counted p w c n items) as Hc.
  destruct (filtrate p w c n items) as [w1' kept]. simpl in Hc. destruct kept as [|k0 kr].
  - intro H. inversion H; subst. exact Hc.
  - destruct (calc_fill p (agg_fill w1' c pw (k0 :: kr)) (k0 :: kr) pw) as [cr conf]. intro H. inversion H.
Qed.

Lemma create_price_err p now s m x s' m' :
  create_price p now s m x = (s', m', MsgErr) ->
  s' = s /\ m_vals m' = m_vals m /\ m_total m' = m_total m /\ m_rounds m' = m_rounds m /\
  forall fid, match zget (m_workers m') fid with
              | Some y => counted y = counted (worker_or_new m fid)
              | None => zget (m_workers m) fid = None
              end.
Proof.
  unfold create_price. intro H.
  assert (Hsame : forall fid, match zget (m_workers m) fid with
                              | Some y => counted y = counted (worker_or_new m fid)
                              | None => zget (m_workers m) fid = None end).
  { intro fid. unfold worker_or_new. destruct (zget (m_workers m) fid); reflexivity. }
  destruct (check_timestamp now x); simpl in H; [|inversion H; subst; repeat split; try reflexivity; exact Hsame].
  destruct (check_msg p m x); simpl in H; [|inversion H; subst; repeat split; try reflexivity; exact Hsame].
  fold (worker_or_new m (m_feeder x)) in H.
  assert (Hset : forall w, counted w = counted (worker_or_new m (m_feeder x)) ->
            forall fid, match zget (m_workers (set_worker m (m_feeder x) w)) fid with
                        | Some y => counted y = counted (worker_or_new m fid)
                        | None => zget (m_workers m) fid = None end).
  { intros w Hw fid. simpl. rewrite zget_zset. destruct (fid =? m_feeder x) eqn:E.
    - apply Z.eqb_eq in E. subst fid. exact Hw.
    - apply Hsame. }
  destruct (w_sealed (worker_or_new m (m_feeder x))) eqn:Es.
  - inversion H; subst. repeat split; try reflexivity. apply Hset. reflexivity.
  - match type of H with context [worker_do ?a ?b ?c ?d ?e ?f] => destruct (worker_do a b c d e f) as [w1 filled] eqn:Hwd end.
    destruct filled.
    + exfalso. cbv beta iota in H. unfold negb in H.
      destruct (agg_aggregate p w1); try (inversion H; fail).
      destruct (zget (m_rounds m) (m_feeder x)); try (inversion H; fail).
      destruct (get_feeder p (m_feeder x)); try (inversion H; fail).
      match type of H with context [append_price ?a ?b ?c ?d] => destruct (append_price a b c d) end. inversion H.
    + cbv beta iota in H. unfold negb in H. inversion H; subst. repeat split; try reflexivity.
      apply Hset. apply (worker_do_not_filled _ _ _ _ _ _ _ Hwd).
Qed.

(* counted => every price string is a decimal number (sanityCheck, repaired behaviour) *)
Lemma check_msg_numeric p m x :
  check_msg p m x = true -> forall ps it, In ps (m_prices x) -> In it (ps_prices ps) -> pi_num it = true.
Proof.
  unfold check_msg, sanity_check. intros H ps it Hps Hit.
  apply andb_prop in H. destruct H as [Hs _]. apply andb_prop in Hs. destruct Hs as [_ Hf].
  rewrite forallb_forall in Hf. specialize (Hf ps Hps). unfold sanity_source in Hf.
  apply andb_prop in Hf. destruct Hf as [Hf _]. apply andb_prop in Hf. destruct Hf as [_ Hn].
  rewrite forallb_forall in Hn. exact (Hn it Hit).
Qed.

Lemma create_price_counted_numeric p now s m x s' m' r :
  create_price p now s m x = (s', m', r) -> r = MsgCounted \/ r = MsgFinal ->
  forall ps it, In ps (m_prices x) -> In it (ps_prices ps) -> pi_num it = true.
Proof.
  intros H Hr. destruct (create_price_counted _ _ _ _ _ _ _ _ H Hr) as [_ [Hcm _]]. exact (check_msg_numeric _ _ _ Hcm).
Qed.
