(* C13/Final.v - the proofs of the theorems stated in C13/Props.v that combine several lemmas. *)
From Coq Require Import List String Bool ZArith Lia.
From Exo Require Import Base.Util Oracle.Model Oracle.Lemmas C12.Proofs C13.Proofs C13.Bound C13.Budget.
Import ListNotations.
Local Open Scope Z_scope.

Lemma C13_admit_partial_l : forall p now st t st' ok,
  deliver_tx p now st t = (st', true, ok) ->
  t_size t <= tx_size_limit /\ t_pk_ok t = true /\ t_sig_ok t = true /\
  nonce_part_ok p (s_nonces (st_store st)) [] (t_msgs t) = true.
Proof.
  intros p now st t st' ok H. destruct (deliver_admitted _ _ _ _ _ _ H) as [s1 Ha]. exact (ante_admit _ _ _ _ Ha).
Qed.

Lemma C13_count_l : forall p now s m x s' m' r,
  create_price p now s m x = (s', m', r) -> r = MsgCounted \/ r = MsgFinal ->
  (forall ps it, In ps (m_prices x) -> In it (ps_prices ps) -> 0 <= pi_ts it /\ pi_ts it * 1000000000 <= now + five_s) /\
  (exists pw, zget (m_vals m) (m_creator x) = Some pw) /\
  (exists rd f ps,
     zget (m_rounds m) (m_feeder x) = Some rd /\ r_status rd = 1 /\ m_base x = r_base rd /\
     get_feeder p (m_feeder x) = Some f /\ m_prices x = [ps] /\ ps_id ps = 1 /\
     exists d, token_decimal p (f_token f) = Some d /\ Forall (fun it => pi_dec it = d) (ps_prices ps)) /\
  (exists it, In it (first_items x) /\ mem_s (pi_det it) (seen_dets m (m_feeder x) (m_creator x)) = false).
Proof.
  intros p now s m x s' m' r H Hr. destruct (create_price_counted _ _ _ _ _ _ _ _ H Hr) as [Hts [Hcm Hnew]].
  split; [exact (check_timestamp_spec _ _ Hts)|]. destruct (check_msg_spec _ _ _ Hcm) as [Hv Hrest].
  split; [exact Hv|]. split; [exact Hrest | exact Hnew].
Qed.

Lemma C13_admitted_not_counted_store_l : forall p now st t st',
  deliver_tx p now st t = (st', true, false) ->
  s_prices (st_store st') = s_prices (st_store st) /\
  forall v, (forall x, In x (t_msgs t) -> m_creator x <> v) ->
            zget (s_nonces (st_store st')) v = zget (s_nonces (st_store st)) v.
Proof.
  intros p now st t st' H. destruct (deliver_failed_store _ _ _ _ _ H) as [s1 [Ha Hs]]. rewrite Hs.
  destruct (ante_some _ _ _ _ Ha) as [_ [_ [_ [Hp Hn]]]]. split; [exact Hp|].
  intros v Hv. exact (ante_other_rows _ _ _ _ _ Hn Hv).
Qed.

Lemma C13_bound_tx_l : forall p now st t st' ok,
  deliver_tx p now st t = (st', true, ok) ->
  exists s1, ante p (st_store st) t = Some s1 /\
  forall v f,
    match rv (s_nonces (st_store st)) v f with
    | Some x => rv (s_nonces s1) v f = Some (x + count_prior (t_msgs t) v f) /\
                (0 < count_prior (t_msgs t) v f -> x + count_prior (t_msgs t) v f <= p_max_nonce p)
    | None => count_prior (t_msgs t) v f = 0 /\ rv (s_nonces s1) v f = None
    end.
Proof.
  intros p now st t st' ok H. destruct (deliver_admitted _ _ _ _ _ _ H) as [s1 Ha].
  exists s1. split; [exact Ha | exact (ante_budget _ _ _ _ Ha)].
Qed.

Lemma C13_bound_l : forall p v f st ops,
  0 <= p_max_nonce p -> tables_ok (s_nonces (st_store st)) -> bounded p (s_nonces (st_store st)) ->
  snd (count_run p v f st ops) <= p_max_nonce p /\ fst (count_run p v f st ops) = run p st ops.
Proof.
  intros p v f st ops H1 H2 H3. split; [exact (admitted_per_row_bounded p v f st ops H1 H2 H3)|].
  unfold count_run. apply count_run_state.
Qed.
