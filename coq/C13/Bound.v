(* C13/Bound.v — nonce entries over whole histories: values stay in [0, MaxNonce]; only the ante handler
   increments (by one per admitted message); message handling never creates or changes an entry; EndBlock only
   deletes entries or creates entries with value 0. *)
From Coq Require Import List String Bool ZArith Lia.
From Exo Require Import Base.Util Oracle.Model Oracle.Lemmas C12.Proofs C13.Proofs.
Import ListNotations.
Local Open Scope Z_scope.

Definition entry (n : list (Z * list (Z * Z))) (v f x : Z) : Prop :=
  exists row, In (v, row) n /\ In (f, x) row.

(* ---- rows ---- *)
Lemma row_remove_in row fid e : In e (row_remove row fid) -> In e row.
Proof.
  induction row as [|[f v] r IH]; simpl; [auto|].
  destruct (f =? fid); [intro H; right; exact H | intros [H|H]; [left; exact H | right; exact (IH H)]].
Qed.

Lemma row_bump_in row fid nn row' f x :
  row_bump row fid nn = Some row' -> In (f, x) row' ->
  In (f, x) row \/ (f = fid /\ x = nn /\ exists y, In (fid, y) row /\ nn = y + 1).
Proof.
  revert row'. induction row as [|[g v] r IH]; intros row' H Hin; simpl in H; [discriminate|].
  destruct (g =? fid) eqn:E.
  - apply Z.eqb_eq in E. subst g. destruct (v + 1 =? nn) eqn:E2; [|discriminate]. apply Z.eqb_eq in E2.
    inversion H; subst row'. destruct Hin as [Hin|Hin].
    + inversion Hin; subst. right. split; [reflexivity|]. split; [reflexivity|]. exists v. split; [left; reflexivity | reflexivity].
    + left. right. exact Hin.
  - destruct (row_bump r fid nn) as [r'|] eqn:Hr; [|discriminate]. inversion H; subst row'.
    destruct Hin as [Hin|Hin]; [left; left; exact Hin|].
    destruct (IH _ eq_refl Hin) as [H1|[H1 [H2 [y [H3 H4]]]]]; [left; right; exact H1|].
    right. split; [exact H1|]. split; [exact H2|]. exists y. split; [right; exact H3 | exact H4].
Qed.

(* ---- table operations ---- *)
Lemma remove_nonce_one_entry n fid v0 v f x :
  entry (remove_nonce_one n fid v0) v f x -> entry n v f x.
Proof.
  unfold remove_nonce_one. destruct (zget n v0) as [row|] eqn:Hz; [|auto].
  destruct (row_has row fid); [|auto].
  destruct (row_remove row fid) as [|e r] eqn:Hrr.
  - intros [row' [H1 H2]]. exists row'. split; [exact (in_zdel _ _ _ H1) | exact H2].
  - intros [row' [H1 H2]]. destruct (in_zset _ _ _ _ H1) as [E|E].
    + inversion E; subst. exists row. split; [exact (zget_in _ _ _ Hz)|]. apply (row_remove_in row fid). rewrite Hrr. exact H2.
    + exists row'. split; assumption.
Qed.

Lemma remove_nonce_entry fid : forall vals n v f x, entry (remove_nonce n fid vals) v f x -> entry n v f x.
Proof.
  unfold remove_nonce. induction vals as [|v0 r IH]; intros n v f x H; simpl in H; [exact H|].
  apply (remove_nonce_one_entry n fid v0). exact (IH _ _ _ _ H).
Qed.

Lemma add_zero_nonce_one_entry n fid v0 v f x :
  entry (add_zero_nonce_one n fid v0) v f x -> x = 0 \/ entry n v f x.
Proof.
  unfold add_zero_nonce_one. destruct (zget n v0) as [row|] eqn:Hz.
  - destruct (row_has row fid); [auto|].
    intros [row' [H1 H2]]. destruct (in_zset _ _ _ _ H1) as [E|E].
    + inversion E; subst. apply in_app_or in H2. destruct H2 as [H2|[H2|[]]].
      * right. exists row. split; [exact (zget_in _ _ _ Hz) | exact H2].
      * inversion H2. left. reflexivity.
    + right. exists row'. split; assumption.
  - intros [row' [H1 H2]]. destruct (in_zset _ _ _ _ H1) as [E|E].
    + inversion E; subst. destruct H2 as [H2|[]]. inversion H2. left. reflexivity.
    + right. exists row'. split; assumption.
Qed.

Lemma add_zero_nonce_entry fid : forall vals n v f x,
  entry (add_zero_nonce n fid vals) v f x -> x = 0 \/ entry n v f x.
Proof.
  unfold add_zero_nonce. induction vals as [|v0 r IH]; intros n v f x H; simpl in H; [right; exact H|].
  destruct (IH _ _ _ _ H) as [E|E]; [left; exact E|]. exact (add_zero_nonce_one_entry n fid v0 v f x E).
Qed.

Lemma check_and_increase_entry p n v0 fid nonce n' v f x :
  check_and_increase p n v0 fid nonce = Some n' -> entry n' v f x ->
  entry n v f x \/ (v = v0 /\ f = fid /\ x <= p_max_nonce p /\ exists y, entry n v0 fid y /\ x = y + 1).
Proof.
  unfold check_and_increase. intros H He.
  destruct (p_max_nonce p <? as_u32 nonce) eqn:Emax; [discriminate|]. apply Z.ltb_ge in Emax.
  destruct (zget n v0) as [row|] eqn:Hz; [|discriminate].
  destruct (row_bump row fid (as_u32 nonce)) as [row'|] eqn:Hb; [|discriminate]. inversion H; subst n'.
  destruct He as [r2 [H1 H2]]. destruct (in_zset _ _ _ _ H1) as [E|E].
  - inversion E; subst. destruct (row_bump_in _ _ _ _ _ _ Hb H2) as [H3|[H3 [H4 [y [H5 H6]]]]].
    + left. exists row. split; [exact (zget_in _ _ _ Hz) | exact H3].
    + right. split; [reflexivity|]. split; [exact H3|]. split; [lia|]. exists y. split; [|lia].
      exists row. split; [exact (zget_in _ _ _ Hz) | exact H5].
  - left. exists r2. split; assumption.
Qed.

(* ---- values stay within [0, MaxNonce] ---- *)
Definition bounded (p : params) (n : list (Z * list (Z * Z))) : Prop :=
  forall v f x, entry n v f x -> 0 <= x <= p_max_nonce p.

Lemma ante_nonces_bounded p : forall msgs n n', bounded p n -> ante_nonces p n msgs = Some n' -> bounded p n'.
Proof.
  induction msgs as [|m r IH]; intros n n' Hb H; simpl in H; [inversion H; subst; exact Hb|].
  destruct (check_and_increase p n (m_creator m) (m_feeder m) (m_nonce m)) as [n1|] eqn:Hc; [|discriminate].
  apply (IH n1 n'); [|exact H]. intros v f x He.
  destruct (check_and_increase_entry _ _ _ _ _ _ _ _ _ Hc He) as [E|[_ [_ [Hx [y [Ey Hy]]]]]]; [exact (Hb _ _ _ E)|].
  pose proof (Hb _ _ _ Ey). lia.
Qed.

Lemma create_price_nonfinal_store p now s m x s' m' res :
  create_price p now s m x = (s', m', res) -> res <> MsgFinal -> s' = s /\ m_rounds m' = m_rounds m.
Proof.
  intros H Hne. unfold create_price in H.
  destruct (check_timestamp now x); simpl in H; [|inversion H; subst; split; reflexivity].
  destruct (check_msg p m x); simpl in H; [|inversion H; subst; split; reflexivity].
  match type of H with context [w_sealed ?w] => destruct (w_sealed w) end; [inversion H; subst; split; reflexivity|].
  match type of H with context [worker_do ?a ?b ?c ?d ?e ?f] => destruct (worker_do a b c d e f) as [w1 filled] end.
  destruct filled; cbv beta iota in H; unfold negb in H; [|inversion H; subst; split; reflexivity].
  destruct (agg_aggregate p w1); try (inversion H; subst; split; reflexivity).
  destruct (zget (m_rounds m) (m_feeder x)); [|inversion H; subst; split; reflexivity].
  destruct (get_feeder p (m_feeder x)); [|inversion H; subst; split; reflexivity].
  match type of H with context [append_price ?a ?b ?c ?d] => destruct (append_price a b c d) end.
  inversion H; subst. contradiction Hne. reflexivity.
Qed.

(* message handling: no new entries *)
Lemma create_price_entries p now s m x s' m' res :
  create_price p now s m x = (s', m', res) -> forall v f y, entry (s_nonces s') v f y -> entry (s_nonces s) v f y.
Proof.
  intros H v f y He. destruct res.
  - destruct (create_price_nonfinal_store _ _ _ _ _ _ _ _ H ltac:(discriminate)). subst. exact He.
  - unfold create_price in H.
    destruct (check_timestamp now x); simpl in H; [|inversion H].
    destruct (check_msg p m x); simpl in H; [|inversion H].
    match type of H with context [w_sealed ?w] => destruct (w_sealed w) end; [inversion H|].
    match type of H with context [worker_do ?a ?b ?c ?d ?e ?f] => destruct (worker_do a b c d e f) as [w1 filled] end.
    destruct filled; cbv beta iota in H; unfold negb in H; [|inversion H].
    destruct (agg_aggregate p w1); try (inversion H; fail).
    destruct (zget (m_rounds m) (m_feeder x)); [|inversion H].
    destruct (get_feeder p (m_feeder x)) as [f0|]; [|inversion H].
    match type of H with context [append_price ?a ?b ?c ?d] => destruct (append_price a b c d) as [s1 ok] eqn:Hap end.
    inversion H; subst s' m'. simpl in He. apply remove_nonce_entry in He.
    assert (Hn : s_nonces (if ok then s1 else grow_round p s (f_token f0)) = s_nonces s).
    { destruct ok.
      - unfold append_price in Hap. match type of Hap with context [if ?c then _ else _] => destruct c end;
          inversion Hap; subst; reflexivity.
      - unfold grow_round. destruct (latest_price (get_tp s (f_token f0)));
          match goal with |- context [append_price ?a ?b ?c ?d] => unfold append_price end;
          match goal with |- context [if ?c then _ else _] => destruct c end; reflexivity. }
    rewrite Hn in He. exact He.
  - destruct (create_price_nonfinal_store _ _ _ _ _ _ _ _ H ltac:(discriminate)). subst. exact He.
  - destruct (create_price_nonfinal_store _ _ _ _ _ _ _ _ H ltac:(discriminate)). subst. exact He.
Qed.

Lemma run_msgs_entries p now : forall l s m s' m',
  run_msgs p now s m l = (Some s', m') -> forall v f y, entry (s_nonces s') v f y -> entry (s_nonces s) v f y.
Proof.
  induction l as [|x r IH]; intros s m s' m' H v f y He; simpl in H.
  - inversion H; subst. exact He.
  - destruct (create_price p now s m x) as [[s1 m1] res] eqn:Hc.
    destruct res; try (inversion H; fail);
      apply (create_price_entries _ _ _ _ _ _ _ _ Hc); exact (IH _ _ _ _ H _ _ _ He).
Qed.

Lemma deliver_tx_bounded p now st t st' a ok :
  bounded p (s_nonces (st_store st)) -> deliver_tx p now st t = (st', a, ok) -> bounded p (s_nonces (st_store st')).
Proof.
  intros Hb H. unfold deliver_tx in H. destruct (ante p (st_store st) t) as [s1|] eqn:Ha; [|inversion H; subst; exact Hb].
  destruct (ante_some _ _ _ _ Ha) as [_ [_ [_ [_ Hn]]]].
  pose proof (ante_nonces_bounded p _ _ _ Hb Hn) as Hb1.
  destruct (run_msgs p now s1 (st_mem st) (t_msgs t)) as [[s2|] m2] eqn:Hr; inversion H; subst; simpl; [|exact Hb1].
  intros v f x He. apply (Hb1 v f x). exact (run_msgs_entries _ _ _ _ _ _ _ Hr _ _ _ He).
Qed.

(* EndBlock: entries are only deleted, or created with value 0 *)
Lemma fold_remove_entry : forall sealed n v f x,
  entry (fold_left (fun n fid => remove_nonce n fid (map fst n)) sealed n) v f x -> entry n v f x.
Proof.
  induction sealed as [|fid r IH]; intros n v f x H; simpl in H; [exact H|].
  apply (remove_nonce_entry fid (map fst n) n). exact (IH _ _ _ _ H).
Qed.

Lemma fold_add_entry vals : forall fresh n v f x,
  entry (fold_left (fun n fid => add_zero_nonce n fid vals) fresh n) v f x -> x = 0 \/ entry n v f x.
Proof.
  induction fresh as [|fid r IH]; intros n v f x H; simpl in H; [right; exact H|].
  destruct (IH _ _ _ _ H) as [E|E]; [left; exact E|]. exact (add_zero_nonce_entry fid vals n v f x E).
Qed.

Lemma grow_round_nonces p s tok : s_nonces (grow_round p s tok) = s_nonces s.
Proof.
  unfold grow_round. destruct (latest_price (get_tp s tok)); unfold append_price;
    match goal with |- context [if ?c then _ else _] => destruct c end; reflexivity.
Qed.

Lemma fold_grow_nonces p : forall failed s, s_nonces (fold_left (fun s tok => grow_round p s tok) failed s) = s_nonces s.
Proof.
  induction failed as [|tok r IH]; intro s; simpl; [reflexivity|]. rewrite IH. apply grow_round_nonces.
Qed.

Lemma end_block_entries p h u st v f x :
  entry (s_nonces (st_store (end_block p h u st))) v f x -> x = 0 \/ entry (s_nonces (st_store st)) v f x.
Proof.
  unfold end_block.
  match goal with |- context [seal_round p h ?fo ?m1] => destruct (seal_round p h fo m1) as [[m2 failed] sealed] end.
  destruct (prepare_round p h m2) as [m3 fresh]. simpl. intro He.
  destruct (fold_add_entry _ _ _ _ _ _ He) as [E|E]; [left; exact E|]. right.
  rewrite fold_grow_nonces in E. simpl in E. exact (fold_remove_entry _ _ _ _ _ E).
Qed.

Lemma end_block_bounded p h u st :
  0 <= p_max_nonce p -> bounded p (s_nonces (st_store st)) -> bounded p (s_nonces (st_store (end_block p h u st))).
Proof.
  intros Hmn Hb v f x He. destruct (end_block_entries _ _ _ _ _ _ _ He) as [E|E]; [lia | exact (Hb _ _ _ E)].
Qed.

Lemma run_bounded p : 0 <= p_max_nonce p -> forall ops st,
  bounded p (s_nonces (st_store st)) -> bounded p (s_nonces (st_store (run p st ops))).
Proof.
  intro Hmn. induction ops as [|o r IH]; intros st Hb; simpl; [exact Hb|]. apply IH.
  destruct o as [now t|h u]; simpl.
  - destruct (deliver_tx p now st t) as [[st' a] ok] eqn:Hd. simpl. exact (deliver_tx_bounded _ _ _ _ _ _ _ Hb Hd).
  - apply end_block_bounded; assumption.
Qed.
