(* C13/Model.v — the executable model lives in Oracle/Model.v (shared with C12); this file only names
   the checkers used by the C13 suite. No proofs. *)
From Coq Require Import List String ZArith.
From Exo Require Export Base.Util Oracle.Model.

Definition c13_check_case : case -> option nat := check_case.
Definition c13_monitor_case : case -> option nat := monitor_c13.
