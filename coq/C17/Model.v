(* C17/Model.v — executable model of the native-supply / fee-distribution path at an epoch end.
   Transcribed from
     x/exomint/keeper/impl_epochs_hooks.go   AfterEpochEnd            -> [mint_hook]
     x/exomint/keeper/keeper.go              MintCoins, AddCollectedFees
     x/feedistribution/keeper/hooks.go       AfterEpochEnd            -> [dist_hook]
     x/feedistribution/keeper/allocation.go  AllocateTokens           -> [alloc_tokens], [alloc_vals]
                                             AllocateTokensToValidator-> [alloc_validator]
                                             AllocateTokensToStakers  -> [alloc_stakers], [pay_stakers]
                                             AllocateTokensToSingleStaker -> one credit in the rewards ledger
     app/app.go  EpochsKeeper.SetHooks(distribution, operator, dogfood, exomint, avs) -> [epoch_end] = dist_hook ; mint_hook
   as REPAIRED by repo_patches/fix-c17-community-pool-remaining.patch and fix-c17-duplicate-staker-power.patch.
   The behaviour before the repair is kept as [alloc_stakers_legacy] (used only for the refutation witnesses).

   Numbers: sdk.Int / bank coins = Z; sdk.DecCoins of ONE denom = Z scaled by 10^18 (Base.IntDec); a zero DecCoin is dropped
   from the set, which is the number 0 here. One denom suffices: every DecCoins operation used (Add, Sub, MulDec,
   MulDecTruncate) acts per denom independently, and the mint denom is the fee denom.  DecCoins.Sub panics when a
   component goes negative: that is the explicit [Panic] outcome.  The 315-bit LegacyDec overflow guard is not modelled
   (fees far below 2^190).
   Claims are kept as credit logs ([ledger]): the stored amount of key k is the sum of the credits of k.
   No proofs here. *)
From Coq Require Import List String Ascii Bool ZArith Lia.
From Exo Require Import Base.IntDec Base.Util.
Import ListNotations.
Local Open Scope Z_scope.
Local Open Scope list_scope.

Inductive outcome (A : Type) : Type := Ok (a : A) | Panic.
Arguments Ok {A} a.
Arguments Panic {A}.

Definition ledger := list (Z * Z).
Definition ltotal (l : ledger) : Z := zsum (map snd l).
Definition bal (l : ledger) (k : Z) : Z := ltotal (filter (fun e => fst e =? k) l).

(* ---- state ---- *)
Record state := mkSt {
  s_supply : Z;          (* bank supply of the native denom *)
  s_fc : Z;              (* balance of the fee collector module account *)
  s_mint : Z;            (* balance of the exomint module account *)
  s_dist : Z;            (* balance of the feedistribution module account *)
  s_comm : Z;            (* FeePool.CommunityPool (Dec) *)
  s_commission : ledger; (* ValidatorAccumulatedCommission, by operator *)
  s_outstanding : ledger;(* ValidatorOutstandingRewards, by operator *)
  s_rewards : ledger     (* StakerOutstandingRewards, by staker *)
}.

(* every claim booked against the distribution account *)
Definition booked (s : state) : Z := s_comm s + ltotal (s_commission s) + ltotal (s_rewards s).

(* ---- inputs of one epoch end, as the hooks read them ---- *)
Record cfg := mkCfg {
  c_dist_id : string; c_tax : Z;        (* feedistribution params: EpochIdentifier, CommunityTax (Dec) *)
  c_mint_id : string; c_reward : Z      (* exomint params: EpochIdentifier, EpochReward (Int) *)
}.

Record vin := mkVin {
  v_found : bool;            (* ConsPubKey ok and ValidatorByConsAddrForChainID found *)
  v_op : Z;                  (* operator *)
  v_power : Z;               (* ExocoreValidator.Power *)
  v_rate : Z;                (* OperatorInfo.Commission.Rate (Dec) *)
  v_apps : list (Z * Z)      (* (staker, CalculateUSDValueForStaker) once per AVS x supported asset x listed staker *)
}.

(* ---- AllocateTokensToStakers (repaired) ---- *)
(* stakersPowerMap / globalStakerAddressList: a staker is listed once, its powers accumulate *)
Fixpoint acc_add (l : list (Z * Z)) (k v : Z) : list (Z * Z) :=
  match l with
  | [] => [(k, v)]
  | (k', v') :: r => if k' =? k then (k', v' + v) :: r else (k', v') :: acc_add r k v
  end.

Definition staker_powers (apps : list (Z * Z)) : list (Z * Z) :=
  fold_left (fun l a => acc_add l (fst a) (snd a)) apps [].

(* curTotalStakersPowers *)
Definition apps_total (apps : list (Z * Z)) : Z := zsum (map snd apps).

(* the payment loop. The code walks the stakers in descending power (unstable sort); every payment is >= 0, so the set
   of credits and whether remaining.Sub panics do not depend on the order (order effects belong to C08). *)
Fixpoint pay_stakers (reward total : Z) (ps : list (Z * Z)) (remaining : Z) (led : ledger) : outcome (Z * ledger) :=
  match ps with
  | [] => Ok (remaining, led)
  | (s, p) :: r =>
      let rew := dec_mul_trunc reward (dec_quo_trunc p total) in
      if remaining - rew <? 0 then Panic
      else pay_stakers reward total r (remaining - rew) ((s, rew) :: led)
  end.

(* returns the new community pool and rewards ledger *)
Definition alloc_stakers (shared : Z) (apps : list (Z * Z)) (comm : Z) (led : ledger) : outcome (Z * ledger) :=
  let total := apps_total apps in
  if 0 <? total then
    match pay_stakers shared total (staker_powers apps) shared led with
    | Panic => Panic
    | Ok (rem, led') => Ok (comm + rem, led')
    end
  else Ok (comm + shared, led).

(* ---- the same function BEFORE the repair: one payment per appearance with the last power seen for that staker
        (stakersPowerMap[staker] = curStakerPower), and rewardToAllStakers — not remaining — added to the pool ---- *)
Fixpoint last_power (apps : list (Z * Z)) (k : Z) (d : Z) : Z :=
  match apps with
  | [] => d
  | (k', v) :: r => last_power r k (if k' =? k then v else d)
  end.

Definition alloc_stakers_legacy (shared : Z) (apps : list (Z * Z)) (comm : Z) (led : ledger) : outcome (Z * ledger) :=
  let total := apps_total apps in
  if 0 <? total then
    match pay_stakers shared total (map (fun a => (fst a, last_power apps (fst a) 0)) apps) shared led with
    | Panic => Panic
    | Ok (_, led') => Ok (comm + shared, led')
    end
  else Ok (comm + shared, led).

(* ---- AllocateTokensToValidator ---- *)
Record books := mkBooks { b_comm : Z; b_commission : ledger; b_outstanding : ledger; b_rewards : ledger }.

Definition books_total (b : books) : Z := b_comm b + ltotal (b_commission b) + ltotal (b_rewards b).

Definition alloc_validator_with
  (stakers : Z -> list (Z * Z) -> Z -> ledger -> outcome (Z * ledger)) (v : vin) (tokens : Z) (b : books) : outcome books :=
  let commission := dec_mul tokens (v_rate v) in           (* tokens.MulDec(rate): banker's rounding *)
  if tokens - commission <? 0 then Panic                    (* tokens.Sub(commission) *)
  else
    match stakers (tokens - commission) (v_apps v) (b_comm b) (b_rewards b) with
    | Panic => Panic
    | Ok (comm', rewards') =>
        Ok (mkBooks comm' ((v_op v, commission) :: b_commission b) ((v_op v, tokens) :: b_outstanding b) rewards')
    end.

Definition alloc_validator := alloc_validator_with alloc_stakers.

(* ---- AllocateTokens: the loop over GetAllExocoreValidators ---- *)
Definition val_reward (fee_mult total : Z) (v : vin) : Z :=
  dec_mul_trunc fee_mult (dec_quo_trunc (dec_of_int (v_power v)) (dec_of_int total)).

Fixpoint alloc_vals_with (av : vin -> Z -> books -> outcome books)
  (fee_mult total : Z) (vals : list vin) (remaining : Z) (b : books) : outcome (Z * books) :=
  match vals with
  | [] => Ok (remaining, b)
  | v :: r =>
      if negb (v_found v) then alloc_vals_with av fee_mult total r remaining b   (* continue *)
      else
        let reward := val_reward fee_mult total v in
        match av v reward b with
        | Panic => Panic
        | Ok b' => if remaining - reward <? 0 then Panic
                   else alloc_vals_with av fee_mult total r (remaining - reward) b'
        end
  end.

Definition books_of (s : state) : books := mkBooks (s_comm s) (s_commission s) (s_outstanding s) (s_rewards s).

Definition alloc_tokens_with (av : vin -> Z -> books -> outcome books)
  (tax total : Z) (vals : list vin) (s : state) : outcome state :=
  let fees := dec_of_int (s_fc s) in                         (* NewDecCoinsFromCoins(balance of the fee collector) *)
  (* SendCoinsFromModuleToModule(fee collector -> distribution), the whole balance *)
  let fc' := 0 in
  let dist' := s_dist s + s_fc s in
  if total =? 0 then
    Ok (mkSt (s_supply s) fc' (s_mint s) dist' (s_comm s + fees) (s_commission s) (s_outstanding s) (s_rewards s))
  else
    let fee_mult := dec_mul_trunc fees (P - tax) in          (* feesCollected.MulDecTruncate(1 - communityTax) *)
    match alloc_vals_with av fee_mult total vals fees (books_of s) with
    | Panic => Panic
    | Ok (remaining, b) =>
        Ok (mkSt (s_supply s) fc' (s_mint s) dist' (b_comm b + remaining) (b_commission b) (b_outstanding b) (b_rewards b))
    end.

Definition alloc_tokens := alloc_tokens_with alloc_validator.
Definition alloc_tokens_legacy := alloc_tokens_with (alloc_validator_with alloc_stakers_legacy).

(* ---- the two hooks and their order ---- *)
Definition dist_hook_with (at_ : Z -> Z -> list vin -> state -> outcome state)
  (c : cfg) (id : string) (total : Z) (vals : list vin) (s : state) : outcome state :=
  if String.eqb id (c_dist_id c) then at_ (c_tax c) total vals s else Ok s.

Definition dist_hook := dist_hook_with alloc_tokens.

(* exomint AfterEpochEnd: identifier match; zero reward skipped; sdk.NewCoin panics on a negative amount;
   MintCoins to the module account, then the module account forwards everything to the fee collector. *)
Definition mint_hook (c : cfg) (id : string) (s : state) : outcome state :=
  if String.eqb id (c_mint_id c) then
    if c_reward c =? 0 then Ok s
    else if c_reward c <? 0 then Panic
    else Ok (mkSt (s_supply s + c_reward c) (s_fc s + c_reward c) (s_mint s + c_reward c - c_reward c) (s_dist s)
                  (s_comm s) (s_commission s) (s_outstanding s) (s_rewards s))
  else Ok s.

(* MultiEpochHooks.AfterEpochEnd: distribution first, mint later (operator, dogfood, avs in between do not touch this state) *)
Definition subscribers : list string := ["feedistribution"; "operator"; "dogfood"; "exomint"; "avs"]%string.

Definition epoch_end_with (dh : cfg -> string -> Z -> list vin -> state -> outcome state)
  (c : cfg) (id : string) (total : Z) (vals : list vin) (s : state) : outcome state :=
  match dh c id total vals s with
  | Panic => Panic
  | Ok s1 => mint_hook c id s1
  end.

Definition epoch_end := epoch_end_with dist_hook.
Definition epoch_end_legacy := epoch_end_with (dist_hook_with alloc_tokens_legacy).

(* ---- histories ---- *)
Inductive op :=
| EpochEnd (c : cfg) (id : string) (total : Z) (vals : list vin)   (* one AfterEpochEnd fan-out, with the params in force *)
| Income (a : Z)                                                    (* fees paid into the fee collector by accounts *)
| Burn (a : Z).                                                     (* an ordinary bank / EVM burn of coins held outside these accounts *)

Definition step (s : state) (o : op) : outcome state :=
  match o with
  | EpochEnd c id total vals => epoch_end c id total vals s
  | Income a => Ok (mkSt (s_supply s) (s_fc s + a) (s_mint s) (s_dist s) (s_comm s) (s_commission s) (s_outstanding s) (s_rewards s))
  | Burn a => Ok (mkSt (s_supply s - a) (s_fc s) (s_mint s) (s_dist s) (s_comm s) (s_commission s) (s_outstanding s) (s_rewards s))
  end.

Fixpoint run (ops : list op) (s : state) : outcome state :=
  match ops with
  | [] => Ok s
  | o :: r => match step s o with Panic => Panic | Ok s' => run r s' end
  end.

(* what the property says the supply may change by: the reward of every epoch end whose identifier is the mint identifier *)
Definition minted_by (o : op) : Z :=
  match o with
  | EpochEnd c id _ _ => if String.eqb id (c_mint_id c) then c_reward c else 0
  | Income _ => 0
  | Burn _ => 0
  end.

Definition minted (ops : list op) : Z := zsum (map minted_by ops).

Definition burned_by (o : op) : Z := match o with Burn a => a | _ => 0 end.
Definition burned (ops : list op) : Z := zsum (map burned_by ops).

(* ---- guards (boolean, satisfiable: see Props.v) ---- *)
Definition app_ok (a : Z * Z) : bool := 0 <=? snd a.
Definition vin_ok (v : vin) : bool :=
  (0 <=? v_power v) && (0 <=? v_rate v) && (v_rate v <=? P) && forallb app_ok (v_apps v).
Definition found_power (vals : list vin) : Z :=
  zsum (map (fun v => if v_found v then v_power v else 0) vals).
Definition inputs_ok (c : cfg) (total : Z) (vals : list vin) : bool :=
  (0 <=? c_tax c) && (c_tax c <=? P) && (0 <=? c_reward c) && (0 <=? total) &&
  forallb vin_ok vals && (found_power vals <=? total).
Definition op_ok (o : op) : bool :=
  match o with
  | EpochEnd c _ total vals => inputs_ok c total vals
  | Income a => 0 <=? a
  | Burn a => 0 <=? a
  end.
Definition state_ok (s : state) : bool := 0 <=? s_fc s.

(* ---- correspondence cases (written by harness/s_c17.go) ---- *)
Record obs := mkObs {
  o_supply : Z; o_fc : Z; o_mint : Z; o_dist : Z; o_comm : Z;
  o_commission : list (Z * Z); o_outstanding : list (Z * Z); o_rewards : list (Z * Z);   (* known operators / stakers *)
  o_tot_commission : Z; o_tot_rewards : Z; o_tot_outstanding : Z                         (* sums over the raw store *)
}.

Record event := mkEv {
  e_id : string; e_dist_id : string; e_tax : Z; e_mint_id : string; e_reward : Z; e_total : Z;
  e_vals : list vin; e_pre : obs; e_post : obs; e_panic : bool }.

(* an epoch end of an identifier that is not the distribution identifier, after which every observed value is as before
   (the harness writes such events in this shorter form) *)
Definition mkEvSame (id dist_id : string) (tax : Z) (mint_id : string) (reward total : Z) (o : obs) : event :=
  mkEv id dist_id tax mint_id reward total [] o o false.

(* ---- parameter updates (x/exomint/keeper/msg_server.go UpdateParams, x/exomint/types/params.go OverrideIfRequired /
        Validate, x/exomint/types/msg.go ValidateBasic; x/feedistribution/keeper/msg_update_params.go UpdateParams;
        x/epochs/types/identifier.go ValidateEpochIdentifierString; x/epochs/keeper/epoch_infos.go GetEpochInfo) ---- *)

(* strings.TrimSpace(s) = "" : every character is white space (ASCII white space; generated identifiers are ASCII) *)
Definition is_space (c : Ascii.ascii) : bool :=
  let n := Ascii.nat_of_ascii c in
  Nat.eqb n 32 || Nat.eqb n 9 || Nat.eqb n 10 || Nat.eqb n 11 || Nat.eqb n 12 || Nat.eqb n 13.

Fixpoint blank (s : string) : bool :=
  match s with
  | EmptyString => true
  | String c r => is_space c && blank r
  end.

(* GetEpochInfo(identifier) finds an entry: the lookup is by the exact bytes of the identifier *)
Definition known_id (known : list string) (s : string) : bool := existsb (String.eqb s) known.

(* exomint UpdateParams (mint denom not changed). [vb]: the message went through ValidateBasic first, as every
   transaction / governance message does (Params.Validate: reward >= 0, identifier not blank); [auth]: msg.Authority is the
   module authority (the chain id counts as mainnet). Returns (error?, identifier and reward in force afterwards). *)
Definition mint_update (vb auth : bool) (known : list string) (prev : string * Z) (req : string * Z) : bool * (string * Z) :=
  if vb && ((snd req <? 0) || blank (fst req)) then (true, prev)
  else if negb auth then (true, prev)
  else
    (* OverrideIfRequired: a negative reward / a blank identifier is replaced by the previous value *)
    let reward := if snd req <? 0 then snd prev else snd req in
    let id1 := if blank (fst req) then fst prev else fst req in
    (* stateful check: an identifier that names no epoch is replaced by the previous one *)
    let id2 := if known_id known id1 then id1 else fst prev in
    (false, (id2, reward)).

(* feedistribution UpdateParams: Params.Validate accepts everything; an identifier that names no epoch is rejected *)
Definition dist_update (auth : bool) (known : list string) (prev : string * Z) (req : string * Z) : bool * (string * Z) :=
  if negb auth then (true, prev)
  else if known_id known (fst req) then (false, req) else (true, prev).

Inductive upd_kind := UMint | UDist | USetMint | USetDist.   (* the last two: params written by the harness (SetParams) *)

Record upd := mkUpd {
  u_kind : upd_kind; u_vb : bool; u_auth : bool;
  u_known : list string;                   (* identifiers in the epochs store *)
  u_prev : string * Z;                     (* stored (identifier, reward | tax) before *)
  u_req : string * Z;                      (* requested *)
  u_err : bool;                            (* the handler (or ValidateBasic) returned an error *)
  u_post : string * Z                      (* stored afterwards *)
}.

Definition upd_spec (u : upd) (prev : string * Z) : bool * (string * Z) :=
  match u_kind u with
  | UMint => mint_update (u_vb u) (u_auth u) (u_known u) prev (u_req u)
  | UDist => dist_update (u_auth u) (u_known u) prev (u_req u)
  | USetMint | USetDist => (false, u_req u)
  end.

Inductive item := IEv (e : event) | IUpd (u : upd).

Record case := mkCase { c_subs : list string; c_items : list item }.

Definition pair_eqb (a b : string * Z) : bool := String.eqb (fst a) (fst b) && (snd a =? snd b).

(* a ledger holding the observed amounts, plus one entry (key -1) for whatever the store holds under other keys *)
Definition ledger_of (known : list (Z * Z)) (tot : Z) : ledger := (-1, tot - ltotal known) :: known.

Definition state_of (o : obs) : state :=
  mkSt (o_supply o) (o_fc o) (o_mint o) (o_dist o) (o_comm o)
       (ledger_of (o_commission o) (o_tot_commission o))
       (ledger_of (o_outstanding o) (o_tot_outstanding o))
       (ledger_of (o_rewards o) (o_tot_rewards o)).

Definition ledger_matches (l : ledger) (known : list (Z * Z)) (tot : Z) : bool :=
  forallb (fun e => bal l (fst e) =? snd e) known && (ltotal l =? tot).

Definition state_matches (s : state) (o : obs) : bool :=
  (s_supply s =? o_supply o) && (s_fc s =? o_fc o) && (s_mint s =? o_mint o) && (s_dist s =? o_dist o) &&
  (s_comm s =? o_comm o) &&
  ledger_matches (s_commission s) (o_commission o) (o_tot_commission o) &&
  ledger_matches (s_outstanding s) (o_outstanding o) (o_tot_outstanding o) &&
  ledger_matches (s_rewards s) (o_rewards o) (o_tot_rewards o).

Definition cfg_of (e : event) : cfg := mkCfg (e_dist_id e) (e_tax e) (e_mint_id e) (e_reward e).

Definition check_event (e : event) : bool :=
  match epoch_end (cfg_of e) (e_id e) (e_total e) (e_vals e) (state_of (e_pre e)) with
  | Panic => e_panic e
  | Ok s' => negb (e_panic e) && state_matches s' (e_post e)
  end.

Fixpoint first_bad {A} (f : A -> bool) (l : list A) (i : nat) : option nat :=
  match l with
  | [] => None
  | x :: r => if f x then first_bad f r (S i) else Some i
  end.

(* None = model and implementation agree on every epoch end of the case; Some 0 = hook order differs;
   Some (i+1) = epoch end i differs *)
Definition check_upd (u : upd) : bool :=
  let '(err, post) := upd_spec u (u_prev u) in
  Bool.eqb err (u_err u) && pair_eqb post (u_post u).

Definition check_item (i : item) : bool :=
  match i with IEv e => check_event e | IUpd u => check_upd u end.

Definition check_case (c : case) : option nat :=
  if negb (list_eqb String.eqb (c_subs c) subscribers) then Some 0%nat
  else first_bad check_item (c_items c) 1.

(* ---- the property, evaluated on the IMPLEMENTATION's observations only ---- *)
Definition obs_booked (o : obs) : Z := o_comm o + o_tot_commission o + o_tot_rewards o.

Definition known_delta (pre post : list (Z * Z)) (k : Z) : Z := bal post k - bal pre k.

(* exact proportional share of validator v is fee_mult * power / total; the booked portion may fall short of it by the
   two truncations (less than fee_mult * 10^-18 + 2 * 10^-18) and never exceeds it *)
Definition portion_ok (fee_mult total power portion : Z) : bool :=
  (0 <=? portion) && (portion * total <=? fee_mult * power) &&
  (fee_mult * power <? (portion + fee_mult / P + 2) * total).

(* commission = portion * rate up to one unit of 10^-18, whatever the rounding mode *)
Definition commission_ok (portion rate commission : Z) : bool :=
  (0 <=? commission) && (commission <=? portion) && (Z.abs (commission * P - portion * rate) <=? P).

Definition ops_of (vals : list vin) : list Z :=
  nodup Z.eq_dec (map v_op (filter v_found vals)).

Definition monitor_event (e : event) : bool :=
  let pre := e_pre e in let post := e_post e in
  let is_dist := String.eqb (e_id e) (e_dist_id e) in
  let is_mint := String.eqb (e_id e) (e_mint_id e) in
  let minted_now := if is_mint then e_reward e else 0 in
  let moved := o_dist post - o_dist pre in
  (* no DecCoins panic inside BeginBlock *)
  negb (e_panic e) &&
  (* supply changes by the epoch reward at a mint-epoch end, exactly once, and by nothing else *)
  (o_supply post - o_supply pre =? minted_now) && (o_mint post =? o_mint pre) &&
  (* the whole fee-collector balance moves at a distribution-epoch end, nothing otherwise; distribution runs before
     the mint, so the fresh reward is what the fee collector holds afterwards *)
  (moved =? (if is_dist then o_fc pre else 0)) &&
  (o_fc post =? (if is_dist then 0 else o_fc pre) + minted_now) &&
  (* booked claims add up to exactly the amount moved *)
  (obs_booked post - obs_booked pre =? moved * P) &&
  (* and never exceed the distribution account's balance *)
  (obs_booked post <=? o_dist post * P) &&
  (* no claim shrinks *)
  (o_comm pre <=? o_comm post) && (o_tot_commission pre <=? o_tot_commission post) &&
  (o_tot_rewards pre <=? o_tot_rewards post) &&
  forallb (fun kv => bal (o_commission pre) (fst kv) <=? snd kv) (o_commission post) &&
  forallb (fun kv => bal (o_rewards pre) (fst kv) <=? snd kv) (o_rewards post) &&
  (* each validator's portion is proportional to its voting power and split by its commission rate *)
  (if is_dist && negb (e_total e =? 0) && (0 <=? e_tax e) && (e_tax e <=? P) then
     let fees := o_fc pre * P in
     let fee_mult := fees * (P - e_tax e) / P in
     (o_tot_outstanding post - o_tot_outstanding pre <=? fee_mult) &&
     forallb (fun k =>
        let mine := filter (fun v => v_found v && (v_op v =? k)) (e_vals e) in
        let power := zsum (map v_power mine) in
        let portion := known_delta (o_outstanding pre) (o_outstanding post) k in
        let commission := known_delta (o_commission pre) (o_commission post) k in
        portion_ok fee_mult (e_total e) power portion &&
        match mine with
        | [v] => commission_ok portion (v_rate v) commission
        | _ => true
        end) (ops_of (e_vals e))
   else
     (* no distribution: nothing is booked to any validator *)
     (if is_dist then true else
        (o_tot_outstanding post =? o_tot_outstanding pre) && (o_tot_commission post =? o_tot_commission pre) &&
        (o_tot_rewards post =? o_tot_rewards pre) && (o_comm post =? o_comm pre))).

(* The CONFIGURED parameters: what a correct sequence of parameter updates leaves in force. The monitor follows them through
   the updates of the case by the update rules above (starting from the stored values observed before the first update) and
   evaluates every epoch end against the configured identifiers / reward / tax — not against whatever the implementation
   happens to have stored. None = no update seen yet: the stored values observed at the epoch end are the configuration. *)
Record conf := mkConf { cf_mint : option (string * Z); cf_dist : option (string * Z) }.

Definition conf_step (cf : conf) (u : upd) : conf :=
  match u_kind u with
  | UMint | USetMint =>
      let prev := match cf_mint cf with Some p => p | None => u_prev u end in
      mkConf (Some (snd (upd_spec u prev))) (cf_dist cf)
  | UDist | USetDist =>
      let prev := match cf_dist cf with Some p => p | None => u_prev u end in
      mkConf (cf_mint cf) (Some (snd (upd_spec u prev)))
  end.

(* the epoch end as the property sees it: the configured params in place of the stored ones *)
Definition with_conf (cf : conf) (e : event) : event :=
  let m := match cf_mint cf with Some p => p | None => (e_mint_id e, e_reward e) end in
  let d := match cf_dist cf with Some p => p | None => (e_dist_id e, e_tax e) end in
  mkEv (e_id e) (fst d) (snd d) (fst m) (snd m) (e_total e) (e_vals e) (e_pre e) (e_post e) (e_panic e).

(* a parameter update never leaves an identifier in force that names no epoch (then nothing would ever be minted /
   distributed again), whatever was requested *)
Definition monitor_upd (u : upd) : bool :=
  match u_kind u with
  | UMint | UDist => negb (known_id (u_known u) (fst (u_prev u))) || known_id (u_known u) (fst (u_post u))
  | USetMint | USetDist => true
  end.

Fixpoint monitor_items (cf : conf) (l : list item) (i : nat) : option nat :=
  match l with
  | [] => None
  | IEv e :: r => if monitor_event (with_conf cf e) then monitor_items cf r (S i) else Some i
  | IUpd u :: r => if monitor_upd u then monitor_items (conf_step cf u) r (S i) else Some i
  end.

Definition monitor_case (c : case) : option nat :=
  if negb (list_eqb String.eqb (c_subs c) subscribers) then Some 0%nat
  else monitor_items (mkConf None None) (c_items c) 1.
