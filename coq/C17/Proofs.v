(* C17/Proofs.v — lemmas about the model of C17/Model.v. *)
From Coq Require Import List String Bool ZArith Lia.
From Exo Require Import Base.IntDec Base.Util C17.Model.
Import ListNotations.
Local Open Scope Z_scope.
Local Open Scope list_scope.

(* ------------------------------------------------------------------------------------------ *)
(* ledgers                                                                                      *)
Lemma ltotal_cons k v l : ltotal ((k, v) :: l) = v + ltotal l.
Proof. reflexivity. Qed.

Lemma bal_cons k v l k' : bal ((k, v) :: l) k' = (if k =? k' then v else 0) + bal l k'.
Proof. unfold bal. simpl. destruct (k =? k'); [rewrite ltotal_cons|]; lia. Qed.

(* ------------------------------------------------------------------------------------------ *)
(* 1. conservation: whatever is handed down is booked, to the unit                             *)

Lemma pay_stakers_conserves reward total ps : forall rem led rem' led',
  pay_stakers reward total ps rem led = Ok (rem', led') -> rem' + ltotal led' = rem + ltotal led.
Proof.
  induction ps as [|[s p] r IH]; intros rem led rem' led' H; simpl in H.
  - inversion H; subst; reflexivity.
  - destruct (rem - dec_mul_trunc reward (dec_quo_trunc p total) <? 0); [discriminate|].
    apply IH in H. rewrite ltotal_cons in H. lia.
Qed.

Definition conserving (stakers : Z -> list (Z * Z) -> Z -> ledger -> outcome (Z * ledger)) : Prop :=
  forall shared apps comm led comm' led',
    stakers shared apps comm led = Ok (comm', led') -> comm' + ltotal led' = comm + ltotal led + shared.

Lemma alloc_stakers_conserving : conserving alloc_stakers.
Proof.
  intros shared apps comm led comm' led'. unfold alloc_stakers.
  destruct (0 <? apps_total apps).
  - destruct (pay_stakers shared (apps_total apps) (staker_powers apps) shared led) as [[rem l]|] eqn:E; [|discriminate].
    intros H; inversion H; subst. apply pay_stakers_conserves in E. lia.
  - intros H; inversion H; subst. lia.
Qed.

Lemma alloc_validator_with_conserves stakers v tokens b b' :
  conserving stakers ->
  alloc_validator_with stakers v tokens b = Ok b' -> books_total b' = books_total b + tokens.
Proof.
  intros Hc. unfold alloc_validator_with.
  destruct (tokens - dec_mul tokens (v_rate v) <? 0); [discriminate|].
  destruct (stakers (tokens - dec_mul tokens (v_rate v)) (v_apps v) (b_comm b) (b_rewards b)) as [[c' r']|] eqn:E; [|discriminate].
  intros H; inversion H; subst. apply Hc in E. unfold books_total; simpl. rewrite ltotal_cons. lia.
Qed.

Definition av_conserving (av : vin -> Z -> books -> outcome books) : Prop :=
  forall v tokens b b', av v tokens b = Ok b' -> books_total b' = books_total b + tokens.

Lemma alloc_vals_with_conserves av fee_mult total vals : av_conserving av ->
  forall rem b rem' b',
  alloc_vals_with av fee_mult total vals rem b = Ok (rem', b') -> books_total b' + rem' = books_total b + rem.
Proof.
  intros Hav. induction vals as [|v r IH]; intros rem b rem' b' H; simpl in H.
  - inversion H; subst; reflexivity.
  - destruct (negb (v_found v)); [apply IH in H; exact H|].
    destruct (av v (val_reward fee_mult total v) b) as [b1|] eqn:E; [|discriminate].
    destruct (rem - val_reward fee_mult total v <? 0); [discriminate|].
    apply IH in H. apply Hav in E. lia.
Qed.

Lemma alloc_tokens_with_facts av tax total vals s s' : av_conserving av ->
  alloc_tokens_with av tax total vals s = Ok s' ->
  booked s' = booked s + s_fc s * P /\ s_dist s' = s_dist s + s_fc s /\ s_fc s' = 0 /\
  s_supply s' = s_supply s /\ s_mint s' = s_mint s.
Proof.
  intros Hav. unfold alloc_tokens_with.
  destruct (total =? 0).
  - intros H; inversion H; subst; unfold booked, dec_of_int; simpl. repeat split; lia.
  - destruct (alloc_vals_with av (dec_mul_trunc (dec_of_int (s_fc s)) (P - tax)) total vals (dec_of_int (s_fc s)) (books_of s))
      as [[rem b]|] eqn:E; [|discriminate].
    intros H; inversion H; subst. apply alloc_vals_with_conserves in E; [|exact Hav].
    unfold booked, books_total, books_of, dec_of_int in *; simpl in *. repeat split; lia.
Qed.

Lemma alloc_validator_conserving : av_conserving alloc_validator.
Proof. intros v t b b' H. eapply alloc_validator_with_conserves; [apply alloc_stakers_conserving|exact H]. Qed.

(* the amount minted by one epoch end *)
Definition minted_now (c : cfg) (id : string) : Z := if String.eqb id (c_mint_id c) then c_reward c else 0.

Lemma mint_hook_facts c id s s' : mint_hook c id s = Ok s' ->
  s_supply s' = s_supply s + minted_now c id /\ s_fc s' = s_fc s + minted_now c id /\
  s_mint s' = s_mint s /\ s_dist s' = s_dist s /\ booked s' = booked s.
Proof.
  unfold mint_hook, minted_now. destruct (String.eqb id (c_mint_id c)).
  - destruct (c_reward c =? 0) eqn:E0.
    + apply Z.eqb_eq in E0. intros H; inversion H; subst. rewrite E0. repeat split; lia.
    + destruct (c_reward c <? 0); [discriminate|]. intros H; inversion H; subst. unfold booked; simpl. repeat split; lia.
  - intros H; inversion H; subst. repeat split; lia.
Qed.

Definition moved_now (c : cfg) (id : string) (s : state) : Z := if String.eqb id (c_dist_id c) then s_fc s else 0.

Lemma epoch_end_facts c id total vals s s' : epoch_end c id total vals s = Ok s' ->
  s_supply s' = s_supply s + minted_now c id /\
  s_dist s' = s_dist s + moved_now c id s /\
  s_fc s' = s_fc s - moved_now c id s + minted_now c id /\
  s_mint s' = s_mint s /\
  booked s' = booked s + moved_now c id s * P.
Proof.
  unfold epoch_end, epoch_end_with, dist_hook, dist_hook_with, moved_now.
  destruct (String.eqb id (c_dist_id c)).
  - destruct (alloc_tokens (c_tax c) total vals s) as [s1|] eqn:E; [|discriminate].
    intros H. apply mint_hook_facts in H. apply alloc_tokens_with_facts in E; [|apply alloc_validator_conserving].
    destruct H as (H1 & H2 & H3 & H4 & H5). destruct E as (E1 & E2 & E3 & E4 & E5). repeat split; lia.
  - intros H. apply mint_hook_facts in H. destruct H as (H1 & H2 & H3 & H4 & H5). repeat split; lia.
Qed.

(* ------------------------------------------------------------------------------------------ *)
(* 2. histories                                                                                 *)

Lemma step_facts s o s' : step s o = Ok s' ->
  s_supply s' = s_supply s + minted_by o - burned_by o /\
  (booked s' - s_dist s' * P = booked s - s_dist s * P) /\ s_mint s' = s_mint s.
Proof.
  destruct o as [c id total vals|a|a]; simpl.
  - intros H. apply epoch_end_facts in H. destruct H as (H1 & H2 & H3 & H4 & H5).
    unfold minted_now in H1. repeat split; try lia.
  - intros H; inversion H; subst. unfold booked; simpl. repeat split; lia.
  - intros H; inversion H; subst. unfold booked; simpl. repeat split; lia.
Qed.

Lemma run_facts ops : forall s s', run ops s = Ok s' ->
  s_supply s' = s_supply s + minted ops - burned ops /\
  (booked s' - s_dist s' * P = booked s - s_dist s * P) /\ s_mint s' = s_mint s.
Proof.
  induction ops as [|o r IH]; intros s s' H; simpl in H.
  - inversion H; subst. unfold minted, burned; simpl. repeat split; lia.
  - destruct (step s o) as [s1|] eqn:E; [|discriminate].
    apply IH in H. apply step_facts in E. unfold minted, burned in *; simpl.
    destruct H as (H1 & H2 & H3). destruct E as (E1 & E2 & E3). repeat split; lia.
Qed.

(* ------------------------------------------------------------------------------------------ *)
(* 3. arithmetic of the truncated proportional split                                            *)

Lemma dec_quo_trunc_nonneg w t : 0 <= w -> 0 < t -> 0 <= dec_quo_trunc w t.
Proof.
  intros Hw Ht. unfold dec_quo_trunc, chop_trunc. pose proof PP_pos. pose proof P_pos.
  rewrite (quot_nonneg_div (w * PP) t) by nia.
  assert (0 <= w * PP / t) by (apply Z.div_pos; nia).
  rewrite quot_nonneg_div by lia. apply Z.div_pos; lia.
Qed.

(* frac = QuoTruncate(w, t) never exceeds w/t *)
Lemma dec_quo_trunc_le w t : 0 <= w -> 0 < t -> dec_quo_trunc w t * t <= w * P.
Proof.
  intros Hw Ht. unfold dec_quo_trunc, chop_trunc. pose proof PP_pos as HPP. pose proof P_pos as HP.
  rewrite (quot_nonneg_div (w * PP) t) by nia.
  assert (H0 : 0 <= w * PP / t) by (apply Z.div_pos; nia).
  rewrite quot_nonneg_div by lia.
  set (a := w * PP / t) in *.
  assert (Ha : a * t <= w * PP) by (unfold a; rewrite Z.mul_comm; apply Z.mul_div_le; lia).
  assert (Hb : a / P * P <= a) by (rewrite Z.mul_comm; apply Z.mul_div_le; lia).
  assert (0 <= a / P) by (apply Z.div_pos; lia).
  unfold PP in Ha.
  assert (a / P * t * P <= w * P * P) by nia.
  nia.
Qed.

(* A.MulDecTruncate(frac) never exceeds A*frac *)
Lemma dec_mul_trunc_le_prod a f : 0 <= a -> 0 <= f -> dec_mul_trunc a f * P <= a * f.
Proof.
  intros Ha Hf. unfold dec_mul_trunc, chop_trunc. pose proof P_pos.
  rewrite quot_nonneg_div by nia. rewrite Z.mul_comm. apply Z.mul_div_le. lia.
Qed.

(* the share booked for weight w out of t is never more than A*w/t *)
Lemma share_le a w t : 0 <= a -> 0 <= w -> 0 < t ->
  0 <= dec_mul_trunc a (dec_quo_trunc w t) /\ dec_mul_trunc a (dec_quo_trunc w t) * t <= a * w.
Proof.
  intros Ha Hw Ht. pose proof P_pos as HP.
  pose proof (dec_quo_trunc_nonneg w t Hw Ht) as Hf0.
  pose proof (dec_quo_trunc_le w t Hw Ht) as Hf.
  pose proof (dec_mul_trunc_le_prod a _ Ha Hf0) as Hm.
  pose proof (dec_mul_trunc_nonneg a _ Ha Hf0) as Hm0.
  split; [exact Hm0|].
  set (f := dec_quo_trunc w t) in *. set (r := dec_mul_trunc a f) in *.
  assert (r * t * P <= a * w * P) by nia.
  nia.
Qed.

(* and falls short of it by less than a * 10^-18 + 10^-18 *)
Lemma share_ge a w t : 0 <= a -> 0 <= w -> 0 < t ->
  a * w * P < (dec_mul_trunc a (dec_quo_trunc w t) * P + a + P) * t.
Proof.
  intros Ha Hw Ht. pose proof P_pos as HP. pose proof PP_pos as HPP.
  pose proof (dec_quo_trunc_nonneg w t Hw Ht) as Hf0.
  unfold dec_mul_trunc at 1, chop_trunc.
  set (f := dec_quo_trunc w t) in *.
  rewrite quot_nonneg_div by nia.
  (* f > w*P/t - 1 *)
  assert (Hf : w * P < (f + 1) * t).
  { unfold f, dec_quo_trunc, chop_trunc.
    rewrite (quot_nonneg_div (w * PP) t) by nia.
    assert (H0 : 0 <= w * PP / t) by (apply Z.div_pos; nia).
    rewrite quot_nonneg_div by lia.
    set (x := w * PP / t) in *.
    pose proof (Z.div_mod (w * PP) t ltac:(lia)) as E1. pose proof (Z.mod_pos_bound (w * PP) t Ht) as B1.
    pose proof (Z.div_mod x P ltac:(lia)) as E2. pose proof (Z.mod_pos_bound x P HP) as B2.
    fold x in E1. set (r1 := (w * PP) mod t) in *. unfold PP in E1.
    (* w*P*P = t*x + r1, x = P*(x/P) + r2 ; so w*P*P < t*(P*(x/P) + P) *)
    set (y := x / P) in *.
    assert (Hx : x + 1 <= P * y + P) by lia.
    assert (Htx : t * (x + 1) <= t * (P * y + P)) by (apply Z.mul_le_mono_nonneg_l; lia).
    assert (Hwx : w * P * P < t * (x + 1)) by lia.
    assert (Hw2 : (w * P) * P < ((y + 1) * t) * P) by lia.
    apply Z.mul_lt_mono_pos_r in Hw2; [exact Hw2|exact HP]. }
  pose proof (Z.div_mod (a * f) P ltac:(lia)) as E3. pose proof (Z.mod_pos_bound (a * f) P HP) as B3.
  set (q := a * f / P) in *.
  (* a*f < P*q + P ; a*w*P <= a*(f+1)*t *)
  assert (H1 : a * (w * P) <= a * ((f + 1) * t)) by (apply Z.mul_le_mono_nonneg_l; lia).
  assert (H2 : a * ((f + 1) * t) = (a * f + a) * t) by ring.
  assert (H3 : (a * f + a) * t < (q * P + a + P) * t) by (apply Z.mul_lt_mono_pos_r; lia).
  lia.
Qed.

(* banker-rounded commission of non-negative tokens at a rate in [0,1] stays within [0, tokens] *)
Lemma commission_bounds tokens rate : 0 <= tokens -> 0 <= rate -> rate <= P ->
  0 <= dec_mul tokens rate /\ dec_mul tokens rate <= tokens.
Proof.
  intros Ht Hr0 Hr1. pose proof P_pos as HP. unfold dec_mul.
  assert (Hd : 0 <= tokens * rate) by nia.
  rewrite chop_round_nonneg_eq by exact Hd.
  split; [apply chop_round_nn_nonneg; exact Hd|].
  pose proof (chop_round_nn_bounds (tokens * rate) Hd) as [Hu _].
  assert (tokens * rate <= tokens * P) by nia.
  nia.
Qed.

(* and within one unit of tokens*rate *)
Lemma commission_close tokens rate : 0 <= tokens -> 0 <= rate ->
  Z.abs (dec_mul tokens rate * P - tokens * rate) <= P.
Proof.
  intros Ht Hr0. pose proof P_pos as HP. unfold dec_mul.
  assert (Hd : 0 <= tokens * rate) by nia.
  rewrite chop_round_nonneg_eq by exact Hd.
  pose proof (chop_round_nn_bounds (tokens * rate) Hd) as [Hu Hl]. lia.
Qed.

(* ------------------------------------------------------------------------------------------ *)
(* 4. no DecCoins panic under the guards                                                        *)

Lemma acc_add_total l k v : zsum (map snd (acc_add l k v)) = zsum (map snd l) + v.
Proof.
  induction l as [|[k' v'] r IH]; simpl; [lia|].
  destruct (k' =? k); simpl; [lia|]. rewrite IH. lia.
Qed.

Lemma acc_add_nonneg l k v : 0 <= v -> forallb app_ok l = true -> forallb app_ok (acc_add l k v) = true.
Proof.
  intros Hv. induction l as [|[k' v'] r IH]; simpl; intros H.
  - unfold app_ok; simpl. apply andb_true_intro; split; [apply Z.leb_le; lia|reflexivity].
  - apply andb_prop in H. destruct H as [H1 H2]. destruct (k' =? k); simpl.
    + rewrite H2. unfold app_ok in *; simpl in *. apply Z.leb_le in H1. rewrite andb_true_r. apply Z.leb_le. lia.
    + rewrite H1, IH by exact H2. reflexivity.
Qed.

Lemma staker_powers_gen apps : forall acc, forallb app_ok apps = true -> forallb app_ok acc = true ->
  let r := fold_left (fun l a => acc_add l (fst a) (snd a)) apps acc in
  zsum (map snd r) = zsum (map snd acc) + apps_total apps /\ forallb app_ok r = true.
Proof.
  induction apps as [|[k v] r IH]; intros acc Ha Hacc; simpl.
  - unfold apps_total; simpl. split; [lia|exact Hacc].
  - simpl in Ha. apply andb_prop in Ha. destruct Ha as [Ha1 Ha2].
    unfold app_ok in Ha1; simpl in Ha1. apply Z.leb_le in Ha1.
    specialize (IH (acc_add acc k v) Ha2 (acc_add_nonneg acc k v Ha1 Hacc)). simpl in IH.
    destruct IH as [IH1 IH2]. rewrite acc_add_total in IH1. unfold apps_total in *; simpl. split; [lia|exact IH2].
Qed.

Lemma staker_powers_facts apps : forallb app_ok apps = true ->
  zsum (map snd (staker_powers apps)) = apps_total apps /\ forallb app_ok (staker_powers apps) = true.
Proof.
  intros H. pose proof (staker_powers_gen apps [] H eq_refl) as [H1 H2]. simpl in H1. unfold staker_powers. split; [lia|exact H2].
Qed.

(* the payment loop never drives [remaining] below zero when the listed powers add up to at most the divisor *)
Lemma pay_stakers_ok reward total ps : 0 <= reward -> 0 < total -> forallb app_ok ps = true ->
  forall rem led, reward * zsum (map snd ps) <= rem * total ->
  exists rem' led', pay_stakers reward total ps rem led = Ok (rem', led') /\ 0 <= rem'.
Proof.
  intros Hr Ht. induction ps as [|[s p] r IH]; intros Hok rem led Hinv; simpl.
  - exists rem, led. split; [reflexivity|]. simpl in Hinv. nia.
  - simpl in Hok. apply andb_prop in Hok. destruct Hok as [Hp Hok]. unfold app_ok in Hp; simpl in Hp. apply Z.leb_le in Hp.
    pose proof (share_le reward p total Hr Hp Ht) as [Hs0 Hs].
    set (rew := dec_mul_trunc reward (dec_quo_trunc p total)) in *.
    assert (Hrest : 0 <= zsum (map snd r)).
    { clear - Hok. induction r as [|[k v] r IH]; simpl; [lia|]. simpl in Hok. apply andb_prop in Hok. destruct Hok as [H1 H2].
      unfold app_ok in H1; simpl in H1. apply Z.leb_le in H1. specialize (IH H2). lia. }
    simpl in Hinv.
    assert (Hnext : reward * zsum (map snd r) <= (rem - rew) * total) by nia.
    assert (0 <= rem - rew) by nia.
    destruct (rem - rew <? 0) eqn:E; [apply Z.ltb_lt in E; lia|].
    apply IH; assumption.
Qed.

Lemma alloc_stakers_ok shared apps comm led : 0 <= shared -> forallb app_ok apps = true ->
  exists comm' led', alloc_stakers shared apps comm led = Ok (comm', led') /\ comm <= comm'.
Proof.
  intros Hs Hok. unfold alloc_stakers.
  destruct (0 <? apps_total apps) eqn:E.
  - apply Z.ltb_lt in E. pose proof (staker_powers_facts apps Hok) as [H1 H2].
    destruct (pay_stakers_ok shared (apps_total apps) (staker_powers apps) Hs E H2 shared led) as (rem' & led' & Hp & Hr).
    { rewrite H1. lia. }
    rewrite Hp. exists (comm + rem'), led'. split; [reflexivity|lia].
  - exists (comm + shared), led. split; [reflexivity|lia].
Qed.

Lemma alloc_validator_ok v tokens b : 0 <= tokens -> vin_ok v = true ->
  exists b', alloc_validator v tokens b = Ok b'.
Proof.
  intros Ht Hv. unfold vin_ok in Hv.
  apply andb_prop in Hv. destruct Hv as [Hv Happs]. apply andb_prop in Hv. destruct Hv as [Hv Hr1].
  apply andb_prop in Hv. destruct Hv as [Hp Hr0].
  apply Z.leb_le in Hr0. apply Z.leb_le in Hr1.
  pose proof (commission_bounds tokens (v_rate v) Ht Hr0 Hr1) as [Hc0 Hc1].
  unfold alloc_validator, alloc_validator_with.
  destruct (tokens - dec_mul tokens (v_rate v) <? 0) eqn:E; [apply Z.ltb_lt in E; lia|].
  destruct (alloc_stakers_ok (tokens - dec_mul tokens (v_rate v)) (v_apps v) (b_comm b) (b_rewards b)) as (c' & l' & H & _);
    [lia|exact Happs|].
  rewrite H. eexists. reflexivity.
Qed.

Lemma found_power_nonneg vals : forallb vin_ok vals = true -> 0 <= found_power vals.
Proof.
  induction vals as [|v r IH]; intros H; unfold found_power in *; simpl; [lia|].
  simpl in H. apply andb_prop in H. destruct H as [Hv Hr]. specialize (IH Hr).
  unfold vin_ok in Hv. apply andb_prop in Hv. destruct Hv as [Hv _]. apply andb_prop in Hv. destruct Hv as [Hv _].
  apply andb_prop in Hv. destruct Hv as [Hp _]. apply Z.leb_le in Hp.
  destruct (v_found v); lia.
Qed.

(* the loop over the validators: (remaining - floor)*total >= fee_mult * (power still to be served) *)
Lemma alloc_vals_ok fee_mult total vals : 0 <= fee_mult -> 0 < total -> forallb vin_ok vals = true ->
  forall floor rem b, 0 <= floor -> fee_mult * found_power vals <= (rem - floor) * total ->
  exists rem' b', alloc_vals_with alloc_validator fee_mult total vals rem b = Ok (rem', b') /\ floor <= rem'.
Proof.
  intros Hf Ht. induction vals as [|v r IH]; intros Hok floor rem b Hfl Hinv; simpl.
  - exists rem, b. split; [reflexivity|]. unfold found_power in Hinv; simpl in Hinv. nia.
  - simpl in Hok. apply andb_prop in Hok. destruct Hok as [Hv Hok].
    pose proof (found_power_nonneg r Hok) as Hrest.
    unfold found_power in Hinv, Hrest. simpl in Hinv.
    destruct (v_found v) eqn:Efound; simpl.
    + assert (Hp : 0 <= v_power v).
      { unfold vin_ok in Hv. apply andb_prop in Hv. destruct Hv as [Hv _]. apply andb_prop in Hv. destruct Hv as [Hv _].
        apply andb_prop in Hv. destruct Hv as [Hp _]. apply Z.leb_le in Hp. exact Hp. }
      pose proof P_pos as HP.
      assert (Hsh : 0 <= val_reward fee_mult total v /\ val_reward fee_mult total v * total <= fee_mult * v_power v).
      { unfold val_reward, dec_of_int.
        pose proof (share_le fee_mult (v_power v * P) (total * P) Hf ltac:(nia) ltac:(nia)) as [H0 H1].
        split; [exact H0|].
        set (x := dec_mul_trunc fee_mult (dec_quo_trunc (v_power v * P) (total * P))) in *.
        assert (x * total * P <= fee_mult * v_power v * P) by nia. nia. }
      destruct Hsh as [Hs0 Hs1]. set (reward := val_reward fee_mult total v) in *.
      destruct (alloc_validator_ok v reward b Hs0 Hv) as [b1 Hb1]. rewrite Hb1.
      assert (Hnext : fee_mult * zsum (map (fun v0 => if v_found v0 then v_power v0 else 0) r) <= (rem - reward - floor) * total) by nia.
      assert (0 <= rem - reward) by nia.
      destruct (rem - reward <? 0) eqn:E; [apply Z.ltb_lt in E; lia|].
      apply IH; assumption.
    + apply IH; try assumption; lia.
Qed.

Lemma alloc_tokens_ok tax total vals s : 0 <= s_fc s -> 0 <= tax -> tax <= P -> 0 <= total ->
  forallb vin_ok vals = true -> found_power vals <= total ->
  exists s', alloc_tokens tax total vals s = Ok s'.
Proof.
  intros Hfc Ht0 Ht1 Htot Hok Hpow. pose proof P_pos as HP. unfold alloc_tokens, alloc_tokens_with.
  destruct (total =? 0) eqn:E0; [eexists; reflexivity|]. apply Z.eqb_neq in E0.
  set (fees := dec_of_int (s_fc s)). assert (Hfees : 0 <= fees) by (unfold fees, dec_of_int; nia).
  pose proof (dec_mul_trunc_nonneg fees (P - tax) Hfees ltac:(lia)) as Hm0.
  pose proof (dec_mul_trunc_le fees (P - tax) Hfees ltac:(lia) ltac:(lia)) as Hm1.
  set (fm := dec_mul_trunc fees (P - tax)) in *.
  destruct (alloc_vals_ok fm total vals Hm0 ltac:(lia) Hok (fees - fm) fees (books_of s)) as (rem' & b' & H & _).
  - lia.
  - pose proof (found_power_nonneg vals Hok). nia.
  - rewrite H. eexists. reflexivity.
Qed.

Lemma epoch_end_ok c id total vals s : state_ok s = true -> inputs_ok c total vals = true ->
  exists s', epoch_end c id total vals s = Ok s' /\ state_ok s' = true.
Proof.
  unfold state_ok, inputs_ok. intros Hs Hi. apply Z.leb_le in Hs.
  repeat (apply andb_prop in Hi; destruct Hi as [Hi ?]).
  repeat match goal with H : (_ <=? _) = true |- _ => apply Z.leb_le in H end.
  unfold epoch_end, epoch_end_with, dist_hook, dist_hook_with.
  assert (Hmint : forall s1, 0 <= s_fc s1 -> exists s', mint_hook c id s1 = Ok s' /\ (0 <=? s_fc s') = true).
  { intros s1 Hs1. unfold mint_hook. destruct (String.eqb id (c_mint_id c)).
    - destruct (c_reward c =? 0); [exists s1; split; [reflexivity|apply Z.leb_le; lia]|].
      destruct (c_reward c <? 0) eqn:E; [apply Z.ltb_lt in E; lia|].
      eexists; split; [reflexivity|]. simpl. apply Z.leb_le. lia.
    - exists s1; split; [reflexivity|apply Z.leb_le; lia]. }
  destruct (String.eqb id (c_dist_id c)).
  - destruct (alloc_tokens_ok (c_tax c) total vals s) as [s1 Hat]; try assumption.
    rewrite Hat. apply Hmint.
    apply alloc_tokens_with_facts in Hat; [|apply alloc_validator_conserving]. lia.
  - apply Hmint. exact Hs.
Qed.

Lemma run_ok ops : forall s, state_ok s = true -> forallb op_ok ops = true ->
  exists s', run ops s = Ok s' /\ state_ok s' = true.
Proof.
  induction ops as [|o r IH]; intros s Hs Hops; simpl.
  - exists s. split; [reflexivity|exact Hs].
  - simpl in Hops. apply andb_prop in Hops. destruct Hops as [Ho Hr].
    assert (Hstep : exists s1, step s o = Ok s1 /\ state_ok s1 = true).
    { destruct o as [c id total vals|a|a]; simpl in *.
      - apply epoch_end_ok; assumption.
      - eexists; split; [reflexivity|]. unfold state_ok in *; simpl. apply Z.leb_le in Hs. apply Z.leb_le in Ho. apply Z.leb_le. lia.
      - eexists; split; [reflexivity|]. unfold state_ok in *; simpl. exact Hs. }
    destruct Hstep as (s1 & H1 & Hs1). rewrite H1. apply IH; assumption.
Qed.

(* ------------------------------------------------------------------------------------------ *)
(* 5. proportionality: what one distribution books per operator                                 *)

Definition fee_mult_of (tax : Z) (s : state) : Z := dec_mul_trunc (dec_of_int (s_fc s)) (P - tax).

(* rewards / commissions that the validator loop credits to operator k *)
Definition portion_of (fm total : Z) (vals : list vin) (k : Z) : Z :=
  zsum (map (fun v => if v_found v && (v_op v =? k) then val_reward fm total v else 0) vals).
Definition commission_of (fm total : Z) (vals : list vin) (k : Z) : Z :=
  zsum (map (fun v => if v_found v && (v_op v =? k) then dec_mul (val_reward fm total v) (v_rate v) else 0) vals).

Lemma alloc_validator_books v tokens b b' k : alloc_validator v tokens b = Ok b' ->
  bal (b_outstanding b') k = bal (b_outstanding b) k + (if v_op v =? k then tokens else 0) /\
  bal (b_commission b') k = bal (b_commission b) k + (if v_op v =? k then dec_mul tokens (v_rate v) else 0).
Proof.
  unfold alloc_validator, alloc_validator_with.
  destruct (tokens - dec_mul tokens (v_rate v) <? 0); [discriminate|].
  destruct (alloc_stakers (tokens - dec_mul tokens (v_rate v)) (v_apps v) (b_comm b) (b_rewards b)) as [[c' r']|]; [|discriminate].
  intros H; inversion H; subst; simpl. rewrite !bal_cons. split; lia.
Qed.

Lemma alloc_vals_books fm total vals k : forall rem b rem' b',
  alloc_vals_with alloc_validator fm total vals rem b = Ok (rem', b') ->
  bal (b_outstanding b') k = bal (b_outstanding b) k + portion_of fm total vals k /\
  bal (b_commission b') k = bal (b_commission b) k + commission_of fm total vals k.
Proof.
  induction vals as [|v r IH]; intros rem b rem' b' H; simpl in H.
  - inversion H; subst. unfold portion_of, commission_of; simpl. split; lia.
  - unfold portion_of, commission_of in *; simpl.
    destruct (v_found v); simpl in *.
    + destruct (alloc_validator v (val_reward fm total v) b) as [b1|] eqn:E; [|discriminate].
      destruct (rem - val_reward fm total v <? 0); [discriminate|].
      apply IH in H. apply (alloc_validator_books _ _ _ _ k) in E. destruct H as [H1 H2]. destruct E as [E1 E2].
      destruct (v_op v =? k); split; lia.
    + apply IH in H. destruct H as [H1 H2]. split; lia.
Qed.

Lemma alloc_tokens_books tax total vals s s' k : total <> 0 -> alloc_tokens tax total vals s = Ok s' ->
  bal (s_outstanding s') k = bal (s_outstanding s) k + portion_of (fee_mult_of tax s) total vals k /\
  bal (s_commission s') k = bal (s_commission s) k + commission_of (fee_mult_of tax s) total vals k.
Proof.
  intros Ht. unfold alloc_tokens, alloc_tokens_with. apply Z.eqb_neq in Ht. rewrite Ht.
  destruct (alloc_vals_with alloc_validator (dec_mul_trunc (dec_of_int (s_fc s)) (P - tax)) total vals (dec_of_int (s_fc s)) (books_of s))
    as [[rem b]|] eqn:E; [|discriminate].
  intros H; inversion H; subst; simpl. apply (alloc_vals_books _ _ _ k) in E. exact E.
Qed.

(* the closed form and its distance from the exact proportional share *)
Lemma val_reward_bounds fm total v : 0 <= fm -> 0 < total -> 0 <= v_power v ->
  0 <= val_reward fm total v /\
  val_reward fm total v * total <= fm * v_power v /\
  fm * v_power v * P < (val_reward fm total v * P + fm + P) * total.
Proof.
  intros Hf Ht Hp. pose proof P_pos as HP. unfold val_reward, dec_of_int.
  pose proof (share_le fm (v_power v * P) (total * P) Hf ltac:(nia) ltac:(nia)) as [H0 H1].
  pose proof (share_ge fm (v_power v * P) (total * P) Hf ltac:(nia) ltac:(nia)) as H2.
  set (x := dec_mul_trunc fm (dec_quo_trunc (v_power v * P) (total * P))) in *.
  split; [exact H0|]. split.
  - assert (x * total * P <= fm * v_power v * P) by nia. nia.
  - assert (H3 : (fm * v_power v * P) * P < ((x * P + fm + P) * total) * P) by lia.
    apply Z.mul_lt_mono_pos_r in H3; [exact H3|exact HP].
Qed.

(* ------------------------------------------------------------------------------------------ *)
(* 6. the behaviour before the repair does not conserve and can panic                           *)

Definition legacy_witness_cfg : cfg := mkCfg "minute" 0 "day" 20.
Definition legacy_witness_state : state := mkSt 1000000 1000 0 0 0 [] [] [].
(* one validator, commission 0, one staker reached once *)
Definition legacy_witness_vals1 : list vin := [mkVin true 0 1 0 [(7, 500 * P)]].
(* one validator, commission 0, staker 7 reached through a not-yet-active AVS (value 0) and through the chain's own AVS *)
Definition legacy_witness_vals2 : list vin := [mkVin true 0 1 0 [(7, 0); (7, 500 * P)]].

Lemma mint_hook_ledgers c id s s' : mint_hook c id s = Ok s' ->
  s_commission s' = s_commission s /\ s_outstanding s' = s_outstanding s /\ s_rewards s' = s_rewards s /\ s_comm s' = s_comm s.
Proof.
  unfold mint_hook. destruct (String.eqb id (c_mint_id c)).
  - destruct (c_reward c =? 0); [intros H; inversion H; subst; repeat split|].
    destruct (c_reward c <? 0); [discriminate|]. intros H; inversion H; subst; repeat split.
  - intros H; inversion H; subst; repeat split.
Qed.

Lemma epoch_end_books c id total vals s s' k :
  String.eqb id (c_dist_id c) = true -> total <> 0 -> epoch_end c id total vals s = Ok s' ->
  bal (s_outstanding s') k = bal (s_outstanding s) k + portion_of (fee_mult_of (c_tax c) s) total vals k /\
  bal (s_commission s') k = bal (s_commission s) k + commission_of (fee_mult_of (c_tax c) s) total vals k.
Proof.
  intros Hid Ht. unfold epoch_end, epoch_end_with, dist_hook, dist_hook_with. rewrite Hid.
  destruct (alloc_tokens (c_tax c) total vals s) as [s1|] eqn:E; [|discriminate].
  intros H. apply mint_hook_ledgers in H. destruct H as (H1 & H2 & H3 & H4).
  apply (alloc_tokens_books _ _ _ _ _ k Ht) in E. rewrite H1, H2. exact E.
Qed.

(* an epoch end that is not a distribution epoch end books nothing *)
Lemma epoch_end_no_dist c id total vals s s' :
  String.eqb id (c_dist_id c) = false -> epoch_end c id total vals s = Ok s' ->
  s_commission s' = s_commission s /\ s_outstanding s' = s_outstanding s /\ s_rewards s' = s_rewards s /\ s_comm s' = s_comm s.
Proof.
  intros Hid. unfold epoch_end, epoch_end_with, dist_hook, dist_hook_with. rewrite Hid. apply mint_hook_ledgers.
Qed.

(* ------------------------------------------------------------------------------------------ *)
(* 7. the monitor's tolerance predicates accept what the model books                            *)

Lemma portion_ok_model fm total v : 0 <= fm -> 0 < total -> 0 <= v_power v ->
  portion_ok fm total (v_power v) (val_reward fm total v) = true.
Proof.
  intros Hf Ht Hp. pose proof P_pos as HP.
  pose proof (val_reward_bounds fm total v Hf Ht Hp) as (H0 & H1 & H2).
  set (r := val_reward fm total v) in *. unfold portion_ok.
  pose proof (Z.div_mod fm P ltac:(lia)) as E. pose proof (Z.mod_pos_bound fm P HP) as B.
  set (q := fm / P) in *.
  assert (H3 : (r * P + fm + P) * total <= (P * (r + q + 2)) * total) by (apply Z.mul_le_mono_nonneg_r; lia).
  assert (H4 : (fm * v_power v) * P < ((r + q + 2) * total) * P) by lia.
  apply Z.mul_lt_mono_pos_r in H4; [|exact HP].
  apply andb_true_intro; split; [apply andb_true_intro; split|].
  - apply Z.leb_le; lia.
  - apply Z.leb_le; lia.
  - apply Z.ltb_lt; lia.
Qed.

Lemma commission_ok_model tokens rate : 0 <= tokens -> 0 <= rate -> rate <= P ->
  commission_ok tokens rate (dec_mul tokens rate) = true.
Proof.
  intros Ht H0 H1. pose proof (commission_bounds tokens rate Ht H0 H1) as [Ha Hb].
  pose proof (commission_close tokens rate Ht H0) as Hc. unfold commission_ok.
  apply andb_true_intro; split; [apply andb_true_intro; split|]; apply Z.leb_le; lia.
Qed.

(* the fee multiplier the monitor computes is the one the code computes *)
Lemma fee_mult_closed_form fc tax : 0 <= fc -> tax <= P ->
  dec_mul_trunc (dec_of_int fc) (P - tax) = fc * P * (P - tax) / P.
Proof.
  intros Hf Ht. pose proof P_pos. unfold dec_mul_trunc, chop_trunc, dec_of_int. apply quot_nonneg_div; nia.
Qed.

(* ------------------------------------------------------------------------------------------ *)
(* 8. no claim ever shrinks; the community tax is collected                                     *)

Definition ledger_le (l l' : ledger) : Prop := (forall k, bal l k <= bal l' k) /\ ltotal l <= ltotal l'.

Lemma ledger_le_refl l : ledger_le l l.
Proof. split; [intros k|]; lia. Qed.

Lemma ledger_le_trans l1 l2 l3 : ledger_le l1 l2 -> ledger_le l2 l3 -> ledger_le l1 l3.
Proof. intros [H1 T1] [H2 T2]. split; [intros k; specialize (H1 k); specialize (H2 k)|]; lia. Qed.

Lemma ledger_le_cons l k v : 0 <= v -> ledger_le l ((k, v) :: l).
Proof. intros Hv. split; [intros k'; rewrite bal_cons; destruct (k =? k')|rewrite ltotal_cons]; lia. Qed.

Lemma pay_stakers_mono reward total ps : 0 <= reward -> 0 < total -> forallb app_ok ps = true ->
  forall rem led rem' led', 0 <= rem -> pay_stakers reward total ps rem led = Ok (rem', led') ->
  0 <= rem' /\ ledger_le led led'.
Proof.
  intros Hr Ht. induction ps as [|[s p] r IH]; intros Hok rem led rem' led' Hrem H; simpl in H.
  - inversion H; subst. split; [exact Hrem|apply ledger_le_refl].
  - simpl in Hok. apply andb_prop in Hok. destruct Hok as [Hp Hok]. unfold app_ok in Hp; simpl in Hp. apply Z.leb_le in Hp.
    pose proof (share_le reward p total Hr Hp Ht) as [Hs0 _].
    destruct (rem - dec_mul_trunc reward (dec_quo_trunc p total) <? 0) eqn:E; [discriminate|]. apply Z.ltb_ge in E.
    apply IH in H; [|exact Hok|exact E]. destruct H as [H1 H2]. split; [exact H1|].
    eapply ledger_le_trans; [apply (ledger_le_cons led s _ Hs0)|exact H2].
Qed.

Lemma alloc_stakers_mono shared apps comm led comm' led' : 0 <= shared -> forallb app_ok apps = true ->
  alloc_stakers shared apps comm led = Ok (comm', led') -> comm <= comm' /\ ledger_le led led'.
Proof.
  intros Hs Hok. unfold alloc_stakers. destruct (0 <? apps_total apps) eqn:E.
  - apply Z.ltb_lt in E. pose proof (staker_powers_facts apps Hok) as [_ H2].
    destruct (pay_stakers shared (apps_total apps) (staker_powers apps) shared led) as [[rem l]|] eqn:Ep; [|discriminate].
    intros H; inversion H; subst.
    apply pay_stakers_mono in Ep; try assumption. destruct Ep as [H3 H4]. split; [lia|exact H4].
  - intros H; inversion H; subst. split; [lia|apply ledger_le_refl].
Qed.

Record books_le (b b' : books) : Prop := mkBooksLe {
  bl_comm : b_comm b <= b_comm b';
  bl_commission : ledger_le (b_commission b) (b_commission b');
  bl_outstanding : ledger_le (b_outstanding b) (b_outstanding b');
  bl_rewards : ledger_le (b_rewards b) (b_rewards b') }.

Lemma books_le_refl b : books_le b b.
Proof. constructor; try apply ledger_le_refl. lia. Qed.

Lemma books_le_trans b1 b2 b3 : books_le b1 b2 -> books_le b2 b3 -> books_le b1 b3.
Proof.
  intros [A1 A2 A3 A4] [B1 B2 B3 B4]. constructor; [lia| | |]; eapply ledger_le_trans; eassumption.
Qed.

Lemma vin_ok_parts v : vin_ok v = true ->
  0 <= v_power v /\ 0 <= v_rate v /\ v_rate v <= P /\ forallb app_ok (v_apps v) = true.
Proof.
  unfold vin_ok. intros Hv. apply andb_prop in Hv. destruct Hv as [Hv Happs]. apply andb_prop in Hv. destruct Hv as [Hv Hr1].
  apply andb_prop in Hv. destruct Hv as [Hp Hr0]. apply Z.leb_le in Hp. apply Z.leb_le in Hr0. apply Z.leb_le in Hr1. tauto.
Qed.

Lemma alloc_validator_mono v tokens b b' : 0 <= tokens -> vin_ok v = true ->
  alloc_validator v tokens b = Ok b' -> books_le b b'.
Proof.
  intros Ht Hv. apply vin_ok_parts in Hv. destruct Hv as (Hp & Hr0 & Hr1 & Happs).
  pose proof (commission_bounds tokens (v_rate v) Ht Hr0 Hr1) as [Hc0 Hc1].
  unfold alloc_validator, alloc_validator_with.
  destruct (tokens - dec_mul tokens (v_rate v) <? 0); [discriminate|].
  destruct (alloc_stakers (tokens - dec_mul tokens (v_rate v)) (v_apps v) (b_comm b) (b_rewards b)) as [[c' r']|] eqn:E; [|discriminate].
  intros H; inversion H; subst. apply alloc_stakers_mono in E; [|lia|exact Happs]. destruct E as [E1 E2].
  constructor; simpl; [exact E1|apply ledger_le_cons; exact Hc0|apply ledger_le_cons; exact Ht|exact E2].
Qed.

Lemma val_reward_nonneg fm total v : 0 <= fm -> 0 < total -> 0 <= v_power v -> 0 <= val_reward fm total v.
Proof. intros. apply val_reward_bounds; assumption. Qed.

Lemma alloc_vals_mono fm total vals : 0 <= fm -> 0 < total -> forallb vin_ok vals = true ->
  forall rem b rem' b', alloc_vals_with alloc_validator fm total vals rem b = Ok (rem', b') ->
  books_le b b' /\ rem' <= rem /\ (0 <= rem -> 0 <= rem').
Proof.
  intros Hf Ht. induction vals as [|v r IH]; intros Hok rem b rem' b' H; simpl in H.
  - inversion H; subst. split; [apply books_le_refl|lia].
  - simpl in Hok. apply andb_prop in Hok. destruct Hok as [Hv Hok].
    destruct (negb (v_found v)); [apply IH; assumption|].
    pose proof (vin_ok_parts v Hv) as (Hp & _).
    pose proof (val_reward_nonneg fm total v Hf Ht Hp) as Hr.
    destruct (alloc_validator v (val_reward fm total v) b) as [b1|] eqn:E; [|discriminate].
    destruct (rem - val_reward fm total v <? 0) eqn:E2; [discriminate|]. apply Z.ltb_ge in E2.
    apply IH in H; [|exact Hok]. destruct H as (H1 & H2 & H3).
    apply alloc_validator_mono in E; try assumption.
    split; [eapply books_le_trans; eassumption|]. split; [lia|]. intros _. apply H3. exact E2.
Qed.

Definition state_le (s s' : state) : Prop := books_le (books_of s) (books_of s').

Lemma alloc_tokens_mono tax total vals s s' : 0 <= s_fc s -> 0 <= tax -> tax <= P -> 0 <= total ->
  forallb vin_ok vals = true -> found_power vals <= total -> alloc_tokens tax total vals s = Ok s' ->
  state_le s s' /\
  (* the community pool receives at least the tax part of the fees *)
  s_comm s + (dec_of_int (s_fc s) - dec_mul_trunc (dec_of_int (s_fc s)) (P - tax)) <= s_comm s'.
Proof.
  intros Hfc Ht0 Ht1 Htot Hok Hpw. pose proof P_pos as HP. unfold alloc_tokens, alloc_tokens_with, state_le.
  set (fees := dec_of_int (s_fc s)). assert (Hfees : 0 <= fees) by (unfold fees, dec_of_int; nia).
  pose proof (dec_mul_trunc_nonneg fees (P - tax) Hfees ltac:(lia)) as Hm0.
  pose proof (dec_mul_trunc_le fees (P - tax) Hfees ltac:(lia) ltac:(lia)) as Hm1.
  set (fm := dec_mul_trunc fees (P - tax)) in *.
  destruct (total =? 0) eqn:E0.
  - intros H; inversion H; subst; simpl. split; [|lia].
    constructor; simpl; try apply ledger_le_refl. lia.
  - apply Z.eqb_neq in E0.
    destruct (alloc_vals_with alloc_validator fm total vals fees (books_of s)) as [[rem b]|] eqn:E; [|discriminate].
    intros H; inversion H; subst; simpl.
    pose proof (alloc_vals_mono fm total vals Hm0 ltac:(lia) Hok _ _ _ _ E) as (H1 & H2 & H3).
    destruct H1 as [A1 A2 A3 A4]. unfold books_of in A1, A2, A3, A4. cbn [b_comm b_commission b_outstanding b_rewards] in A1, A2, A3, A4.
    assert (Hfloor : fees - fm <= rem).
    { destruct (alloc_vals_ok fm total vals Hm0 ltac:(lia) Hok (fees - fm) fees (books_of s)) as (rem2 & b2 & Hq & Hge).
      - lia.
      - pose proof (found_power_nonneg vals Hok). nia.
      - rewrite Hq in E. inversion E; subst. exact Hge. }
    split; [|lia].
    constructor; simpl; try assumption. lia.
Qed.

Lemma mint_hook_books c id s s' : mint_hook c id s = Ok s' -> books_of s' = books_of s.
Proof.
  intros H. apply mint_hook_ledgers in H. destruct H as (H1 & H2 & H3 & H4). unfold books_of. rewrite H1, H2, H3, H4. reflexivity.
Qed.

Lemma epoch_end_mono c id total vals s s' : state_ok s = true -> inputs_ok c total vals = true ->
  epoch_end c id total vals s = Ok s' ->
  state_le s s' /\
  (String.eqb id (c_dist_id c) = true ->
   s_comm s + (dec_of_int (s_fc s) - dec_mul_trunc (dec_of_int (s_fc s)) (P - c_tax c)) <= s_comm s').
Proof.
  unfold state_ok, inputs_ok. intros Hs Hi. apply Z.leb_le in Hs.
  repeat (apply andb_prop in Hi; destruct Hi as [Hi ?]).
  repeat match goal with Hx : (_ <=? _) = true |- _ => apply Z.leb_le in Hx end.
  unfold epoch_end, epoch_end_with, dist_hook, dist_hook_with.
  destruct (String.eqb id (c_dist_id c)).
  - destruct (alloc_tokens (c_tax c) total vals s) as [s1|] eqn:E; [|discriminate].
    intros Hm. apply mint_hook_books in Hm.
    apply alloc_tokens_mono in E; try assumption. destruct E as [E1 E2].
    unfold state_le in *. rewrite Hm. split; [exact E1|]. intros _.
    assert (s_comm s' = s_comm s1) by (unfold books_of in Hm; inversion Hm; reflexivity). lia.
  - intros Hm. apply mint_hook_books in Hm. unfold state_le. rewrite Hm. split; [apply books_le_refl|discriminate].
Qed.

Lemma run_mono ops : forall s s', state_ok s = true -> forallb op_ok ops = true -> run ops s = Ok s' -> state_le s s'.
Proof.
  induction ops as [|o r IH]; intros s s' Hs Hops H; simpl in H.
  - inversion H; subst. apply books_le_refl.
  - simpl in Hops. apply andb_prop in Hops. destruct Hops as [Ho Hr].
    destruct (step s o) as [s1|] eqn:E; [|discriminate].
    assert (Hstep : state_le s s1 /\ state_ok s1 = true).
    { destruct o as [c id total vals|a|a]; simpl in *.
      - destruct (epoch_end_ok c id total vals s Hs Ho) as (s2 & H2 & Hs2). rewrite H2 in E. inversion E; subst.
        split; [|exact Hs2]. apply (epoch_end_mono c id total vals s s1 Hs Ho H2).
      - inversion E; subst. split; [apply books_le_refl|].
        unfold state_ok in *; simpl. apply Z.leb_le in Hs. apply Z.leb_le in Ho. apply Z.leb_le. lia.
      - inversion E; subst. split; [apply books_le_refl|]. unfold state_ok in *; simpl. exact Hs. }
    destruct Hstep as [H1 Hs1]. eapply books_le_trans; [exact H1|]. apply (IH s1 s' Hs1 Hr H).
Qed.

(* ------------------------------------------------------------------------------------------ *)
(* 9. the monitor's statement, evaluated on the model's own before/after states, is true        *)

(* what the harness would observe of a model state, for the operator keys [ko] and staker keys [ks] it knows *)
Definition obs_of (ko ks : list Z) (s : state) : obs :=
  mkObs (s_supply s) (s_fc s) (s_mint s) (s_dist s) (s_comm s)
        (map (fun k => (k, bal (s_commission s) k)) ko)
        (map (fun k => (k, bal (s_outstanding s) k)) ko)
        (map (fun k => (k, bal (s_rewards s) k)) ks)
        (ltotal (s_commission s)) (ltotal (s_rewards s)) (ltotal (s_outstanding s)).

Lemma bal_keyed_notin (f : Z -> Z) ks k : ~ In k ks -> bal (map (fun k0 => (k0, f k0)) ks) k = 0.
Proof.
  induction ks as [|a r IH]; intros Hn; simpl; [reflexivity|].
  rewrite bal_cons. destruct (Z.eqb_spec a k) as [E|E]; [exfalso; apply Hn; left; exact E|].
  rewrite IH; [lia|]. intros Hin. apply Hn. right. exact Hin.
Qed.

Lemma bal_keyed_in (f : Z -> Z) ks k : NoDup ks -> In k ks -> bal (map (fun k0 => (k0, f k0)) ks) k = f k.
Proof.
  induction ks as [|a r IH]; intros Hnd Hin; [destruct Hin|]. simpl. rewrite bal_cons.
  inversion Hnd as [|x l Hna Hnd']; subst.
  destruct (Z.eqb_spec a k) as [E|E].
  - subst a. rewrite bal_keyed_notin by exact Hna. lia.
  - destruct Hin as [Hin|Hin]; [contradiction|]. rewrite IH by assumption. lia.
Qed.

Lemma keyed_mono (f g : Z -> Z) ks : NoDup ks -> (forall k, f k <= g k) ->
  forallb (fun kv => bal (map (fun k0 => (k0, f k0)) ks) (fst kv) <=? snd kv) (map (fun k0 => (k0, g k0)) ks) = true.
Proof.
  intros Hnd Hfg. apply forallb_forall. intros [k v] Hin. apply in_map_iff in Hin. destruct Hin as (k0 & E & Hin).
  inversion E; subst. simpl. rewrite bal_keyed_in by assumption. apply Z.leb_le. apply Hfg.
Qed.

(* sums over the validators of one operator *)
Lemma portion_of_filter fm total vals k :
  portion_of fm total vals k =
  zsum (map (val_reward fm total) (filter (fun v => v_found v && (v_op v =? k)) vals)).
Proof.
  unfold portion_of. induction vals as [|v r IH]; simpl; [reflexivity|].
  destruct (v_found v && (v_op v =? k)); simpl; rewrite IH; lia.
Qed.

Lemma commission_of_filter fm total vals k :
  commission_of fm total vals k =
  zsum (map (fun v => dec_mul (val_reward fm total v) (v_rate v)) (filter (fun v => v_found v && (v_op v =? k)) vals)).
Proof.
  unfold commission_of. induction vals as [|v r IH]; simpl; [reflexivity|].
  destruct (v_found v && (v_op v =? k)); simpl; rewrite IH; lia.
Qed.

(* every resolvable validator's operator is known to the observer, and no operator runs two validators *)
Definition ops_known (ko : list Z) (vals : list vin) : bool :=
  forallb (fun k => existsb (Z.eqb k) ko &&
                    (Nat.leb (List.length (filter (fun v => v_found v && (v_op v =? k)) vals)) 1)) (ops_of vals).

Lemma existsb_eqb_in k ko : existsb (Z.eqb k) ko = true -> In k ko.
Proof. intros H. apply existsb_exists in H. destruct H as (x & Hin & E). apply Z.eqb_eq in E. subst. exact Hin. Qed.

(* total of what the validator loop hands out is at most fee_mult (Sum of outstanding credits) *)
Lemma alloc_vals_outstanding fm total vals : 0 <= fm -> 0 < total -> forallb vin_ok vals = true ->
  forall rem b rem' b', alloc_vals_with alloc_validator fm total vals rem b = Ok (rem', b') ->
  ltotal (b_outstanding b') - ltotal (b_outstanding b) = rem - rem'.
Proof.
  intros Hf Ht. induction vals as [|v r IH]; intros Hok rem b rem' b' H; simpl in H.
  - inversion H; subst. lia.
  - simpl in Hok. apply andb_prop in Hok. destruct Hok as [Hv Hok].
    destruct (negb (v_found v)); [apply IH; assumption|].
    destruct (alloc_validator v (val_reward fm total v) b) as [b1|] eqn:E; [|discriminate].
    destruct (rem - val_reward fm total v <? 0); [discriminate|].
    apply IH in H; [|exact Hok].
    assert (ltotal (b_outstanding b1) = val_reward fm total v + ltotal (b_outstanding b)).
    { unfold alloc_validator, alloc_validator_with in E.
      destruct (val_reward fm total v - dec_mul (val_reward fm total v) (v_rate v) <? 0); [discriminate|].
      destruct (alloc_stakers _ _ _ _) as [[c' r']|]; [|discriminate]. inversion E; subst. simpl. apply ltotal_cons. }
    lia.
Qed.

Lemma epoch_end_outstanding_total c id total vals s s' : state_ok s = true -> inputs_ok c total vals = true ->
  String.eqb id (c_dist_id c) = true -> total <> 0 -> epoch_end c id total vals s = Ok s' ->
  ltotal (s_outstanding s') - ltotal (s_outstanding s) <= dec_mul_trunc (dec_of_int (s_fc s)) (P - c_tax c).
Proof.
  unfold state_ok, inputs_ok. intros Hs Hi Hid Htot. apply Z.leb_le in Hs.
  repeat (apply andb_prop in Hi; destruct Hi as [Hi ?]).
  repeat match goal with Hx : (_ <=? _) = true |- _ => apply Z.leb_le in Hx end.
  pose proof P_pos as HP.
  unfold epoch_end, epoch_end_with, dist_hook, dist_hook_with. rewrite Hid.
  destruct (alloc_tokens (c_tax c) total vals s) as [s1|] eqn:E; [|discriminate].
  intros Hm. apply mint_hook_ledgers in Hm. destruct Hm as (_ & Hm & _). rewrite Hm.
  unfold alloc_tokens, alloc_tokens_with in E. apply Z.eqb_neq in Htot. rewrite Htot in E.
  set (fees := dec_of_int (s_fc s)) in *. assert (Hfees : 0 <= fees) by (unfold fees, dec_of_int; nia).
  pose proof (dec_mul_trunc_nonneg fees (P - c_tax c) Hfees ltac:(lia)) as Hm0.
  pose proof (dec_mul_trunc_le fees (P - c_tax c) Hfees ltac:(lia) ltac:(lia)) as Hm1.
  set (fm := dec_mul_trunc fees (P - c_tax c)) in *.
  destruct (alloc_vals_with alloc_validator fm total vals fees (books_of s)) as [[rem b]|] eqn:Ev; [|discriminate].
  inversion E; subst; simpl.
  apply Z.eqb_neq in Htot.
  pose proof (alloc_vals_outstanding fm total vals Hm0 ltac:(lia) ltac:(assumption) _ _ _ _ Ev) as Ho. simpl in Ho.
  destruct (alloc_vals_ok fm total vals Hm0 ltac:(lia) ltac:(assumption) (fees - fm) fees (books_of s)) as (rem2 & b2 & Hq & Hge).
  - lia.
  - pose proof (found_power_nonneg vals ltac:(assumption)). nia.
  - rewrite Hq in Ev. inversion Ev; subst. lia.
Qed.

Theorem monitor_accepts_model_step c id total vals s s' ko ks :
  NoDup ko -> NoDup ks -> ops_known ko vals = true ->
  state_ok s = true -> inputs_ok c total vals = true -> booked s <= s_dist s * P ->
  epoch_end c id total vals s = Ok s' ->
  monitor_event (mkEv id (c_dist_id c) (c_tax c) (c_mint_id c) (c_reward c) total vals (obs_of ko ks s) (obs_of ko ks s') false) = true.
Proof.
  intros Hko Hks Hknown Hs Hi Hsolv H.
  pose proof (epoch_end_facts _ _ _ _ _ _ H) as (F1 & F2 & F3 & F4 & F5).
  pose proof (epoch_end_mono _ _ _ _ _ _ Hs Hi H) as [[M1 [M2 M2t] [M3 M3t] [M4 M4t]] Mtax].
  unfold books_of in M1, M2, M2t, M3, M3t, M4, M4t. cbn [b_comm b_commission b_outstanding b_rewards] in M1, M2, M2t, M3, M3t, M4, M4t.
  unfold moved_now, minted_now in *.
  unfold monitor_event.
  cbn [e_id e_dist_id e_tax e_mint_id e_reward e_total e_vals e_pre e_post e_panic].
  unfold obs_booked, obs_of.
  cbn [o_supply o_fc o_mint o_dist o_comm o_commission o_outstanding o_rewards o_tot_commission o_tot_rewards o_tot_outstanding].
  unfold booked in *.
  repeat (apply andb_true_intro; split).
  - reflexivity.
  - apply Z.eqb_eq. lia.
  - apply Z.eqb_eq. lia.
  - apply Z.eqb_eq. lia.
  - apply Z.eqb_eq. destruct (String.eqb id (c_dist_id c)); lia.
  - apply Z.eqb_eq. lia.
  - apply Z.leb_le. lia.
  - apply Z.leb_le. lia.
  - apply Z.leb_le. lia.
  - apply Z.leb_le. lia.
  - apply keyed_mono; assumption.
  - apply keyed_mono; assumption.
  - (* proportionality / frame *)
    destruct (String.eqb id (c_dist_id c)) eqn:Hid; cbn [andb].
    + destruct (total =? 0) eqn:Et; cbn [negb andb]; [reflexivity|].
      apply Z.eqb_neq in Et.
      pose proof Hi as Hi'. unfold inputs_ok in Hi'.
      repeat (apply andb_prop in Hi'; destruct Hi' as [Hi' ?]).
      repeat match goal with Hx : (_ <=? _) = true |- _ => pose proof (proj1 (Z.leb_le _ _) Hx); clear Hx end.
      assert (Ht0 : (0 <=? c_tax c) = true) by (apply Z.leb_le; lia).
      assert (Ht1 : (c_tax c <=? P) = true) by (apply Z.leb_le; lia).
      rewrite Ht0, Ht1. cbn [andb].
      assert (Hfc : 0 <= s_fc s) by (unfold state_ok in Hs; apply Z.leb_le in Hs; exact Hs).
      rewrite <- (fee_mult_closed_form (s_fc s) (c_tax c)) by lia.
      set (fm := dec_mul_trunc (dec_of_int (s_fc s)) (P - c_tax c)).
      assert (Hfm : 0 <= fm) by (apply dec_mul_trunc_nonneg; pose proof P_pos; unfold dec_of_int; nia).
      apply andb_true_intro; split.
      * apply Z.leb_le. apply (epoch_end_outstanding_total c id total vals s s' Hs Hi Hid Et H).
      * apply forallb_forall. intros k Hk.
        unfold ops_known in Hknown. rewrite forallb_forall in Hknown. specialize (Hknown k Hk).
        apply andb_prop in Hknown. destruct Hknown as [Hin Hlen]. apply existsb_eqb_in in Hin.
        pose proof (epoch_end_books c id total vals s s' k Hid Et H) as [B1 B2]. unfold fee_mult_of in B1, B2. fold fm in B1, B2.
        unfold known_delta. rewrite !bal_keyed_in by assumption.
        rewrite portion_of_filter in B1. rewrite commission_of_filter in B2.
        set (mine := filter (fun v => v_found v && (v_op v =? k)) vals) in *.
        assert (Hmine_ok : forallb vin_ok mine = true).
        { apply forallb_forall. intros v Hv. unfold mine in Hv. apply filter_In in Hv. destruct Hv as [Hv _].
          match goal with Hall : forallb vin_ok vals = true |- _ => rewrite forallb_forall in Hall; apply Hall; exact Hv end. }
        destruct mine as [|v [|v2 r]] eqn:Em.
        -- (* k is an operator of some found validator, so [mine] is not empty *)
           exfalso. unfold ops_of in Hk. apply nodup_In in Hk. apply in_map_iff in Hk. destruct Hk as (v & Ev & Hv).
           apply filter_In in Hv. destruct Hv as [Hv Hf].
           assert (Hinm : In v (filter (fun v0 => v_found v0 && (v_op v0 =? k)) vals)).
           { apply filter_In. split; [exact Hv|]. rewrite Hf. subst k. rewrite Z.eqb_refl. reflexivity. }
           fold mine in Hinm. rewrite Em in Hinm. destruct Hinm.
        -- unfold zsum in B1, B2. cbn [map fold_right] in B1, B2. simpl in Hmine_ok. apply andb_prop in Hmine_ok. destruct Hmine_ok as [Hv _].
           pose proof (vin_ok_parts v Hv) as (Hp & Hr0 & Hr1 & _).
           replace (bal (s_outstanding s') k - bal (s_outstanding s) k) with (val_reward fm total v) by lia.
           replace (bal (s_commission s') k - bal (s_commission s) k) with (dec_mul (val_reward fm total v) (v_rate v)) by lia.
           unfold zsum. cbn [map fold_right]. replace (v_power v + 0) with (v_power v) by lia.
           rewrite portion_ok_model by (try assumption; lia).
           rewrite commission_ok_model; [reflexivity| |assumption|assumption].
           apply val_reward_nonneg; try assumption; lia.
        -- simpl in Hlen. discriminate.
    + pose proof (epoch_end_no_dist c id total vals s s' Hid H) as (N1 & N2 & N3 & N4).
      rewrite N1, N2, N3, N4. rewrite !Z.eqb_refl. reflexivity.
Qed.

(* ------------------------------------------------------------------------------------------ *)
(* 10. the statements of Props.v                                                                 *)

Lemma C17_supply_proof : forall ops s s', run ops s = Ok s' ->
  s_supply s' = s_supply s + minted ops - burned ops /\ s_mint s' = s_mint s.
Proof. intros ops s s' H. apply run_facts in H. tauto. Qed.

Lemma C17_moved_proof : forall c id total vals s s', epoch_end c id total vals s = Ok s' ->
  let moved := if String.eqb id (c_dist_id c) then s_fc s else 0 in
  let minted_now := if String.eqb id (c_mint_id c) then c_reward c else 0 in
  s_dist s' = s_dist s + moved /\ s_fc s' = s_fc s - moved + minted_now /\ s_supply s' = s_supply s + minted_now.
Proof. intros c id total vals s s' H. apply epoch_end_facts in H. unfold moved_now, minted_now in H. cbv zeta. tauto. Qed.

Lemma C17_distr_before_mint_proof : forall c id total vals s s',
  String.eqb id (c_dist_id c) = true -> String.eqb id (c_mint_id c) = true ->
  epoch_end c id total vals s = Ok s' ->
  s_dist s' = s_dist s + s_fc s /\ s_fc s' = c_reward c.
Proof.
  intros c id total vals s s' Hd Hm H. apply epoch_end_facts in H. unfold moved_now, minted_now in H.
  rewrite Hd, Hm in H. split; lia.
Qed.

Lemma C17_booked_sum_proof : forall c id total vals s s', epoch_end c id total vals s = Ok s' ->
  booked s' - booked s = (s_dist s' - s_dist s) * P.
Proof. intros c id total vals s s' H. apply epoch_end_facts in H. lia. Qed.

Lemma C17_solvent_proof : forall ops s s', run ops s = Ok s' ->
  (booked s <= s_dist s * P -> booked s' <= s_dist s' * P) /\
  (booked s = s_dist s * P -> booked s' = s_dist s' * P).
Proof. intros ops s s' H. apply run_facts in H. split; lia. Qed.

Lemma C17_proportional_proof : forall c id total vals s s' k,
  String.eqb id (c_dist_id c) = true -> total <> 0 -> epoch_end c id total vals s = Ok s' ->
  let fm := dec_mul_trunc (dec_of_int (s_fc s)) (P - c_tax c) in
  bal (s_outstanding s') k = bal (s_outstanding s) k +
    zsum (map (fun v => if v_found v && (v_op v =? k) then val_reward fm total v else 0) vals) /\
  bal (s_commission s') k = bal (s_commission s) k +
    zsum (map (fun v => if v_found v && (v_op v =? k) then dec_mul (val_reward fm total v) (v_rate v) else 0) vals).
Proof. intros c id total vals s s' k Hid Ht H. exact (epoch_end_books c id total vals s s' k Hid Ht H). Qed.

Lemma C17_commission_bounds_proof : forall tokens rate, 0 <= tokens -> 0 <= rate -> rate <= P ->
  0 <= dec_mul tokens rate <= tokens /\ Z.abs (dec_mul tokens rate * P - tokens * rate) <= P.
Proof.
  intros tokens rate Ht H0 H1. pose proof (commission_bounds tokens rate Ht H0 H1).
  pose proof (commission_close tokens rate Ht H0). tauto.
Qed.

Lemma C17_monitor_accepts_model_proof : forall fc tax total v, 0 <= fc -> 0 <= tax -> tax <= P -> 0 < total -> vin_ok v = true ->
  let fm := fc * P * (P - tax) / P in
  let portion := val_reward (dec_mul_trunc (dec_of_int fc) (P - tax)) total v in
  portion_ok fm total (v_power v) portion = true /\ commission_ok portion (v_rate v) (dec_mul portion (v_rate v)) = true.
Proof.
  intros fc tax total v Hfc Ht0 Ht1 Htot Hv. cbv zeta. rewrite <- fee_mult_closed_form by lia.
  unfold vin_ok in Hv. apply andb_prop in Hv. destruct Hv as [Hv _]. apply andb_prop in Hv. destruct Hv as [Hv Hr1].
  apply andb_prop in Hv. destruct Hv as [Hp Hr0]. apply Z.leb_le in Hp. apply Z.leb_le in Hr0. apply Z.leb_le in Hr1.
  pose proof P_pos.
  assert (Hfm : 0 <= dec_mul_trunc (dec_of_int fc) (P - tax)) by (apply dec_mul_trunc_nonneg; unfold dec_of_int; nia).
  split; [apply portion_ok_model; assumption|].
  apply commission_ok_model; try assumption.
  apply (val_reward_bounds _ total v Hfm Htot Hp).
Qed.

Lemma C17_claims_monotone_proof : forall ops s s', state_ok s = true -> forallb op_ok ops = true -> run ops s = Ok s' ->
  s_comm s <= s_comm s' /\
  forall k, bal (s_commission s) k <= bal (s_commission s') k /\
            bal (s_outstanding s) k <= bal (s_outstanding s') k /\
            bal (s_rewards s) k <= bal (s_rewards s') k.
Proof.
  intros ops s s' Hs Hops H. destruct (run_mono ops s s' Hs Hops H) as [A1 A2 A3 A4]. simpl in *.
  split; [exact A1|]. intros k. split; [apply (proj1 A2)|]. split; [apply (proj1 A3)|apply (proj1 A4)].
Qed.

Lemma C17_tax_collected_proof : forall c id total vals s s', state_ok s = true -> inputs_ok c total vals = true ->
  String.eqb id (c_dist_id c) = true -> epoch_end c id total vals s = Ok s' ->
  s_comm s + (dec_of_int (s_fc s) - dec_mul_trunc (dec_of_int (s_fc s)) (P - c_tax c)) <= s_comm s'.
Proof. intros c id total vals s s' Hs Hi Hid H. exact (proj2 (epoch_end_mono c id total vals s s' Hs Hi H) Hid). Qed.

Lemma C17_frame_proof : forall c id total vals s s',
  String.eqb id (c_dist_id c) = false -> epoch_end c id total vals s = Ok s' ->
  s_commission s' = s_commission s /\ s_outstanding s' = s_outstanding s /\ s_rewards s' = s_rewards s /\
  s_comm s' = s_comm s /\ s_dist s' = s_dist s.
Proof.
  intros c id total vals s s' Hid H. pose proof (epoch_end_no_dist c id total vals s s' Hid H).
  apply epoch_end_facts in H. unfold moved_now in H. rewrite Hid in H. intuition lia.
Qed.

Lemma C17_legacy_booked_sum_refuted_proof : exists c id total vals s s',
  inputs_ok c total vals = true /\ state_ok s = true /\
  epoch_end_legacy c id total vals s = Ok s' /\ booked s' - booked s > (s_dist s' - s_dist s) * P /\
  booked s' > s_dist s' * P.
Proof.
  exists legacy_witness_cfg, "minute"%string, 1, legacy_witness_vals1, legacy_witness_state.
  eexists. split; [reflexivity|]. split; [reflexivity|]. split; [vm_compute; reflexivity|]. split; vm_compute; reflexivity.
Qed.

Lemma C17_legacy_no_panic_refuted_proof : exists c id total vals s,
  inputs_ok c total vals = true /\ state_ok s = true /\ epoch_end_legacy c id total vals s = Panic.
Proof.
  exists legacy_witness_cfg, "minute"%string, 1, legacy_witness_vals2, legacy_witness_state.
  split; [reflexivity|]. split; [reflexivity|]. vm_compute. reflexivity.
Qed.

(* ------------------------------------------------------------------------------------------ *)
(* 11. parameter updates never leave an identifier in force that names no epoch                  *)

Lemma mint_update_keeps_known vb auth known prev req :
  known_id known (fst prev) = true -> known_id known (fst (snd (mint_update vb auth known prev req))) = true.
Proof.
  intros Hk. unfold mint_update.
  destruct (vb && ((snd req <? 0) || blank (fst req))); [exact Hk|].
  destruct (negb auth); [exact Hk|]. cbn [snd fst].
  destruct (known_id known (if blank (fst req) then fst prev else fst req)) eqn:E; [exact E|exact Hk].
Qed.

Lemma mint_update_reward_nonneg vb auth known prev req :
  0 <= snd prev -> 0 <= snd (snd (mint_update vb auth known prev req)).
Proof.
  intros Hp. unfold mint_update.
  destruct (vb && ((snd req <? 0) || blank (fst req))); [exact Hp|].
  destruct (negb auth); [exact Hp|]. cbn [snd fst].
  destruct (snd req <? 0) eqn:E; [exact Hp|apply Z.ltb_ge in E; exact E].
Qed.

Lemma dist_update_keeps_known auth known prev req :
  known_id known (fst prev) = true -> known_id known (fst (snd (dist_update auth known prev req))) = true.
Proof.
  intros Hk. unfold dist_update. destruct (negb auth); [exact Hk|].
  destruct (known_id known (fst req)) eqn:E; [exact E|exact Hk].
Qed.

(* a request: (through ValidateBasic?, authority ok?, (identifier, reward)) *)
Definition mint_updates (known : list string) (prev : string * Z) (reqs : list (bool * bool * (string * Z))) : string * Z :=
  fold_left (fun p r => snd (mint_update (fst (fst r)) (snd (fst r)) known p (snd r))) reqs prev.

Lemma mint_updates_keep known reqs : forall prev,
  known_id known (fst prev) = true -> 0 <= snd prev ->
  known_id known (fst (mint_updates known prev reqs)) = true /\ 0 <= snd (mint_updates known prev reqs).
Proof.
  unfold mint_updates. induction reqs as [|r rs IH]; intros prev Hk Hp; simpl; [split; assumption|].
  apply IH; [apply mint_update_keeps_known; exact Hk|apply mint_update_reward_nonneg; exact Hp].
Qed.

Lemma C17_configured_reward_minted_proof : forall known reqs prev c id total vals s s',
  known_id known (fst prev) = true -> 0 <= snd prev ->
  c_mint_id c = fst (mint_updates known prev reqs) -> c_reward c = snd (mint_updates known prev reqs) ->
  id = fst (mint_updates known prev reqs) ->
  epoch_end c id total vals s = Ok s' ->
  known_id known id = true /\ s_supply s' = s_supply s + snd (mint_updates known prev reqs).
Proof.
  intros known reqs prev c id total vals s s' Hk Hp Hid Hrew Heq H.
  pose proof (mint_updates_keep known reqs prev Hk Hp) as [K1 K2].
  apply epoch_end_facts in H. destruct H as (H1 & _). unfold minted_now in H1.
  rewrite Hid, Heq, String.eqb_refl, Hrew in H1. split; [rewrite Heq; exact K1|exact H1].
Qed.

(* the update clause of the monitor is true of the update rules *)
Lemma monitor_upd_accepts_model_proof : forall k vb auth known prev req,
  (k = UMint \/ k = UDist) ->
  let u0 := mkUpd k vb auth known prev req false prev in
  monitor_upd (mkUpd k vb auth known prev req (fst (upd_spec u0 prev)) (snd (upd_spec u0 prev))) = true /\
  check_upd (mkUpd k vb auth known prev req (fst (upd_spec u0 prev)) (snd (upd_spec u0 prev))) = true.
Proof.
  intros k vb auth known prev req Hk. cbv zeta.
  assert (Hpe : forall a : string * Z, pair_eqb a a = true).
  { intros [a b]. unfold pair_eqb. simpl. rewrite String.eqb_refl, Z.eqb_refl. reflexivity. }
  destruct Hk as [-> | ->]; unfold monitor_upd, check_upd, upd_spec; cbn [u_kind u_vb u_auth u_known u_prev u_req u_err u_post].
  - split.
    + destruct (known_id known (fst prev)) eqn:E; [|reflexivity]. simpl. apply mint_update_keeps_known. exact E.
    + destruct (mint_update vb auth known prev req) as [e p]. cbn [fst snd]. rewrite Bool.eqb_reflx, Hpe. reflexivity.
  - split.
    + destruct (known_id known (fst prev)) eqn:E; [|reflexivity]. simpl. apply dist_update_keeps_known. exact E.
    + destruct (dist_update auth known prev req) as [e p]. cbn [fst snd]. rewrite Bool.eqb_reflx, Hpe. reflexivity.
Qed.
