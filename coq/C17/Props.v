(* C17/Props.v — property theorems only (proofs are in C17/Proofs.v). *)
From Coq Require Import List String Bool ZArith Lia.
From Exo Require Import Base.IntDec Base.Util C17.Model C17.Proofs.
Import ListNotations.
Local Open Scope Z_scope.

(* Over every history of epoch ends (arbitrary identifiers, params, validator lists, powers, rates, staker lists), fee
   payments and ordinary burns that does not panic: the supply moved by exactly the epoch reward of every epoch end whose
   identifier is the mint identifier — once each — minus the ordinary burns, and by nothing else: the restaking modules
   neither create nor destroy anything; the mint module keeps nothing. *)
Theorem C17_supply : forall ops s s', run ops s = Ok s' ->
  s_supply s' = s_supply s + minted ops - burned ops /\ s_mint s' = s_mint s.
Proof. exact C17_supply_proof. Qed.
Print Assumptions C17_supply.

(* At a distribution-epoch end the WHOLE fee-collector balance moves to the distribution account, otherwise nothing
   moves; the distribution hook runs before the mint hook, so the reward minted at this epoch end is not part of what
   moves: it is what the fee collector holds afterwards. *)
Theorem C17_moved : forall c id total vals s s', epoch_end c id total vals s = Ok s' ->
  let moved := if String.eqb id (c_dist_id c) then s_fc s else 0 in
  let minted_now := if String.eqb id (c_mint_id c) then c_reward c else 0 in
  s_dist s' = s_dist s + moved /\ s_fc s' = s_fc s - moved + minted_now /\ s_supply s' = s_supply s + minted_now.
Proof. exact C17_moved_proof. Qed.
Print Assumptions C17_moved.

Theorem C17_distr_before_mint : forall c id total vals s s',
  String.eqb id (c_dist_id c) = true -> String.eqb id (c_mint_id c) = true ->
  epoch_end c id total vals s = Ok s' ->
  s_dist s' = s_dist s + s_fc s /\ s_fc s' = c_reward c.
Proof. exact C17_distr_before_mint_proof. Qed.
Print Assumptions C17_distr_before_mint.

(* Community pool + all accumulated commissions + all staker rewards grow by exactly the amount moved (10^18 scaled):
   nothing is booked twice, nothing is left unbooked, truncation dust ends in the community pool.  No guard at all:
   it holds for every input on which the code does not panic. *)
Theorem C17_booked_sum : forall c id total vals s s', epoch_end c id total vals s = Ok s' ->
  booked s' - booked s = (s_dist s' - s_dist s) * P.
Proof. exact C17_booked_sum_proof. Qed.
Print Assumptions C17_booked_sum.

(* Solvency over all histories: the claims never exceed the distribution account (they stay exactly as far below it as
   they started, so booked = balance * 10^18 from genesis on). *)
Theorem C17_solvent : forall ops s s', run ops s = Ok s' ->
  (booked s <= s_dist s * P -> booked s' <= s_dist s' * P) /\
  (booked s = s_dist s * P -> booked s' = s_dist s' * P).
Proof. exact C17_solvent_proof. Qed.
Print Assumptions C17_solvent.

(* Non-negativity: under the guards (tax and commission rates in [0,1], powers / staker values / reward >= 0, the
   listed validators' power adds up to at most LastTotalPower) no DecCoins.Sub goes negative anywhere, over every history. *)
Theorem C17_no_panic : forall ops s, state_ok s = true -> forallb op_ok ops = true ->
  exists s', run ops s = Ok s' /\ state_ok s' = true.
Proof. exact run_ok. Qed.
Print Assumptions C17_no_panic.

(* Proportionality: at a distribution-epoch end with non-zero total power, operator k's outstanding rewards grow by
   the sum over its validators of  floor(floor(fees*(1-tax)) * floor(power/total))  and its accumulated commission by the
   banker-rounded rate share of each such portion. *)
Theorem C17_proportional : forall c id total vals s s' k,
  String.eqb id (c_dist_id c) = true -> total <> 0 -> epoch_end c id total vals s = Ok s' ->
  let fm := dec_mul_trunc (dec_of_int (s_fc s)) (P - c_tax c) in
  bal (s_outstanding s') k = bal (s_outstanding s) k +
    zsum (map (fun v => if v_found v && (v_op v =? k) then val_reward fm total v else 0) vals) /\
  bal (s_commission s') k = bal (s_commission s) k +
    zsum (map (fun v => if v_found v && (v_op v =? k) then dec_mul (val_reward fm total v) (v_rate v) else 0) vals).
Proof. exact C17_proportional_proof. Qed.
Print Assumptions C17_proportional.

(* ... where a portion never exceeds the exact proportional share fm*power/total and falls short of it by less than
   fm*10^-18 + 10^-18, and the commission is within [0, portion] and one 10^-18 unit of portion*rate. *)
Theorem C17_portion_bounds : forall fm total v, 0 <= fm -> 0 < total -> 0 <= v_power v ->
  0 <= val_reward fm total v /\
  val_reward fm total v * total <= fm * v_power v /\
  fm * v_power v * P < (val_reward fm total v * P + fm + P) * total.
Proof. exact val_reward_bounds. Qed.
Print Assumptions C17_portion_bounds.

Theorem C17_commission_bounds : forall tokens rate, 0 <= tokens -> 0 <= rate -> rate <= P ->
  0 <= dec_mul tokens rate <= tokens /\ Z.abs (dec_mul tokens rate * P - tokens * rate) <= P.
Proof. exact C17_commission_bounds_proof. Qed.
Print Assumptions C17_commission_bounds.

(* The tolerance predicates that the monitor evaluates on the implementation's observations (portion proportional to
   power up to truncation and never above the exact share; commission = portion*rate within one 10^-18 unit) hold of
   what the model books, so a monitor failure is never an artefact of the model's own rounding. *)
Theorem C17_monitor_accepts_model : forall fc tax total v, 0 <= fc -> 0 <= tax -> tax <= P -> 0 < total -> vin_ok v = true ->
  let fm := fc * P * (P - tax) / P in
  let portion := val_reward (dec_mul_trunc (dec_of_int fc) (P - tax)) total v in
  portion_ok fm total (v_power v) portion = true /\ commission_ok portion (v_rate v) (dec_mul portion (v_rate v)) = true.
Proof. exact C17_monitor_accepts_model_proof. Qed.
Print Assumptions C17_monitor_accepts_model.

(* Over every guarded history no claim ever shrinks: the community pool, every operator's accumulated commission and
   outstanding rewards and every staker's rewards only grow (all credits are non-negative). *)
Theorem C17_claims_monotone : forall ops s s', state_ok s = true -> forallb op_ok ops = true -> run ops s = Ok s' ->
  s_comm s <= s_comm s' /\
  forall k, bal (s_commission s) k <= bal (s_commission s') k /\
            bal (s_outstanding s) k <= bal (s_outstanding s') k /\
            bal (s_rewards s) k <= bal (s_rewards s') k.
Proof. exact C17_claims_monotone_proof. Qed.
Print Assumptions C17_claims_monotone.

(* The community tax is collected: at a distribution-epoch end the community pool grows by at least
   fees - floor(fees*(1-tax)) (it also receives all truncation dust and the share of unresolvable validators). *)
Theorem C17_tax_collected : forall c id total vals s s', state_ok s = true -> inputs_ok c total vals = true ->
  String.eqb id (c_dist_id c) = true -> epoch_end c id total vals s = Ok s' ->
  s_comm s + (dec_of_int (s_fc s) - dec_mul_trunc (dec_of_int (s_fc s)) (P - c_tax c)) <= s_comm s'.
Proof. exact C17_tax_collected_proof. Qed.
Print Assumptions C17_tax_collected.

(* The monitor IS the property: the boolean [monitor_event] that the check evaluates on the implementation's observations
   (supply, the three balances, fee pool, per-key and total commissions / outstanding / staker rewards before and after an
   epoch end) is true of every guarded step of the model, observed through any duplicate-free key lists that contain the
   operators of the resolvable validators (one validator per operator), from any solvent state. *)
Theorem C17_step_meets_statement : forall c id total vals s s' ko ks,
  NoDup ko -> NoDup ks -> ops_known ko vals = true ->
  state_ok s = true -> inputs_ok c total vals = true -> booked s <= s_dist s * P ->
  epoch_end c id total vals s = Ok s' ->
  monitor_event (mkEv id (c_dist_id c) (c_tax c) (c_mint_id c) (c_reward c) total vals
                      (obs_of ko ks s) (obs_of ko ks s') false) = true.
Proof. exact monitor_accepts_model_step. Qed.
Print Assumptions C17_step_meets_statement.

(* An epoch end of another identifier books nothing. *)
Theorem C17_frame : forall c id total vals s s',
  String.eqb id (c_dist_id c) = false -> epoch_end c id total vals s = Ok s' ->
  s_commission s' = s_commission s /\ s_outstanding s' = s_outstanding s /\ s_rewards s' = s_rewards s /\
  s_comm s' = s_comm s /\ s_dist s' = s_dist s.
Proof. exact C17_frame_proof. Qed.
Print Assumptions C17_frame.

(* Updates of the module params (exomint / feedistribution MsgUpdateParams, with or without ValidateBasic, right or wrong authority,
   ANY requested identifier and reward): the identifier left in force always names an epoch of the epochs store, and the
   reward stays non-negative — over every sequence of updates. *)
Theorem C17_update_keeps_epoch : forall known reqs prev,
  known_id known (fst prev) = true -> 0 <= snd prev ->
  known_id known (fst (mint_updates known prev reqs)) = true /\ 0 <= snd (mint_updates known prev reqs).
Proof. exact mint_updates_keep. Qed.
Print Assumptions C17_update_keeps_epoch.

Theorem C17_dist_update_keeps_epoch : forall auth known prev req,
  known_id known (fst prev) = true -> known_id known (fst (snd (dist_update auth known prev req))) = true.
Proof. exact dist_update_keeps_known. Qed.
Print Assumptions C17_dist_update_keeps_epoch.

(* ... so minting can not be switched off by an update: at the end of the epoch that any sequence of updates leaves
   configured (an epoch that exists), exactly the configured reward is minted. *)
Theorem C17_configured_reward_minted : forall known reqs prev c id total vals s s',
  known_id known (fst prev) = true -> 0 <= snd prev ->
  c_mint_id c = fst (mint_updates known prev reqs) -> c_reward c = snd (mint_updates known prev reqs) ->
  id = fst (mint_updates known prev reqs) ->
  epoch_end c id total vals s = Ok s' ->
  known_id known id = true /\ s_supply s' = s_supply s + snd (mint_updates known prev reqs).
Proof. exact C17_configured_reward_minted_proof. Qed.
Print Assumptions C17_configured_reward_minted.

(* the monitor's update clause and the correspondence check are true of the update rules of the model *)
Theorem C17_update_meets_statement : forall k vb auth known prev req,
  (k = UMint \/ k = UDist) ->
  let u0 := mkUpd k vb auth known prev req false prev in
  monitor_upd (mkUpd k vb auth known prev req (fst (upd_spec u0 prev)) (snd (upd_spec u0 prev))) = true /\
  check_upd (mkUpd k vb auth known prev req (fst (upd_spec u0 prev)) (snd (upd_spec u0 prev))) = true.
Proof. exact monitor_upd_accepts_model_proof. Qed.
Print Assumptions C17_update_meets_statement.

(* ---- the code BEFORE repo_patches/fix-c17-*.patch (kept in the model as [epoch_end_legacy]) ---- *)

(* booked claims exceed the amount moved as soon as one staker is paid *)
Theorem C17_legacy_booked_sum_refuted : exists c id total vals s s',
  inputs_ok c total vals = true /\ state_ok s = true /\
  epoch_end_legacy c id total vals s = Ok s' /\ booked s' - booked s > (s_dist s' - s_dist s) * P /\
  booked s' > s_dist s' * P.
Proof. exact C17_legacy_booked_sum_refuted_proof. Qed.
Print Assumptions C17_legacy_booked_sum_refuted.

(* and a staker reached through two AVSs makes remaining.Sub panic inside BeginBlock, with every guard satisfied *)
Theorem C17_legacy_no_panic_refuted : exists c id total vals s,
  inputs_ok c total vals = true /\ state_ok s = true /\ epoch_end_legacy c id total vals s = Panic.
Proof. exact C17_legacy_no_panic_refuted_proof. Qed.
Print Assumptions C17_legacy_no_panic_refuted.

(* ---- non-vacuity: the guards are satisfiable by a non-trivial history, which the repaired model runs to the end ---- *)
Definition ex_cfg : cfg := mkCfg "minute"%string (3 * 10 ^ 16) "minute"%string 20.
Definition ex_vals : list vin :=
  [ mkVin true 0 3 (5 * 10 ^ 17) [(7, 0); (7, 500 * P); (8, 1)];
    mkVin false 9 5 0 [];
    mkVin true 1 1 (10 ^ 17) [(1, 400 * P); (7, 3 * P); (1, 400 * P)] ].
Definition ex_ops : list op :=
  [ Income 1000003; EpochEnd ex_cfg "minute"%string 9 ex_vals; EpochEnd ex_cfg "day"%string 9 ex_vals;
    Income 999; Burn 5; EpochEnd ex_cfg "minute"%string 9 ex_vals ].
Definition ex_state : state := mkSt 5000000 0 0 0 0 [] [] [].

Example ex_guards : state_ok ex_state = true /\ forallb op_ok ex_ops = true /\ ops_known [0; 1; 9] ex_vals = true.
Proof. repeat split; reflexivity. Qed.

Example ex_runs : exists s', run ex_ops ex_state = Ok s' /\
  s_supply s' = 5000035 /\ s_dist s' = 1000003 + 999 + 20 /\ s_fc s' = 20 /\ booked s' = s_dist s' * P /\
  0 < bal (s_rewards s') 7 /\ 0 < bal (s_commission s') 0 /\ 0 < s_comm s'.
Proof. eexists. split; [vm_compute; reflexivity|]. vm_compute. repeat split; reflexivity. Qed.

(* the pre-repair model panics on the same first distribution (staker 7 is reached twice with different values) *)
Example ex_legacy_differs :
  epoch_end_legacy ex_cfg "minute"%string 9 ex_vals (mkSt 5000000 1000003 0 0 0 [] [] []) = Panic.
Proof. vm_compute. reflexivity. Qed.

(* white space around an identifier: well-formed for ValidateEpochIdentifierString, but names no epoch; the previous
   identifier stays in force and the new reward is taken *)
Example ex_update_whitespace :
  mint_update true true ["day"; "hour"; "minute"; "week"]%string ("minute"%string, 20) ("minute "%string, 30)
  = (false, ("minute"%string, 30)) /\
  dist_update true ["day"; "hour"; "minute"; "week"]%string ("minute"%string, 0) (" minute"%string, 5)
  = (true, ("minute"%string, 0)) /\
  mint_update true true ["day"; "minute"]%string ("minute"%string, 20) ("  "%string, 30) = (true, ("minute"%string, 20)) /\
  mint_update false true ["day"; "minute"]%string ("minute"%string, 20) ("day"%string, -1) = (false, ("day"%string, 20)).
Proof. repeat split; reflexivity. Qed.
