(* C12/NoGapMulti.v — round numbering for one feeder of a params set with ANY number of feeders (pairwise different
   ids), all histories of single-message transactions: the other feeders do not disturb it. Feeders that serve the SAME
   token are allowed as long as they are not responsible at the same time (co_ok): the ones that have ended are quiet
   (no round or a closed one), the ones that start after the horizon H have no round yet. *)
From Coq Require Import List String Bool ZArith Lia.
From Exo Require Import Base.Util Oracle.Model Oracle.Lemmas C12.Proofs C12.NoGap C12.Retention C13.Budget.
Import ListNotations.
Local Open Scope Z_scope.

Record mg_hyp (p : params) (f : feeder) : Prop := mkMGH {
  mh_in : In f (p_feeders p);
  mh_ids : NoDup (map f_id (p_feeders p));
  mh_mn : 1 <= p_max_nonce p;
  mh_int : 2 * p_max_nonce p <= f_interval f;
  mh_start : 1 <= f_start f;
  mh_end : f_end f <= 0 \/ (f_start f < f_end f /\ p_max_nonce p <= (f_end f - f_start f) mod f_interval f) }.

(* ---- lookups ---- *)
Lemma get_feeder_in p id g : get_feeder p id = Some g -> In g (p_feeders p) /\ f_id g = id.
Proof.
  unfold get_feeder. intro H. apply find_some in H. destruct H as [H1 H2]. apply Z.eqb_eq in H2. split; assumption.
Qed.

Lemma nodup_map_inj {A B} (h : A -> B) (l : list A) x y : NoDup (map h l) -> In x l -> In y l -> h x = h y -> x = y.
Proof.
  induction l as [|a r IH]; intros Hn Hx Hy E; [contradiction|]. simpl in Hn. inversion Hn as [|? ? Hnot Hn']; subst.
  destruct Hx as [Hx|Hx]; destruct Hy as [Hy|Hy]; subst.
  - reflexivity.
  - exfalso. apply Hnot. rewrite E. apply in_map. exact Hy.
  - exfalso. apply Hnot. rewrite <- E. apply in_map. exact Hx.
  - exact (IH Hn' Hx Hy E).
Qed.

Lemma get_feeder_f p f : mg_hyp p f -> get_feeder p (f_id f) = Some f.
Proof.
  intros [Hin Hids _ _ _ _]. unfold get_feeder.
  destruct (find (fun g => f_id g =? f_id f) (p_feeders p)) as [g|] eqn:Hf.
  - apply find_some in Hf. destruct Hf as [H1 H2]. apply Z.eqb_eq in H2. f_equal. exact (nodup_map_inj f_id _ g f Hids H1 Hin H2).
  - exfalso. pose proof (find_none _ _ Hf f Hin) as H. simpl in H. rewrite Z.eqb_refl in H. discriminate.
Qed.

(* feeders sharing f's token: ended and quiet, or not started before the horizon H and without a round *)
Definition co_ok (p : params) (f : feeder) (H b : Z) (m : mem) : Prop :=
  forall g, In g (p_feeders p) -> f_id g <> f_id f -> f_token g = f_token f ->
    (feeder_ended g b = true /\ match zget (m_rounds m) (f_id g) with None => True | Some r => r_status r = 2 end) \/
    (H < f_start g /\ zget (m_rounds m) (f_id g) = None).

Lemma other_feeder p f H b m id g r :
  co_ok p f H b m -> get_feeder p id = Some g -> id <> f_id f ->
  zget (m_rounds m) id = Some r -> r_status r = 1 -> f_token g <> f_token f.
Proof.
  intros Hco Hg Hne Hr Hst E. destruct (get_feeder_in _ _ _ Hg) as [Hin Hid]. subst id.
  destruct (Hco g Hin Hne E) as [[_ Hq]|[_ Hq]]; rewrite Hr in Hq; [lia | discriminate].
Qed.

(* the rounds of a memory after some steps: every entry is unchanged, or was there and is closed now *)
Definition rounds_step (R R' : list (Z * round)) : Prop :=
  forall k, zget R' k = zget R k \/ (exists r r', zget R k = Some r /\ zget R' k = Some r' /\ r_status r' = 2).

Lemma rounds_step_refl R : rounds_step R R. Proof. intro k. left. reflexivity. Qed.

Lemma rounds_step_trans A B C : rounds_step A B -> rounds_step B C -> rounds_step A C.
Proof.
  intros H1 H2 k. destruct (H2 k) as [E|[r [r' [E1 [E2 E3]]]]].
  - rewrite E. exact (H1 k).
  - destruct (H1 k) as [E0|[r0 [r0' [E4 [E5 E6]]]]].
    + right. exists r, r'. rewrite <- E0. repeat split; assumption.
    + right. exists r0, r'. repeat split; assumption.
Qed.

Lemma co_ok_rounds_step p f H b m m' :
  rounds_step (m_rounds m) (m_rounds m') -> co_ok p f H b m -> co_ok p f H b m'.
Proof.
  intros Hs Hco g Hin Hne Htok. destruct (Hco g Hin Hne Htok) as [[He Hq]|[Hh Hq]].
  - left. split; [exact He|]. destruct (Hs (f_id g)) as [E|[r [r' [E1 [E2 E3]]]]]; [rewrite E; exact Hq | rewrite E2; exact E3].
  - right. split; [exact Hh|]. destruct (Hs (f_id g)) as [E|[r [r' [E1 [E2 E3]]]]]; [rewrite E; exact Hq | rewrite Hq in E1; discriminate].
Qed.

Lemma create_price_rounds_step p now s m x s' m' res :
  create_price p now s m x = (s', m', res) -> rounds_step (m_rounds m) (m_rounds m').
Proof.
  intro H. destruct res; try (destruct (create_price_nonfinal _ _ _ _ _ _ _ _ H ltac:(discriminate)) as [_ E]; rewrite E; apply rounds_step_refl).
  destruct (create_price_final_shape _ _ _ _ _ _ _ H) as [price [r [f0 [Hr [_ [_ [Hm' _]]]]]]].
  intro k. rewrite Hm', zget_zset. destruct (k =? m_feeder x) eqn:E; [|left; reflexivity].
  apply Z.eqb_eq in E. subst k. right. eexists. eexists. split; [exact Hr|]. split; reflexivity.
Qed.

Lemma run_msgs_rounds_step p now : forall l s m so m', run_msgs p now s m l = (so, m') -> rounds_step (m_rounds m) (m_rounds m').
Proof.
  induction l as [|x r IH]; intros s m so m' H; simpl in H; [inversion H; apply rounds_step_refl|].
  destruct (create_price p now s m x) as [[s1 m1] res] eqn:Hc.
  pose proof (create_price_rounds_step _ _ _ _ _ _ _ _ Hc) as S1.
  destruct res; try (inversion H; subst; exact S1); exact (rounds_step_trans _ _ _ S1 (IH _ _ _ _ H)).
Qed.

Lemma deliver_tx_rounds_step p now st t st' a ok :
  deliver_tx p now st t = (st', a, ok) -> rounds_step (m_rounds (st_mem st)) (m_rounds (st_mem st')).
Proof.
  unfold deliver_tx. destruct (ante p (st_store st) t) as [s1|]; [|intro H; inversion H; apply rounds_step_refl].
  destruct (run_msgs p now s1 (st_mem st) (t_msgs t)) as [[s2|] m2] eqn:Hr; intro H; inversion H; subst; simpl;
    exact (run_msgs_rounds_step _ _ _ _ _ _ _ Hr).
Qed.

(* ---- stores: other tokens are not touched ---- *)
Lemma append_price_other p s tok x tok2 : tok2 <> tok -> get_tp (fst (append_price p s tok x)) tok2 = get_tp s tok2.
Proof.
  intro H. unfold append_price. destruct (negb (next_round_id (get_tp s tok) =? pt_round x)); simpl; [reflexivity|].
  apply get_tp_set_tp_other. exact H.
Qed.

Lemma grow_round_other p s tok tok2 : tok2 <> tok -> get_tp (grow_round p s tok) tok2 = get_tp s tok2.
Proof. intro H. unfold grow_round. destruct (latest_price (get_tp s tok)); apply append_price_other; exact H. Qed.

(* ---- the invariant, now with lookups instead of list shapes ---- *)
Definition mg_inv (p : params) (f : feeder) (b : Z) (st : state) : Prop :=
  let t := get_tp (st_store st) (f_token f) in
  let m := st_mem st in
  tp_wfi t /\ tp_nonneg t /\ inc_keys (m_rounds m) /\
  if b <? f_start f then zget (m_rounds m) (f_id f) = None /\ next_round_id t = f_start_round f
  else if feeder_ended f b then
    next_round_id t = f_start_round f + (f_end f - 1 - f_start f) / f_interval f + 1 /\
    (zget (m_rounds m) (f_id f) = None \/ exists r, zget (m_rounds m) (f_id f) = Some r /\ r_status r = 2)
  else
    exists status,
      zget (m_rounds m) (f_id f) = Some (mkRound (b - left_of f b) (round_id_at f b) status) /\
      (status = 1 \/ status = 2) /\
      next_round_id t = round_id_at f b + (if status =? 1 then 0 else 1) /\
      (status = 1 -> left_of f b < p_max_nonce p).

(* ---- a single-message transaction keeps the invariant ---- *)
Lemma mg_inv_same p f b st st' :
  s_prices (st_store st') = s_prices (st_store st) -> m_rounds (st_mem st') = m_rounds (st_mem st) ->
  mg_inv p f b st -> mg_inv p f b st'.
Proof. intros Hp Hr H. unfold mg_inv in *. unfold get_tp in *. rewrite Hp, Hr. exact H. Qed.

Lemma mg_tx_keeps_inv p f H0 b now st t x st' a ok :
  mg_hyp p f -> co_ok p f H0 b (st_mem st) -> mg_inv p f b st -> t_msgs t = [x] -> deliver_tx p now st t = (st', a, ok) -> mg_inv p f b st'.
Proof.
  intros Hh Hco Hinv Hx H. unfold deliver_tx in H.
  destruct (ante p (st_store st) t) as [s1|] eqn:Ha; [|inversion H; subst; exact Hinv].
  pose proof (ante_prices _ _ _ _ Ha) as Hp1. rewrite Hx in H. simpl in H.
  destruct (create_price p now s1 (st_mem st) x) as [[s' m'] res] eqn:Hc.
  assert (Hnf : res <> MsgFinal -> mg_inv p f b st').
  { intro Hne. destruct (create_price_nonfinal _ _ _ _ _ _ _ _ Hc Hne) as [Hs Hr]. subst s'.
    destruct res; try (exfalso; apply Hne; reflexivity); inversion H; subst st';
      apply (mg_inv_same p f b st); simpl; auto. }
  destruct res; try (apply Hnf; discriminate).
  inversion H; subst st'. clear H Hnf.
  destruct (create_price_final_shape _ _ _ _ _ _ _ Hc) as [price [r [f0 [Hr [Hst [Hf [Hm' Hs']]]]]]].
  destruct Hinv as [Hwf [Hnn [Hinc Hcase]]].
  assert (Hwf1 : tp_wfi (get_tp s1 (f_token f))) by (unfold get_tp in *; rewrite Hp1; exact Hwf).
  assert (Hnn1 : tp_nonneg (get_tp s1 (f_token f))) by (unfold get_tp in *; rewrite Hp1; exact Hnn).
  assert (Hgt : forall s2, s_prices s' = s_prices s2 -> get_tp s' (f_token f) = get_tp s2 (f_token f))
    by (intros s2 E; unfold get_tp; rewrite E; reflexivity).
  cbv zeta in Hs'.
  destruct (Z.eq_dec (m_feeder x) (f_id f)) as [Efid|Nfid].
  - (* the message completes OUR round *)
    rewrite Efid in *. rewrite (get_feeder_f _ _ Hh) in Hf. inversion Hf; subst f0.
    destruct (b <? f_start f) eqn:Eb.
    { destruct Hcase as [Hnil _]. rewrite Hnil in Hr. discriminate. }
    destruct (feeder_ended f b) eqn:Ee.
    { destruct Hcase as [_ [Hnil|[r2 [Hr2 Hs2]]]]; rewrite ?Hnil, ?Hr2 in Hr; [discriminate|]. inversion Hr; subst r2. lia. }
    destruct Hcase as [status [Hrounds [Hstat [Hnext Hleft]]]].
    rewrite Hrounds in Hr. inversion Hr; subst r. simpl in Hst. subst status. simpl in Hnext. rewrite Z.add_0_r in Hnext.
    simpl in Hs'.
    set (item := mkPtr (round_id_at f b) (Some price) match token_decimal p (f_token f) with Some d => d | None => 0 end (first_ts x)) in *.
    assert (Hitem : pt_round item = next_round_id (get_tp s1 (f_token f))).
    { unfold get_tp in *. rewrite Hp1. simpl. symmetry. exact Hnext. }
    destruct (append_price_next p s1 (f_token f) item Hnn1 Hitem) as [Hok [Hn2 [Hnn2 _]]].
    rewrite Hok in Hs'. pose proof (append_price_wfi p s1 (f_token f) item Hwf1 Hitem) as Hwf2.
    unfold mg_inv. simpl. rewrite (Hgt _ Hs'). split; [exact Hwf2|]. split; [exact Hnn2|].
    rewrite Hm'. split; [apply inc_keys_zset; exact Hinc|].
    rewrite Eb, Ee. exists 2. rewrite zget_zset_same. simpl. split; [reflexivity|].
    split; [right; reflexivity|]. split; [|intro; discriminate].
    rewrite Hn2. unfold get_tp. rewrite Hp1. fold (get_tp (st_store st) (f_token f)). lia.
  - (* the message completes the round of another feeder: other key, other token *)
    pose proof (other_feeder _ _ _ _ _ _ _ _ Hco Hf Nfid Hr Hst) as Htok.
    assert (Hsame : get_tp s' (f_token f) = get_tp s1 (f_token f)).
    { match type of Hs' with _ = s_prices (if ?c then ?a else ?g) => destruct c end; rewrite (Hgt _ Hs');
        [apply append_price_other | apply grow_round_other]; intro E; apply Htok; symmetry; exact E. }
    unfold mg_inv. simpl. rewrite Hsame.
    assert (Hs1 : get_tp s1 (f_token f) = get_tp (st_store st) (f_token f)) by (unfold get_tp; rewrite Hp1; reflexivity).
    rewrite Hs1. split; [exact Hwf|]. split; [exact Hnn|]. rewrite Hm'. split; [apply inc_keys_zset; exact Hinc|].
    rewrite zget_zset_other by (intro E; apply Nfid; symmetry; exact E). exact Hcase.
Qed.

(* ---- SealRound: only the rounds / failed components, as a simpler fold ---- *)
Definition seal_one_rf (p : params) (h : Z) (force : bool) (acc : list (Z * round) * list Z) (fr : Z * round)
  : list (Z * round) * list Z :=
  let '(rounds, failed) := acc in
  let '(g, r) := fr in
  if r_status r =? 1 then
    match get_feeder p g with
    | Some f0 =>
        if feeder_ended f0 h || (p_max_nonce p <=? usub h (r_base r)) || force
        then ((if feeder_ended f0 h then zdel rounds g else zset rounds g (closed_of r)), failed ++ [f_token f0])
        else (rounds, failed)
    | None => (rounds, failed)
    end
  else (rounds, failed).

Definition proj_rf (a : list (Z * round) * list (Z * worker) * list Z * list Z) : list (Z * round) * list Z :=
  (fst (fst (fst a)), snd (fst a)).

Lemma seal_one_proj p h force a fr : proj_rf (seal_one p h force a fr) = seal_one_rf p h force (proj_rf a) fr.
Proof.
  destruct a as [[[R W] F] S]. destruct fr as [g r]. unfold seal_one, seal_one_rf, proj_rf, feeder_ended. simpl.
  destruct (r_status r =? 1);
    [destruct (get_feeder p g) as [f0|];
       [destruct (((0 <? f_end f0) && (f_end f0 <=? h)) || (p_max_nonce p <=? usub h (r_base r)) || force);
          [destruct ((0 <? f_end f0) && (f_end f0 <=? h))|]|]|];
    cbv zeta; simpl;
    repeat (match goal with
            | |- context [match zget ?w ?k with _ => _ end] => destruct (zget w k)
            | |- context [if w_sealed ?w then _ else _] => destruct (w_sealed w)
            end; simpl);
    reflexivity.
Qed.

Lemma seal_fold_proj p h force : forall l a,
  proj_rf (fold_left (seal_one p h force) l a) = fold_left (seal_one_rf p h force) l (proj_rf a).
Proof. induction l as [|fr r IH]; intro a; simpl; [reflexivity|]. rewrite IH, seal_one_proj. reflexivity. Qed.

Definition cnt (tok : Z) (l : list Z) : Z := zlen (filter (Z.eqb tok) l).

Lemma cnt_app tok l1 l2 : cnt tok (l1 ++ l2) = cnt tok l1 + cnt tok l2.
Proof. unfold cnt. rewrite filter_app. apply zlen_app. Qed.

Lemma zget_zdel_same {V} (l : list (Z * V)) k : inc_keys l -> zget (zdel l k) k = None.
Proof.
  intro Hi. destruct (zget (zdel l k) k) as [v|] eqn:E; [|reflexivity].
  exfalso. exact (zdel_gone _ _ _ Hi (zget_in _ _ _ E)).
Qed.

Lemma fold_step {A B} (F : A -> B -> A) a l acc : fold_left F (a :: l) acc = fold_left F l (F acc a).
Proof. reflexivity. Qed.

Section SealFold.
  Variable p : params.
  Variable f : feeder.
  Hypothesis Hh : mg_hyp p f.
  Variable h : Z.
  Variable force : bool.

  (* effect of one step on the entry of f and on the number of occurrences of f's token among the failed *)
  Lemma seal_step_other R F g r :
    g <> f_id f -> inc_keys R ->
    (forall f0, get_feeder p g = Some f0 -> r_status r = 1 -> f_token f0 <> f_token f) ->
    let res := seal_one_rf p h force (R, F) (g, r) in
    inc_keys (fst res) /\ zget (fst res) (f_id f) = zget R (f_id f) /\ cnt (f_token f) (snd res) = cnt (f_token f) F.
  Proof.
    intros Hne Hi Hother. unfold seal_one_rf. destruct (r_status r =? 1) eqn:Est; [|simpl; auto].
    apply Z.eqb_eq in Est.
    destruct (get_feeder p g) as [f0|] eqn:Hg; [|simpl; auto].
    destruct (feeder_ended f0 h || (p_max_nonce p <=? usub h (r_base r)) || force); [|simpl; auto].
    pose proof (Hother f0 eq_refl Est) as Htok. simpl.
    assert (Hc : cnt (f_token f) (F ++ [f_token f0]) = cnt (f_token f) F).
    { rewrite cnt_app. unfold cnt at 2. simpl. destruct (f_token f =? f_token f0) eqn:E; [apply Z.eqb_eq in E; congruence|].
      unfold zlen. simpl. lia. }
    destruct (feeder_ended f0 h).
    - split; [apply inc_keys_zdel; exact Hi|]. split; [apply zget_zdel_other; intro E; apply Hne; symmetry; exact E | exact Hc].
    - split; [apply inc_keys_zset; exact Hi|]. split; [apply zget_zset_other; intro E; apply Hne; symmetry; exact E | exact Hc].
  Qed.

  Definition seal_self (r : round) : option round * Z :=
    match seal_rf p f h force r with
    | ([], failed) => (None, zlen failed)
    | ((_, r') :: _, failed) => (Some r', zlen failed)
    end.

  Lemma seal_step_self R F r :
    inc_keys R -> zget R (f_id f) = Some r ->
    let res := seal_one_rf p h force (R, F) (f_id f, r) in
    inc_keys (fst res) /\ zget (fst res) (f_id f) = fst (seal_self r) /\
    cnt (f_token f) (snd res) = cnt (f_token f) F + snd (seal_self r).
  Proof.
    intros Hi Hz. unfold seal_one_rf, seal_self, seal_rf. rewrite (get_feeder_f _ _ Hh).
    destruct (r_status r =? 1); [|simpl; unfold zlen; simpl; split; [exact Hi | split; [exact Hz | lia]]].
    destruct (feeder_ended f h || (p_max_nonce p <=? usub h (r_base r)) || force);
      [|simpl; unfold zlen; simpl; split; [exact Hi | split; [exact Hz | lia]]].
    assert (Hc : cnt (f_token f) (F ++ [f_token f]) = cnt (f_token f) F + 1).
    { rewrite cnt_app. unfold cnt at 2. simpl. rewrite Z.eqb_refl. unfold zlen. simpl. lia. }
    destruct (feeder_ended f h); simpl.
    - split; [apply inc_keys_zdel; exact Hi|]. split; [apply zget_zdel_same; exact Hi | unfold zlen; simpl; lia].
    - split; [apply inc_keys_zset; exact Hi|]. split; [apply zget_zset_same | unfold zlen; simpl; lia].
  Qed.

  Lemma seal_fold_f : forall l R F,
    inc_keys R -> inc_keys l ->
    (forall g r f0, In (g, r) l -> g <> f_id f -> get_feeder p g = Some f0 -> r_status r = 1 -> f_token f0 <> f_token f) ->
    (forall r, In (f_id f, r) l -> zget R (f_id f) = Some r) ->
    let res := fold_left (seal_one_rf p h force) l (R, F) in
    inc_keys (fst res) /\
    ((forall r, ~ In (f_id f, r) l) -> zget (fst res) (f_id f) = zget R (f_id f) /\ cnt (f_token f) (snd res) = cnt (f_token f) F) /\
    (forall r, In (f_id f, r) l -> zget (fst res) (f_id f) = fst (seal_self r) /\
                                   cnt (f_token f) (snd res) = cnt (f_token f) F + snd (seal_self r)).
  Proof.
    induction l as [|[g r0] t IH]; intros R F Hi Hl Hco Hz.
    - simpl. split; [exact Hi|]. split; [intros _; split; reflexivity | intros r []].
    - cbv zeta. rewrite fold_step. destruct Hl as [Hlt Hl'].
      destruct (Z.eq_dec g (f_id f)) as [E|Hne].
      + subst g. pose proof (Hz r0 (or_introl eq_refl)) as Hz0.
        destruct (seal_step_self R F r0 Hi Hz0) as [S1 [S2 S3]].
        destruct (seal_one_rf p h force (R, F) (f_id f, r0)) as [R1 F1] eqn:Hstep. simpl in S1, S2, S3.
        assert (Hnot : forall r, ~ In (f_id f, r) t) by (intros r Hin; pose proof (Hlt _ _ Hin); lia).
        destruct (IH R1 F1 S1 Hl' (fun g' r' f0 Hin => Hco g' r' f0 (or_intror Hin)) (fun r Hin => False_ind _ (Hnot r Hin))) as [I1 [I2 _]].
        destruct (I2 Hnot) as [J1 J2].
        split; [exact I1|]. split; [intro Hno; exfalso; exact (Hno r0 (or_introl eq_refl))|].
        intros r [Hin|Hin]; [inversion Hin; subst r; rewrite J1, J2; split; [exact S2 | exact S3] | exfalso; exact (Hnot r Hin)].
      + destruct (seal_step_other R F g r0 Hne Hi (fun f0 Hg Hs => Hco g r0 f0 (or_introl eq_refl) Hne Hg Hs)) as [S1 [S2 S3]].
        destruct (seal_one_rf p h force (R, F) (g, r0)) as [R1 F1] eqn:Hstep. simpl in S1, S2, S3.
        assert (Hz1 : forall r, In (f_id f, r) t -> zget R1 (f_id f) = Some r).
        { intros r Hin. rewrite S2. apply Hz. right. exact Hin. }
        destruct (IH R1 F1 S1 Hl' (fun g' r' f0 Hin => Hco g' r' f0 (or_intror Hin)) Hz1) as [I1 [I2 I3]].
        split; [exact I1|]. split.
        * intro Hno. assert (Hno' : forall r, ~ In (f_id f, r) t) by (intros r Hin; apply (Hno r); right; exact Hin).
          destruct (I2 Hno') as [J1 J2]. rewrite J1, J2, S2, S3. split; reflexivity.
        * intros r [Hin|Hin]; [inversion Hin; congruence|]. destruct (I3 r Hin) as [J1 J2]. rewrite J1, J2, S3. split; reflexivity.
  Qed.
End SealFold.

(* ---- GrowRoundID over the failed list: only the occurrences of f's token matter for f's token ---- *)
Lemma append_tok_dep p s s' tok x :
  get_tp s tok = get_tp s' tok -> get_tp (fst (append_price p s tok x)) tok = get_tp (fst (append_price p s' tok x)) tok.
Proof.
  intro E. unfold append_price. rewrite E.
  destruct (negb (next_round_id (get_tp s' tok) =? pt_round x)); simpl; [exact E|].
  rewrite !get_tp_set_tp. reflexivity.
Qed.

Lemma grow_tok_dep p s s' tok :
  get_tp s tok = get_tp s' tok -> get_tp (grow_round p s tok) tok = get_tp (grow_round p s' tok) tok.
Proof.
  intro E. unfold grow_round. rewrite E. destruct (latest_price (get_tp s' tok)); apply append_tok_dep; exact E.
Qed.

Lemma grow_fold_filter p tok : forall l s s',
  get_tp s tok = get_tp s' tok ->
  get_tp (fold_left (fun s t => grow_round p s t) l s) tok =
  get_tp (fold_left (fun s t => grow_round p s t) (filter (Z.eqb tok) l) s') tok.
Proof.
  induction l as [|a r IH]; intros s s' E; simpl; [exact E|].
  destruct (tok =? a) eqn:Ea.
  - apply Z.eqb_eq in Ea. subst a. simpl. apply IH. apply grow_tok_dep. exact E.
  - apply IH. rewrite grow_round_other by (intro E2; subst; rewrite Z.eqb_refl in Ea; discriminate). exact E.
Qed.

Lemma filter_all_eq tok l : Forall (fun x => x = tok) (filter (Z.eqb tok) l).
Proof.
  induction l as [|a r IH]; simpl; [constructor|]. destruct (tok =? a) eqn:E; [|exact IH].
  apply Z.eqb_eq in E. constructor; [symmetry; exact E | exact IH].
Qed.

Lemma filter_cnt0 tok l : cnt tok l = 0 -> filter (Z.eqb tok) l = [].
Proof. unfold cnt, zlen. destruct (filter (Z.eqb tok) l); [reflexivity | simpl; lia]. Qed.

Lemma filter_cnt1 tok l : cnt tok l = 1 -> filter (Z.eqb tok) l = [tok].
Proof.
  intro H. pose proof (filter_all_eq tok l) as Ha. unfold cnt, zlen in H.
  destruct (filter (Z.eqb tok) l) as [|a [|b r]]; simpl in H; try lia.
  inversion Ha; subst. reflexivity.
Qed.

(* ---- PrepareRoundEndBlock over the feeder list ---- *)
Lemma prepare_fold_rounds p h : forall l R W Fr,
  fst (fst (fold_left (prepare_one p h) l (R, W, Fr))) = fold_left (fun R g => prepare_r p h g R) l R.
Proof.
  induction l as [|g r IH]; intros R W Fr; [reflexivity|].
  rewrite !fold_step. pose proof (prepare_one_rounds p h g R W Fr) as H.
  destruct (prepare_one p h (R, W, Fr) g) as [[R1 W1] F1]. simpl in H. subst R1. apply IH.
Qed.

Lemma prepare_r_inc p h g R : inc_keys R -> inc_keys (prepare_r p h g R).
Proof.
  intro Hi. unfold prepare_r. destruct (feeder_ended g h || (h <? f_start g)); [exact Hi|]. cbv zeta.
  destruct (zget R (f_id g)) as [r|].
  - destruct ((h - f_start g) mod f_interval g =? 0); [apply inc_keys_zset; exact Hi|].
    destruct ((r_status r =? 1) && (p_max_nonce p <=? (h - f_start g) mod f_interval g)); [apply inc_keys_zset; exact Hi | exact Hi].
  - destruct (p_max_nonce p <=? (h - f_start g) mod f_interval g); apply inc_keys_zset; exact Hi.
Qed.

Lemma prepare_r_other p h g R fid : f_id g <> fid -> zget (prepare_r p h g R) fid = zget R fid.
Proof.
  intro Hne. unfold prepare_r. destruct (feeder_ended g h || (h <? f_start g)); [reflexivity|]. cbv zeta.
  assert (Hz : forall r, zget (zset R (f_id g) r) fid = zget R fid) by (intro r; apply zget_zset_other; intro E; apply Hne; symmetry; exact E).
  destruct (zget R (f_id g)) as [r|].
  - destruct ((h - f_start g) mod f_interval g =? 0); [apply Hz|].
    destruct ((r_status r =? 1) && (p_max_nonce p <=? (h - f_start g) mod f_interval g)); [apply Hz | reflexivity].
  - destruct (p_max_nonce p <=? (h - f_start g) mod f_interval g); apply Hz.
Qed.

Definition sing (fid : Z) (o : option round) : list (Z * round) := match o with Some r => [(fid, r)] | None => [] end.

Lemma zget_sing fid o : zget (sing fid o) fid = o.
Proof. destruct o; simpl; [rewrite Z.eqb_refl|]; reflexivity. Qed.

Lemma prepare_r_self p h f R :
  zget (prepare_r p h f R) (f_id f) = zget (prepare_r p h f (sing (f_id f) (zget R (f_id f)))) (f_id f).
Proof.
  unfold prepare_r. destruct (feeder_ended f h || (h <? f_start f)); [rewrite zget_sing; reflexivity|]. cbv zeta.
  rewrite zget_sing. destruct (zget R (f_id f)) as [r|] eqn:Hz.
  - destruct ((h - f_start f) mod f_interval f =? 0); [rewrite !zget_zset_same; reflexivity|].
    destruct ((r_status r =? 1) && (p_max_nonce p <=? (h - f_start f) mod f_interval f)); [rewrite !zget_zset_same; reflexivity|].
    rewrite Hz. simpl. rewrite Z.eqb_refl. reflexivity.
  - destruct (p_max_nonce p <=? (h - f_start f) mod f_interval f); rewrite !zget_zset_same; reflexivity.
Qed.

Lemma prepare_fold_f p h f : forall l R,
  NoDup (map f_id l) -> inc_keys R ->
  inc_keys (fold_left (fun R g => prepare_r p h g R) l R) /\
  zget (fold_left (fun R g => prepare_r p h g R) l R) (f_id f) =
  (if existsb (fun g => f_id g =? f_id f) l
   then zget (prepare_r p h (match find (fun g => f_id g =? f_id f) l with Some g => g | None => f end)
                        (sing (f_id f) (zget R (f_id f)))) (f_id f)
   else zget R (f_id f)).
Proof.
  induction l as [|g r IH]; intros R Hn Hi; simpl; [split; [exact Hi | reflexivity]|].
  inversion Hn as [|? ? Hnot Hn']; subst.
  destruct (IH (prepare_r p h g R) Hn' (prepare_r_inc p h g R Hi)) as [I1 I2]. split; [exact I1|].
  rewrite I2. destruct (f_id g =? f_id f) eqn:E.
  - apply Z.eqb_eq in E. simpl.
    assert (Hno : existsb (fun g0 => f_id g0 =? f_id f) r = false).
    { destruct (existsb (fun g0 => f_id g0 =? f_id f) r) eqn:Ex; [|reflexivity]. apply existsb_exists in Ex.
      destruct Ex as [g0 [Hin Hg0]]. apply Z.eqb_eq in Hg0. exfalso. apply Hnot. rewrite E, <- Hg0. apply in_map. exact Hin. }
    rewrite Hno. rewrite <- E. apply prepare_r_self.
  - simpl. apply Z.eqb_neq in E. rewrite (prepare_r_other p h g R (f_id f) E). reflexivity.
Qed.

(* ---- simulation by the single-feeder machine ---- *)
Definition pf (p : params) (f : feeder) : params :=
  mkParams (p_max_nonce p) (p_thr_a p) (p_thr_b p) (p_max_detid p) (p_max_size p) [f] (p_tokens p).

Definition stf (f : feeder) (st : state) : state :=
  mkState (st_store st)
          (mkMem (m_vals (st_mem st)) (m_total (st_mem st)) (sing (f_id f) (zget (m_rounds (st_mem st)) (f_id f))) []) 0.

Lemma ng_hyp_pf p f : mg_hyp p f -> ng_hyp (pf p f) f.
Proof. intros [H1 H2 H4 H5 H6 H7]. constructor; simpl; try assumption. reflexivity. Qed.

Lemma mg_to_ng p f b st : mg_inv p f b st -> ng_inv (pf p f) f b (stf f st).
Proof.
  intros [Hw [Hn [_ Hc]]]. unfold ng_inv, stf. simpl. split; [exact Hw|]. split; [exact Hn|].
  destruct (b <? f_start f).
  - destruct Hc as [Hz Hx]. rewrite Hz. split; [reflexivity | exact Hx].
  - destruct (feeder_ended f b).
    + destruct Hc as [Hx [Hz|[r [Hz Hs]]]]; rewrite Hz; (split; [exact Hx|]); [left; reflexivity | right; exists r; split; [reflexivity | exact Hs]].
    + destruct Hc as [s0 [Hz Hrest]]. exists s0. rewrite Hz. split; [reflexivity | exact Hrest].
Qed.

Lemma ng_to_mg p f b X st' :
  ng_inv (pf p f) f b X ->
  get_tp (st_store st') (f_token f) = get_tp (st_store X) (f_token f) ->
  zget (m_rounds (st_mem st')) (f_id f) = zget (m_rounds (st_mem X)) (f_id f) ->
  inc_keys (m_rounds (st_mem st')) -> mg_inv p f b st'.
Proof.
  intros [Hw [Hn Hc]] Et Ez Hi. unfold mg_inv. rewrite Et, Ez. split; [exact Hw|]. split; [exact Hn|]. split; [exact Hi|].
  simpl in Hc. destruct (b <? f_start f).
  - destruct Hc as [Hr Hx]. rewrite Hr. split; [reflexivity | exact Hx].
  - destruct (feeder_ended f b).
    + destruct Hc as [Hx [Hr|[r [Hr Hs]]]]; rewrite Hr; (split; [exact Hx|]); [left; reflexivity|].
      right. exists r. split; [apply zget_single | exact Hs].
    + destruct Hc as [s0 [Hr Hrest]]. exists s0. rewrite Hr. split; [apply zget_single | exact Hrest].
Qed.

Lemma get_tp_eq a b tok : s_prices a = s_prices b -> get_tp a tok = get_tp b tok.
Proof. intro E. unfold get_tp. rewrite E. reflexivity. Qed.

Lemma grow_round_pf p f s tok : grow_round (pf p f) s tok = grow_round p s tok.
Proof. reflexivity. Qed.

Lemma seal_rf_cases p f h force r :
  sing (f_id f) (fst (seal_self p f h force r)) = fst (seal_rf p f h force r) /\
  ((snd (seal_self p f h force r) = 0 /\ snd (seal_rf p f h force r) = []) \/
   (snd (seal_self p f h force r) = 1 /\ snd (seal_rf p f h force r) = [f_token f])).
Proof.
  unfold seal_self, seal_rf. destruct (r_status r =? 1); [|simpl; split; [reflexivity | left; split; reflexivity]].
  cbv zeta. destruct (feeder_ended f h || (p_max_nonce p <=? usub h (r_base r)) || force);
    [|simpl; split; [reflexivity | left; split; reflexivity]].
  destruct (feeder_ended f h); simpl; (split; [reflexivity | right; split; reflexivity]).
Qed.

Lemma find_f p f : mg_hyp p f ->
  existsb (fun g => f_id g =? f_id f) (p_feeders p) = true /\ find (fun g => f_id g =? f_id f) (p_feeders p) = Some f.
Proof.
  intro Hh. split.
  - apply existsb_exists. exists f. split; [exact (mh_in _ _ Hh) | apply Z.eqb_refl].
  - pose proof (get_feeder_f _ _ Hh) as H. unfold get_feeder in H. exact H.
Qed.

Lemma end_block_sim p f H0 b h u st :
  mg_hyp p f -> co_ok p f H0 b (st_mem st) -> 1 <= h -> inc_keys (m_rounds (st_mem st)) ->
  let st' := end_block p h u st in
  let X := end_block (pf p f) h u (stf f st) in
  get_tp (st_store st') (f_token f) = get_tp (st_store X) (f_token f) /\
  zget (m_rounds (st_mem st')) (f_id f) = zget (m_rounds (st_mem X)) (f_id f) /\
  inc_keys (m_rounds (st_mem st')).
Proof.
  intros Hh Hco Hh1 Hi. cbv zeta.
  destruct (end_block_shape (pf p f) f h u (stf f st) eq_refl Hh1) as [Snil Ssingle].
  set (force := match u with [] => false | _ => true end) in *.
  (* the multi-feeder side *)
  unfold end_block at 1 3 5. fold force.
  set (m1 := if force then mkMem (fold_left apply_update u (m_vals (st_mem st)))
                                 (zsum (map snd (fold_left apply_update u (m_vals (st_mem st)))))
                                 (m_rounds (st_mem st)) (m_workers (st_mem st))
             else st_mem st).
  assert (H1 : m_rounds m1 = m_rounds (st_mem st)) by (unfold m1; destruct force; reflexivity).
  unfold seal_round. rewrite H1.
  pose proof (seal_fold_proj p h force (m_rounds (st_mem st)) (m_rounds (st_mem st), m_workers m1, [], [])) as Hproj.
  destruct (fold_left (seal_one p h force) (m_rounds (st_mem st)) (m_rounds (st_mem st), m_workers m1, [], []))
    as [[[R2 W2] F2] S2] eqn:Hfold.
  unfold proj_rf in Hproj. simpl in Hproj.
  assert (Hzin : forall r, In (f_id f, r) (m_rounds (st_mem st)) -> zget (m_rounds (st_mem st)) (f_id f) = Some r)
    by (intros r Hin; exact (inc_keys_zget _ _ _ Hi Hin)).
  assert (Hco' : forall g r f0, In (g, r) (m_rounds (st_mem st)) -> g <> f_id f -> get_feeder p g = Some f0 -> r_status r = 1 -> f_token f0 <> f_token f).
  { intros g r f0 Hin Hne Hg Hs. exact (other_feeder _ _ _ _ _ _ _ _ Hco Hg Hne (inc_keys_zget _ _ _ Hi Hin) Hs). }
  destruct (seal_fold_f p f Hh h force (m_rounds (st_mem st)) (m_rounds (st_mem st)) [] Hi Hi Hco' Hzin) as [K1 [K2 K3]].
  rewrite <- Hproj in K1, K2, K3. simpl in K1, K2, K3.
  unfold prepare_round. assert (Hlt : h <? 1 = false) by (apply Z.ltb_ge; lia). rewrite Hlt.
  pose proof (prepare_fold_rounds p h (p_feeders p) R2 W2 []) as Hprep. simpl m_rounds. simpl m_workers.
  destruct (fold_left (prepare_one p h) (p_feeders p) (R2, W2, [])) as [[R3 W3] Fr3] eqn:Hpf. simpl in Hprep.
  destruct (prepare_fold_f p h f (p_feeders p) R2 (mh_ids _ _ Hh) K1) as [P1 P2].
  destruct (find_f p f Hh) as [Fe Ff]. rewrite Fe, Ff in P2. rewrite <- Hprep in P1, P2.
  simpl. split; [|split; [|exact P1]].
  - (* prices of f's token *)
    rewrite get_tp_prices.
    destruct (zget (m_rounds (st_mem st)) (f_id f)) as [r|] eqn:Hz.
    + destruct (K3 r (zget_in _ _ _ Hz)) as [_ Kc]. destruct (Ssingle r) as [_ [n1 Hp]]; [unfold stf; simpl; rewrite Hz; reflexivity|].
      destruct (seal_rf_cases p f h force r) as [_ [[Hc0 Hl0]|[Hc1 Hl1]]].
      * rewrite Hc0 in Kc. unfold cnt in Kc. simpl in Kc.
        erewrite grow_fold_filter with (s' := mkStore (s_prices (st_store st)) []); [|reflexivity].
        rewrite (filter_cnt0 _ _ Kc). simpl.
        rewrite (get_tp_eq _ _ (f_token f) Hp). change (seal_rf (pf p f) f h force r) with (seal_rf p f h force r). rewrite Hl0. reflexivity.
      * rewrite Hc1 in Kc. unfold cnt in Kc. simpl in Kc.
        erewrite grow_fold_filter with (s' := mkStore (s_prices (st_store st)) n1); [|reflexivity].
        rewrite (filter_cnt1 _ _ Kc). simpl.
        rewrite (get_tp_eq _ _ (f_token f) Hp). change (seal_rf (pf p f) f h force r) with (seal_rf p f h force r). rewrite Hl1. simpl.
        rewrite grow_round_pf. reflexivity.
    + assert (Hno : forall r, ~ In (f_id f, r) (m_rounds (st_mem st))) by (intros r Hin; pose proof (Hzin r Hin) as Hcx; try rewrite Hz in Hcx; discriminate Hcx).
      destruct (K2 Hno) as [_ Kc]. unfold cnt in Kc. simpl in Kc.
      assert (Hprem : m_rounds (st_mem (stf f st)) = []) by (unfold stf; simpl; rewrite Hz; reflexivity).
      destruct (Snil Hprem) as [_ Hp].
      erewrite grow_fold_filter with (s' := st_store st); [|reflexivity]. rewrite (filter_cnt0 _ _ Kc). simpl.
      symmetry. apply get_tp_eq. exact Hp.
  - (* f's round *)
    rewrite P2.
    destruct (zget (m_rounds (st_mem st)) (f_id f)) as [r|] eqn:Hz.
    + destruct (K3 r (zget_in _ _ _ Hz)) as [Kr _]. destruct (Ssingle r) as [Hr _]; [unfold stf; simpl; rewrite Hz; reflexivity|].
      rewrite Hr. rewrite Kr. destruct (seal_rf_cases p f h force r) as [Hs _]. rewrite Hs. reflexivity.
    + assert (Hno : forall r, ~ In (f_id f, r) (m_rounds (st_mem st))) by (intros r Hin; pose proof (Hzin r Hin) as Hcx; try rewrite Hz in Hcx; discriminate Hcx).
      destruct (K2 Hno) as [Kr _]. rewrite Kr; try rewrite Hz.
      assert (Hprem : m_rounds (st_mem (stf f st)) = []) by (unfold stf; simpl; rewrite Hz; reflexivity).
      destruct (Snil Hprem) as [Hr _].
      rewrite Hr. reflexivity.
Qed.

(* ---- feeders sharing f's token stay quiet across EndBlock ---- *)
Lemma seal_step_key p h force R F g r k :
  inc_keys R -> (g = k -> r_status r = 2) ->
  inc_keys (fst (seal_one_rf p h force (R, F) (g, r))) /\ zget (fst (seal_one_rf p h force (R, F) (g, r))) k = zget R k.
Proof.
  intros Hi Hk. unfold seal_one_rf. destruct (r_status r =? 1) eqn:Est; [|simpl; auto].
  apply Z.eqb_eq in Est. assert (Hne : g <> k) by (intro E; specialize (Hk E); lia).
  destruct (get_feeder p g) as [f0|]; [|simpl; auto].
  destruct (feeder_ended f0 h || (p_max_nonce p <=? usub h (r_base r)) || force); [|simpl; auto].
  destruct (feeder_ended f0 h); simpl.
  - split; [apply inc_keys_zdel; exact Hi | apply zget_zdel_other; intro E; apply Hne; symmetry; exact E].
  - split; [apply inc_keys_zset; exact Hi | apply zget_zset_other; intro E; apply Hne; symmetry; exact E].
Qed.

Lemma seal_fold_key p h force k : forall l R F,
  inc_keys R -> (forall r, In (k, r) l -> r_status r = 2) ->
  zget (fst (fold_left (seal_one_rf p h force) l (R, F))) k = zget R k.
Proof.
  induction l as [|[g r0] t IH]; intros R F Hi Hk; [reflexivity|]. rewrite fold_step.
  destruct (seal_step_key p h force R F g r0 k Hi (fun E => Hk r0 (or_introl (f_equal (fun z => (z, r0)) E)))) as [S1 S2].
  destruct (seal_one_rf p h force (R, F) (g, r0)) as [R1 F1]. simpl in S1, S2.
  rewrite (IH R1 F1 S1 (fun r Hin => Hk r (or_intror Hin))). exact S2.
Qed.

Lemma find_id p g : In g (p_feeders p) -> NoDup (map f_id (p_feeders p)) ->
  existsb (fun g0 => f_id g0 =? f_id g) (p_feeders p) = true /\ find (fun g0 => f_id g0 =? f_id g) (p_feeders p) = Some g.
Proof.
  intros Hin Hnd. split.
  - apply existsb_exists. exists g. split; [exact Hin | apply Z.eqb_refl].
  - destruct (find (fun g0 => f_id g0 =? f_id g) (p_feeders p)) as [g1|] eqn:Hf.
    + apply find_some in Hf. destruct Hf as [H1 H2]. apply Z.eqb_eq in H2. f_equal. exact (nodup_map_inj f_id _ g1 g Hnd H1 Hin H2).
    + exfalso. pose proof (find_none _ _ Hf g Hin) as H. simpl in H. rewrite Z.eqb_refl in H. discriminate.
Qed.

(* a feeder that is not responsible at block h (ended, or not started) keeps its entry when it has no round or a
   closed one *)
Lemma end_block_quiet_key p g h u st :
  In g (p_feeders p) -> NoDup (map f_id (p_feeders p)) -> 1 <= h -> inc_keys (m_rounds (st_mem st)) ->
  feeder_ended g h = true \/ h < f_start g ->
  match zget (m_rounds (st_mem st)) (f_id g) with None => True | Some r => r_status r = 2 end ->
  zget (m_rounds (st_mem (end_block p h u st))) (f_id g) = zget (m_rounds (st_mem st)) (f_id g).
Proof.
  intros Hin Hnd Hh1 Hi Hinact Hq. unfold end_block.
  set (force := match u with [] => false | _ => true end).
  set (m1 := if force then mkMem (fold_left apply_update u (m_vals (st_mem st)))
                                 (zsum (map snd (fold_left apply_update u (m_vals (st_mem st)))))
                                 (m_rounds (st_mem st)) (m_workers (st_mem st))
             else st_mem st).
  assert (H1 : m_rounds m1 = m_rounds (st_mem st)) by (unfold m1; destruct force; reflexivity).
  unfold seal_round. rewrite H1.
  pose proof (seal_fold_proj p h force (m_rounds (st_mem st)) (m_rounds (st_mem st), m_workers m1, [], [])) as Hproj.
  destruct (fold_left (seal_one p h force) (m_rounds (st_mem st)) (m_rounds (st_mem st), m_workers m1, [], []))
    as [[[R2 W2] F2] S2] eqn:Hfold.
  unfold proj_rf in Hproj. simpl in Hproj.
  assert (Hk : forall r, In (f_id g, r) (m_rounds (st_mem st)) -> r_status r = 2).
  { intros r Hr. rewrite (inc_keys_zget _ _ _ Hi Hr) in Hq. exact Hq. }
  pose proof (seal_fold_key p h force (f_id g) (m_rounds (st_mem st)) (m_rounds (st_mem st)) [] Hi Hk) as K.
  assert (K1 : inc_keys R2).
  { assert (G : forall l R F, inc_keys R -> inc_keys (fst (fold_left (seal_one_rf p h force) l (R, F)))).
    { induction l as [|[g0 r0] t IH]; intros R F HR; [exact HR|]. rewrite fold_step.
      destruct (seal_step_key p h force R F g0 r0 (g0 + 1) HR ltac:(intro; lia)) as [S1 _].
      destruct (seal_one_rf p h force (R, F) (g0, r0)) as [R1 F1]. exact (IH R1 F1 S1). }
    specialize (G (m_rounds (st_mem st)) (m_rounds (st_mem st)) [] Hi). rewrite <- Hproj in G. exact G. }
  rewrite <- Hproj in K. simpl in K.
  unfold prepare_round. assert (Hlt : h <? 1 = false) by (apply Z.ltb_ge; lia). rewrite Hlt.
  pose proof (prepare_fold_rounds p h (p_feeders p) R2 W2 []) as Hprep. simpl m_rounds. simpl m_workers.
  destruct (fold_left (prepare_one p h) (p_feeders p) (R2, W2, [])) as [[R3 W3] Fr3] eqn:Hpf. simpl in Hprep.
  destruct (prepare_fold_f p h g (p_feeders p) R2 Hnd K1) as [_ P2].
  destruct (find_id p g Hin Hnd) as [Fe Ff]. rewrite Fe, Ff in P2. rewrite <- Hprep in P2.
  simpl. rewrite P2.
  assert (Hskip : forall X, prepare_r p h g X = X).
  { intro X. unfold prepare_r. destruct Hinact as [He|Hs]; [rewrite He; reflexivity|].
    assert (h <? f_start g = true) by (apply Z.ltb_lt; exact Hs). rewrite H. rewrite orb_true_r. reflexivity. }
  rewrite Hskip, zget_sing. exact K.
Qed.

Lemma co_ok_end_block p f H0 b u st :
  NoDup (map f_id (p_feeders p)) -> 0 <= b -> b + 1 <= H0 -> inc_keys (m_rounds (st_mem st)) ->
  co_ok p f H0 b (st_mem st) -> co_ok p f H0 (b + 1) (st_mem (end_block p (b + 1) u st)).
Proof.
  intros Hnd Hb Hh Hi Hco g Hin Hne Htok. destruct (Hco g Hin Hne Htok) as [[He Hq]|[Hs Hq]].
  - left. split; [exact (ended_mono _ _ He)|].
    assert (H1b : 1 <= b + 1) by lia.
    rewrite (end_block_quiet_key p g (b + 1) u st Hin Hnd H1b Hi (or_introl (ended_mono _ _ He)) Hq). exact Hq.
  - right. split; [exact Hs|].
    assert (Hq' : match zget (m_rounds (st_mem st)) (f_id g) with None => True | Some r => r_status r = 2 end) by (rewrite Hq; exact I).
    assert (Hlt : b + 1 < f_start g) by lia. assert (H1b : 1 <= b + 1) by lia.
    rewrite (end_block_quiet_key p g (b + 1) u st Hin Hnd H1b Hi (or_intror Hlt) Hq'). exact Hq.
Qed.

(* the two invariants together, with the horizon *)
Definition mgx_inv (p : params) (f : feeder) (H0 b : Z) (st : state) : Prop :=
  mg_inv p f b st /\ co_ok p f H0 b (st_mem st).

Lemma mg_end_keeps_inv p f H0 b u st :
  mg_hyp p f -> 0 <= b -> b + 1 < two64 -> b + 1 <= H0 -> mgx_inv p f H0 b st -> mgx_inv p f H0 (b + 1) (end_block p (b + 1) u st).
Proof.
  intros Hh Hb0 Hb1 HbH [Hinv Hco].
  pose proof (end_keeps_inv (pf p f) f b u (stf f st) (ng_hyp_pf _ _ Hh) Hb0 Hb1 (mg_to_ng _ _ _ _ Hinv)) as Hng.
  destruct Hinv as [_ [_ [Hi _]]].
  destruct (end_block_sim p f H0 b (b + 1) u st Hh Hco ltac:(lia) Hi) as [E1 [E2 E3]].
  split; [exact (ng_to_mg p f (b + 1) _ _ Hng E1 E2 E3)|].
  exact (co_ok_end_block p f H0 b u st (mh_ids _ _ Hh) Hb0 HbH Hi Hco).
Qed.

Lemma mgx_tx_keeps p f H0 b now st t x st' a ok :
  mg_hyp p f -> mgx_inv p f H0 b st -> t_msgs t = [x] -> deliver_tx p now st t = (st', a, ok) -> mgx_inv p f H0 b st'.
Proof.
  intros Hh [Hinv Hco] Hx Hd. split; [exact (mg_tx_keeps_inv p f H0 b now st t x st' a ok Hh Hco Hinv Hx Hd)|].
  exact (co_ok_rounds_step p f H0 b _ _ (deliver_tx_rounds_step _ _ _ _ _ _ _ Hd) Hco).
Qed.

Lemma mg_run_txs_inv p f H0 b : mg_hyp p f -> forall txs st,
  Forall (fun nt => single_msg (snd nt)) txs -> mgx_inv p f H0 b st -> mgx_inv p f H0 b (run_txs p st txs).
Proof.
  intro Hh. induction txs as [|[now t] r IH]; intros st Hall Hinv; simpl; [exact Hinv|].
  inversion Hall as [|? ? [x Hx] Hr]; subst. apply IH; [exact Hr|].
  destruct (deliver_tx p now st t) as [[st' a] ok] eqn:Hd. simpl.
  exact (mgx_tx_keeps p f H0 b now st t x st' a ok Hh Hinv Hx Hd).
Qed.

Lemma mg_run_blocks_inv p f H0 : mg_hyp p f -> forall bl b st,
  0 <= b -> b + Z.of_nat (List.length bl) < two64 -> b + Z.of_nat (List.length bl) <= H0 ->
  Forall (fun bk => Forall (fun nt => single_msg (snd nt)) (fst bk)) bl ->
  mgx_inv p f H0 b st -> mgx_inv p f H0 (b + Z.of_nat (List.length bl)) (run_blocks p b st bl).
Proof.
  intro Hh. induction bl as [|[txs u] r IH]; intros b st Hb0 Hb1 HbH Hall Hinv.
  - simpl. rewrite Z.add_0_r. exact Hinv.
  - inversion Hall as [|? ? Htxs Hr]; subst. simpl fst in Htxs.
    change (run_blocks p b st ((txs, u) :: r)) with (run_blocks p (b + 1) (end_block p (b + 1) u (run_txs p st txs)) r).
    replace (b + Z.of_nat (List.length ((txs, u) :: r))) with (b + 1 + Z.of_nat (List.length r)) by (simpl List.length; lia).
    assert (Hlen : b + 1 + Z.of_nat (List.length r) < two64) by (simpl List.length in Hb1; lia).
    assert (HlenH : b + 1 + Z.of_nat (List.length r) <= H0) by (simpl List.length in HbH; lia).
    apply IH; [lia | exact Hlen | exact HlenH | exact Hr|].
    apply mg_end_keeps_inv; [exact Hh | exact Hb0 | lia | lia|]. apply mg_run_txs_inv; assumption.
Qed.

Lemma mg_inv_nogap_state p f b st :
  mg_inv p f b st -> nogap_state p f b (next_round_id (get_tp (st_store st) (f_token f))) false = true.
Proof.
  intros [_ [_ [_ Hcase]]]. unfold nogap_state.
  destruct (b <? f_start f); [reflexivity|].
  destruct (feeder_ended f b).
  - destruct Hcase as [Hn _]. apply Z.eqb_eq. exact Hn.
  - destruct Hcase as [s0 [_ [Hs0 [Hn Hl]]]]. fold (left_of f b). rewrite Hn. simpl.
    destruct Hs0 as [E|E]; subst s0; simpl.
    + specialize (Hl eq_refl). assert (Hz : p_max_nonce p <=? left_of f b = false) by (apply Z.leb_gt; lia).
      rewrite Hz. rewrite Z.add_0_r. rewrite Z.leb_refl. simpl.
      assert (Hz2 : round_id_at f b <=? round_id_at f b + 1 = true) by (apply Z.leb_le; lia). rewrite Hz2. reflexivity.
    + rewrite Z.leb_refl. assert (Hz2 : round_id_at f b <=? round_id_at f b + 1 = true) by (apply Z.leb_le; lia).
      rewrite Hz2. simpl. rewrite Z.eqb_refl. destruct (p_max_nonce p <=? left_of f b); reflexivity.
Qed.

Lemma mg_inv_before_start p f b st :
  b < f_start f -> inc_keys (m_rounds (st_mem st)) -> zget (m_rounds (st_mem st)) (f_id f) = None ->
  tp_wfi (get_tp (st_store st) (f_token f)) -> tp_nonneg (get_tp (st_store st) (f_token f)) ->
  next_round_id (get_tp (st_store st) (f_token f)) = f_start_round f -> mg_inv p f b st.
Proof.
  intros Hb Hi Hr Hw Hn Hx. unfold mg_inv. split; [exact Hw|]. split; [exact Hn|]. split; [exact Hi|].
  apply Z.ltb_lt in Hb. rewrite Hb. split; assumption.
Qed.
