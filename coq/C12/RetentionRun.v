(* C12/RetentionRun.v — retention lifted over whole histories: as long as no NextRoundID reaches 2^64 (it is a
   uint64 in the code), every token's price list stays inside the window of the last MaxSizePrices rounds. *)
From Coq Require Import List String Bool ZArith Lia.
From Exo Require Import Base.Util Oracle.Model Oracle.Lemmas C12.Proofs C12.NoGap C12.Retention C13.Budget C12.NoGapMulti.
Import ListNotations.
Local Open Scope Z_scope.

Definition all_window (p : params) (s : store) : Prop :=
  forall tok, tp_nonneg (get_tp s tok) /\ tp_window p (get_tp s tok).
Definition small (s : store) : Prop := forall tok, next_round_id (get_tp s tok) < two64.
Definition next_le (s s' : store) : Prop := forall tok, next_round_id (get_tp s tok) <= next_round_id (get_tp s' tok).

Lemma next_le_refl s : next_le s s. Proof. intro tok. lia. Qed.
Lemma next_le_trans a b c : next_le a b -> next_le b c -> next_le a c.
Proof. intros H1 H2 tok. specialize (H1 tok). specialize (H2 tok). lia. Qed.

Lemma all_window_prices p a b : s_prices a = s_prices b -> all_window p a -> all_window p b.
Proof. intros E H tok. unfold get_tp in *. rewrite <- E. exact (H tok). Qed.
Lemma small_prices a b : s_prices a = s_prices b -> small a -> small b.
Proof. intros E H tok. unfold get_tp in *. rewrite <- E. exact (H tok). Qed.
Lemma next_le_prices_r a b c : s_prices b = s_prices c -> next_le a b -> next_le a c.
Proof. intros E H tok. unfold get_tp in *. rewrite <- E. exact (H tok). Qed.
Lemma next_le_prices_l a b c : s_prices a = s_prices b -> next_le a c -> next_le b c.
Proof. intros E H tok. unfold get_tp in *. rewrite <- E. exact (H tok). Qed.

(* NextRoundID never decreases *)
Lemma append_price_mono p s tok x : next_le s (fst (append_price p s tok x)).
Proof.
  intro tok2. destruct (Z.eq_dec tok2 tok) as [E|E].
  - subst tok2. unfold append_price. destruct (negb (next_round_id (get_tp s tok) =? pt_round x)); simpl; [lia|].
    rewrite get_tp_set_tp. unfold next_round_id at 2. simpl.
    destruct (next_round_id (get_tp s tok) + 1 =? 0) eqn:E0; [apply Z.eqb_eq in E0; lia | lia].
  - rewrite (append_price_other p s tok x tok2 E). lia.
Qed.

Lemma grow_round_mono p s tok : next_le s (grow_round p s tok).
Proof. unfold grow_round. destruct (latest_price (get_tp s tok)); apply append_price_mono. Qed.

Lemma fold_grow_mono p : forall l s, next_le s (fold_left (fun s t => grow_round p s t) l s).
Proof.
  induction l as [|a r IH]; intro s; simpl; [apply next_le_refl|].
  exact (next_le_trans _ _ _ (grow_round_mono p s a) (IH _)).
Qed.

(* one write keeps every token inside its window *)
Lemma append_price_all p s tok x :
  1 <= p_max_size p < two64 -> all_window p s -> next_round_id (get_tp s tok) < two64 ->
  all_window p (fst (append_price p s tok x)).
Proof.
  intros Hm Hw Hn tok2. destruct (Z.eq_dec tok2 tok) as [E|E].
  - subst tok2. destruct (Hw tok) as [Hnn Hwin]. split; [|exact (append_price_window p s tok x Hm Hnn Hn Hwin)].
    unfold append_price. destruct (negb (next_round_id (get_tp s tok) =? pt_round x)); simpl; [exact Hnn|].
    rewrite get_tp_set_tp. unfold tp_nonneg. simpl. pose proof (next_round_id_pos _ Hnn). lia.
  - rewrite (append_price_other p s tok x tok2 E). exact (Hw tok2).
Qed.

Lemma grow_round_all p s tok :
  1 <= p_max_size p < two64 -> all_window p s -> next_round_id (get_tp s tok) < two64 -> all_window p (grow_round p s tok).
Proof. intros Hm Hw Hn. unfold grow_round. destruct (latest_price (get_tp s tok)); apply append_price_all; assumption. Qed.

Lemma fold_grow_all p : 1 <= p_max_size p < two64 -> forall l s,
  all_window p s -> small (fold_left (fun s t => grow_round p s t) l s) ->
  all_window p (fold_left (fun s t => grow_round p s t) l s).
Proof.
  intro Hm. induction l as [|a r IH]; intros s Hw Hs; simpl in *; [exact Hw|].
  apply IH; [|exact Hs]. apply grow_round_all; [exact Hm | exact Hw|].
  pose proof (grow_round_mono p s a a) as M1. pose proof (fold_grow_mono p r (grow_round p s a) a) as M2. specialize (Hs a). lia.
Qed.

(* one message *)
Lemma create_price_store p now s m x s' m' res :
  create_price p now s m x = (s', m', res) ->
  s_prices s' = s_prices s \/
  exists tok item, s_prices s' = s_prices (if snd (append_price p s tok item) then fst (append_price p s tok item) else grow_round p s tok).
Proof.
  intro H. destruct res; try (left; destruct (create_price_nonfinal _ _ _ _ _ _ _ _ H ltac:(discriminate)) as [E _]; subst; reflexivity).
  right. destruct (create_price_final_shape _ _ _ _ _ _ _ H) as [price [r [f0 [_ [_ [_ [_ Hs]]]]]]].
  eexists. eexists. exact Hs.
Qed.

Lemma create_price_mono p now s m x s' m' res : create_price p now s m x = (s', m', res) -> next_le s s'.
Proof.
  intro H. destruct (create_price_store _ _ _ _ _ _ _ _ H) as [E|[tok [item E]]].
  - apply (next_le_prices_r s s s'); [symmetry; exact E | apply next_le_refl].
  - eapply next_le_prices_r; [symmetry; exact E|].
    destruct (snd (append_price p s tok item)); [apply append_price_mono | apply grow_round_mono].
Qed.

Lemma create_price_all p now s m x s' m' res :
  1 <= p_max_size p < two64 -> all_window p s -> small s' -> create_price p now s m x = (s', m', res) -> all_window p s'.
Proof.
  intros Hm Hw Hs H. pose proof (create_price_mono _ _ _ _ _ _ _ _ H) as Mono.
  destruct (create_price_store _ _ _ _ _ _ _ _ H) as [E|[tok [item E]]].
  - exact (all_window_prices p s s' (eq_sym E) Hw).
  - eapply all_window_prices; [symmetry; exact E|].
    assert (Hn : next_round_id (get_tp s tok) < two64) by (specialize (Mono tok); specialize (Hs tok); lia).
    destruct (snd (append_price p s tok item)); [apply append_price_all | apply grow_round_all]; assumption.
Qed.

Lemma run_msgs_mono p now : forall l s m s' m', run_msgs p now s m l = (Some s', m') -> next_le s s'.
Proof.
  induction l as [|x r IH]; intros s m s' m' H; simpl in H; [inversion H; apply next_le_refl|].
  destruct (create_price p now s m x) as [[s1 m1] res] eqn:Hc.
  pose proof (create_price_mono _ _ _ _ _ _ _ _ Hc) as M1.
  destruct res; try (inversion H; fail); exact (next_le_trans _ _ _ M1 (IH _ _ _ _ H)).
Qed.

Lemma run_msgs_all p now : 1 <= p_max_size p < two64 -> forall l s m s' m',
  all_window p s -> small s' -> run_msgs p now s m l = (Some s', m') -> all_window p s'.
Proof.
  intro Hm. induction l as [|x r IH]; intros s m s' m' Hw Hs H; simpl in H; [inversion H; subst; exact Hw|].
  destruct (create_price p now s m x) as [[s1 m1] res] eqn:Hc.
  assert (Hs1 : small s1 -> all_window p s1) by (intro Hx; exact (create_price_all _ _ _ _ _ _ _ _ Hm Hw Hx Hc)).
  destruct res; try (inversion H; fail);
    (apply (IH s1 m1 s' m'); [apply Hs1; intro tok; pose proof (run_msgs_mono _ _ _ _ _ _ _ H tok); specialize (Hs tok); lia | exact Hs | exact H]).
Qed.

Lemma deliver_tx_all p now st t st' a ok :
  1 <= p_max_size p < two64 -> all_window p (st_store st) -> small (st_store st') ->
  deliver_tx p now st t = (st', a, ok) -> all_window p (st_store st').
Proof.
  intros Hm Hw Hs H. unfold deliver_tx in H. destruct (ante p (st_store st) t) as [s1|] eqn:Ha; [|inversion H; subst; exact Hw].
  pose proof (ante_prices _ _ _ _ Ha) as Hp1.
  assert (Hw1 : all_window p s1) by exact (all_window_prices p _ _ (eq_sym Hp1) Hw).
  destruct (run_msgs p now s1 (st_mem st) (t_msgs t)) as [[s2|] m2] eqn:Hr; inversion H; subst; simpl in *; [|exact Hw1].
  exact (run_msgs_all p now Hm _ _ _ _ _ Hw1 Hs Hr).
Qed.

Lemma end_block_prices p h u st :
  exists failed n1, s_prices (st_store (end_block p h u st)) =
                    s_prices (fold_left (fun s tok => grow_round p s tok) failed (mkStore (s_prices (st_store st)) n1)).
Proof.
  unfold end_block.
  match goal with |- context [seal_round p h ?fo ?m1] => destruct (seal_round p h fo m1) as [[m2 failed] sealed] end.
  destruct (prepare_round p h m2) as [m3 fresh]. simpl. eexists. eexists. reflexivity.
Qed.

Lemma end_block_all p h u st :
  1 <= p_max_size p < two64 -> all_window p (st_store st) -> small (st_store (end_block p h u st)) ->
  all_window p (st_store (end_block p h u st)).
Proof.
  intros Hm Hw Hs. destruct (end_block_prices p h u st) as [failed [n1 E]].
  eapply all_window_prices; [symmetry; exact E|]. apply fold_grow_all; [exact Hm | |].
  - exact (all_window_prices p (st_store st) _ eq_refl Hw).
  - exact (small_prices _ _ E Hs).
Qed.

(* histories: the hypothesis is that after every step of the run no NextRoundID has reached 2^64 *)
Fixpoint small_run (p : params) (st : state) (ops : list op) : Prop :=
  match ops with
  | [] => True
  | o :: r => small (st_store (step p st o)) /\ small_run p (step p st o) r
  end.

Lemma run_all_window p : 1 <= p_max_size p < two64 -> forall ops st,
  all_window p (st_store st) -> small_run p st ops -> all_window p (st_store (run p st ops)).
Proof.
  intro Hm. induction ops as [|o r IH]; intros st Hw Hs; simpl; [exact Hw|]. destruct Hs as [Hs1 Hs2].
  apply IH; [|exact Hs2]. destruct o as [now t|h u]; simpl in *.
  - destruct (deliver_tx p now st t) as [[st' a] ok] eqn:Hd. simpl in *. exact (deliver_tx_all _ _ _ _ _ _ _ Hm Hw Hs1 Hd).
  - apply end_block_all; assumption.
Qed.

Lemma retention_run p ops st tok :
  1 <= p_max_size p < two64 -> all_window p (st_store st) -> small_run p st ops ->
  zlen (tp_list (get_tp (st_store (run p st ops)) tok)) <= p_max_size p.
Proof.
  intros Hm Hw Hs. destruct (run_all_window p Hm ops st Hw Hs tok) as [_ H]. apply tp_window_length; [lia | exact H].
Qed.
