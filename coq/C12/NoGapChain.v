(* C12/NoGapChain.v — round numbering across the hand-over of a token from a feeder to its successor
   (Params.Validate: the successor starts after the predecessor's end block, its StartRoundID continues). *)
From Coq Require Import List String Bool ZArith Lia.
From Exo Require Import Base.Util Oracle.Model Oracle.Lemmas C12.Proofs C12.NoGap C12.Retention C13.Budget C12.NoGapMulti C12.NoGapClean.
Import ListNotations.
Local Open Scope Z_scope.

Record successor (p : params) (f1 f2 : feeder) : Prop := mkSucc {
  sc_h1 : mg_hyp p f1;
  sc_h2 : mg_hyp p f2;
  sc_ids : f_id f2 <> f_id f1;
  sc_tok : f_token f2 = f_token f1;
  sc_end : 0 < f_end f1 /\ f_end f1 < f_start f2;
  sc_round : f_start_round f2 = f_start_round f1 + (f_end f1 - f_start f1) / f_interval f1 + 1;
  sc_only : forall g, In g (p_feeders p) -> f_token g = f_token f1 -> g = f1 \/ g = f2 }.

Lemma div_pred d i : 0 <= d - 1 -> 1 <= i -> 1 <= d mod i -> (d - 1) / i = d / i.
Proof.
  intros Hd Hi Hm. destruct (div_mod_succ (d - 1) i Hd Hi) as [[H0 _]|[_ [Hq _]]];
    replace (d - 1 + 1) with d in * by lia; lia.
Qed.

Lemma same_id p f g : NoDup (map f_id (p_feeders p)) -> In f (p_feeders p) -> In g (p_feeders p) -> f_id g = f_id f -> g = f.
Proof. intros Hn Hf Hg E. exact (nodup_map_inj f_id _ g f Hn Hg Hf E). Qed.

(* at the block before the successor starts, the predecessor's invariant IS the successor's *)
Lemma handover p f1 f2 H1 H2 st :
  successor p f1 f2 -> mgx_inv p f1 H1 (f_start f2 - 1) st -> mgx_inv p f2 H2 (f_start f2 - 1) st.
Proof.
  intros [Hh1 Hh2 Hids Htok [He0 He1] Hround Honly] [[Hwf [Hnn [Hinc Hcase]]] Hco].
  destruct Hh1 as [Hin1 Hnd Hmn1 Hint1 Hst1 Hend1]. destruct Hh2 as [Hin2 _ _ Hint2 Hst2 Hend2].
  destruct Hend1 as [Hbad|[Hse Hmod]]; [lia|].
  assert (Eb1 : f_start f2 - 1 <? f_start f1 = false) by (apply Z.ltb_ge; lia).
  assert (Ee1 : feeder_ended f1 (f_start f2 - 1) = true).
  { unfold feeder_ended. apply andb_true_intro. split; [apply Z.ltb_lt; lia | apply Z.leb_le; lia]. }
  rewrite Eb1, Ee1 in Hcase. destruct Hcase as [Hnext Hq1].
  (* what co_ok of f1 says about f2 *)
  assert (Hz2 : zget (m_rounds (st_mem st)) (f_id f2) = None).
  { destruct (Hco f2 Hin2 Hids Htok) as [[Hen _]|[_ Hz]]; [|exact Hz].
    exfalso. unfold feeder_ended in Hen. apply andb_prop in Hen. destruct Hen as [E1 E2].
    apply Z.ltb_lt in E1. apply Z.leb_le in E2. destruct Hend2 as [Hb|[Hb _]]; lia. }
  split.
  - unfold mg_inv. rewrite Htok. split; [exact Hwf|]. split; [exact Hnn|]. split; [exact Hinc|].
    assert (Eb2 : f_start f2 - 1 <? f_start f2 = true) by (apply Z.ltb_lt; lia). rewrite Eb2.
    split; [exact Hz2|]. rewrite Hnext, Hround.
    replace (f_end f1 - 1 - f_start f1) with (f_end f1 - f_start f1 - 1) by lia.
    rewrite (div_pred (f_end f1 - f_start f1) (f_interval f1)) by lia. reflexivity.
  - intros g Hing Hneg Htokg. rewrite Htok in Htokg. destruct (Honly g Hing Htokg) as [E|E]; [|subst g; contradiction].
    subst g. left. split; [exact Ee1|]. destruct Hq1 as [Hn|[r [Hr Hs]]]; [rewrite Hn; exact I | rewrite Hr; exact Hs].
Qed.

Theorem no_gap_successor p f1 f2 bl1 bl2 b st :
  successor p f1 f2 ->
  0 <= b -> b + Z.of_nat (List.length bl1) = f_start f2 - 1 ->
  f_start f2 - 1 + Z.of_nat (List.length bl2) < two64 ->
  clean_blocks p b st (bl1 ++ bl2) ->
  mg_inv p f1 b st -> zget (m_rounds (st_mem st)) (f_id f2) = None ->
  let st1 := run_blocks p b st bl1 in
  let st2 := run_blocks p b st (bl1 ++ bl2) in
  let b2 := f_start f2 - 1 + Z.of_nat (List.length bl2) in
  mg_inv p f1 (f_start f2 - 1) st1 /\ mg_inv p f2 b2 st2 /\
  nogap_state p f2 b2 (next_round_id (get_tp (st_store st2) (f_token f2))) false = true.
Proof.
  intros Hs Hb0 Hb1 Hb2 Hcl Hinv Hz. cbv zeta.
  destruct (clean_blocks_app p bl1 bl2 b st Hcl) as [Hc1 Hc2]. rewrite Hb1 in Hc2.
  pose proof Hs as [Hh1 Hh2 Hids Htok [He0 He1] Hround Honly].
  (* phase 1: the predecessor, the successor has no round before its start block *)
  assert (Hx1 : mgx_inv p f1 (f_start f2 - 1) b st).
  { split; [exact Hinv|]. intros g Hing Hneg Htokg. destruct (Honly g Hing Htokg) as [E|E]; [subst g; contradiction|].
    subst g. right. split; [lia | exact Hz]. }
  assert (Hlen : 0 <= Z.of_nat (List.length bl2)) by lia.
  assert (A1 : b + Z.of_nat (List.length bl1) < two64) by lia.
  assert (A2 : b + Z.of_nat (List.length bl1) <= f_start f2 - 1) by lia.
  pose proof (clean_blocks_inv p f1 (f_start f2 - 1) Hh1 bl1 b st Hb0 A1 A2 Hc1 Hx1) as P1.
  rewrite Hb1 in P1.
  (* hand-over, phase 2: the successor *)
  pose proof (handover p f1 f2 _ (f_start f2 - 1 + Z.of_nat (List.length bl2)) _ Hs P1) as Hx2.
  assert (Hs2pos : 0 <= f_start f2 - 1) by (destruct Hh2 as [_ _ _ _ Hst _]; lia).
  assert (A3 : f_start f2 - 1 + Z.of_nat (List.length bl2) <= f_start f2 - 1 + Z.of_nat (List.length bl2)) by lia.
  pose proof (clean_blocks_inv p f2 _ Hh2 bl2 (f_start f2 - 1) (run_blocks p b st bl1) Hs2pos Hb2 A3 Hc2 Hx2) as P2.
  rewrite run_blocks_app, Hb1.
  split; [exact (proj1 P1)|]. split; [exact (proj1 P2) | exact (mg_inv_nogap_state _ _ _ _ (proj1 P2))].
Qed.
