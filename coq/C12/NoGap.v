(* C12/NoGap.v — round numbering: for one feeder, over all block / transaction histories, the stored
   NextRoundID advances by exactly one per interval and every round is closed exactly once. *)
From Coq Require Import List String Bool ZArith Lia.
From Exo Require Import Base.Util Oracle.Model Oracle.Lemmas C12.Proofs.
Import ListNotations.
Local Open Scope Z_scope.

(* ---------- arithmetic of consecutive blocks ---------- *)
Lemma div_mod_succ d i :
  0 <= d -> 1 <= i ->
  ((d + 1) mod i = 0 /\ (d + 1) / i = d / i + 1 /\ d mod i = i - 1) \/
  ((d + 1) mod i <> 0 /\ (d + 1) / i = d / i /\ (d + 1) mod i = d mod i + 1).
Proof.
  intros Hd Hi. pose proof (Z.div_mod d i ltac:(lia)) as E. pose proof (Z.mod_pos_bound d i ltac:(lia)) as B.
  destruct (Z.eq_dec (d mod i + 1) i) as [Hr|Hr].
  - left. assert (Hq : d + 1 = i * (d / i + 1) + 0) by lia.
    assert ((d + 1) / i = d / i + 1) by (symmetry; apply (Z.div_unique (d + 1) i (d / i + 1) 0); lia).
    assert ((d + 1) mod i = 0) by (symmetry; apply (Z.mod_unique (d + 1) i (d / i + 1) 0); lia).
    lia.
  - right. assert (Hq : d + 1 = i * (d / i) + (d mod i + 1)) by lia.
    assert ((d + 1) / i = d / i) by (symmetry; apply (Z.div_unique (d + 1) i (d / i) (d mod i + 1)); lia).
    assert ((d + 1) mod i = d mod i + 1) by (symmetry; apply (Z.mod_unique (d + 1) i (d / i) (d mod i + 1)); lia).
    lia.
Qed.

Lemma usub_small a b : 0 <= a - b < two64 -> usub a b = a - b.
Proof. intro H. unfold usub. apply Z.mod_small. exact H. Qed.

(* ---------- price list well-formedness (entries carry their own key as round id) ---------- *)
Definition tp_wfi (t : tprices) : Prop := forall k x, In (k, x) (tp_list t) -> pt_round x = k.

Lemma tp_wfi_wf t : tp_wfi t -> tp_wf t.
Proof. intros H k x Hz. apply H. exact (zget_in _ _ _ Hz). Qed.

Lemma get_tp_prices s n tok : get_tp (mkStore (s_prices s) n) tok = get_tp s tok.
Proof. reflexivity. Qed.

Lemma append_price_wfi p s tok x :
  tp_wfi (get_tp s tok) -> pt_round x = next_round_id (get_tp s tok) ->
  tp_wfi (get_tp (fst (append_price p s tok x)) tok).
Proof.
  intros Hwf Hr. unfold append_price. rewrite Hr, Z.eqb_refl. simpl.
  rewrite get_tp_set_tp. intros k y Hin. simpl in Hin.
  assert (Hz : In (k, y) (zset (tp_list (get_tp s tok)) (next_round_id (get_tp s tok)) x)).
  { destruct (0 <? usub (next_round_id (get_tp s tok)) (p_max_size p)); [exact (in_zdel _ _ _ Hin) | exact Hin]. }
  destruct (in_zset _ _ _ _ Hz) as [E|E]; [inversion E; subst; exact Hr | exact (Hwf _ _ E)].
Qed.

Lemma append_price_next p s tok x :
  tp_nonneg (get_tp s tok) -> pt_round x = next_round_id (get_tp s tok) ->
  snd (append_price p s tok x) = true /\
  next_round_id (get_tp (fst (append_price p s tok x)) tok) = next_round_id (get_tp s tok) + 1 /\
  tp_nonneg (get_tp (fst (append_price p s tok x)) tok) /\
  s_nonces (fst (append_price p s tok x)) = s_nonces s.
Proof.
  intros Hnn Hr. pose proof (next_round_id_pos _ Hnn) as Hpos.
  unfold append_price. rewrite Hr, Z.eqb_refl. simpl. rewrite get_tp_set_tp.
  split; [reflexivity|]. split; [|split; [unfold tp_nonneg; simpl; lia | reflexivity]].
  unfold next_round_id at 1. simpl. destruct (next_round_id (get_tp s tok) + 1 =? 0) eqn:E; [apply Z.eqb_eq in E; lia | reflexivity].
Qed.

Lemma grow_round_full p s tok :
  tp_wfi (get_tp s tok) -> tp_nonneg (get_tp s tok) ->
  next_round_id (get_tp (grow_round p s tok) tok) = next_round_id (get_tp s tok) + 1 /\
  tp_wfi (get_tp (grow_round p s tok) tok) /\ tp_nonneg (get_tp (grow_round p s tok) tok).
Proof.
  intros Hwf Hnn. unfold grow_round.
  destruct (latest_price (get_tp s tok)) as [x|] eqn:Hl.
  - pose proof (latest_round _ _ (tp_wfi_wf _ Hwf) Hl) as Hn.
    set (y := mkPtr (pt_round x + 1) (pt_price x) (pt_dec x) (pt_ts x)).
    destruct (append_price_next p s tok y Hnn Hn) as [_ [H1 [H2 _]]].
    split; [exact H1|]. split; [exact (append_price_wfi p s tok y Hwf Hn) | exact H2].
  - set (y := mkPtr (next_round_id (get_tp s tok)) None 0 (-1)).
    destruct (append_price_next p s tok y Hnn eq_refl) as [_ [H1 [H2 _]]].
    split; [exact H1|]. split; [exact (append_price_wfi p s tok y Hwf eq_refl) | exact H2].
Qed.

(* ---------- shapes of create_price ---------- *)
Lemma create_price_nonfinal p now s m x s' m' res :
  create_price p now s m x = (s', m', res) -> res <> MsgFinal -> s' = s /\ m_rounds m' = m_rounds m.
Proof.
  intros H Hne. unfold create_price in H.
  destruct (check_timestamp now x); simpl in H; [|inversion H; subst; split; reflexivity].
  destruct (check_msg p m x); simpl in H; [|inversion H; subst; split; reflexivity].
  match type of H with context [w_sealed ?w] => destruct (w_sealed w) end; [inversion H; subst; split; reflexivity|].
  match type of H with context [worker_do ?a ?b ?c ?d ?e ?f] => destruct (worker_do a b c d e f) as [w1 filled] end.
  destruct filled; cbv beta iota in H; unfold negb in H; [|inversion H; subst; split; reflexivity].
  destruct (agg_aggregate p w1); try (inversion H; subst; split; reflexivity).
  destruct (zget (m_rounds m) (m_feeder x)); [|inversion H; subst; split; reflexivity].
  destruct (get_feeder p (m_feeder x)); [|inversion H; subst; split; reflexivity].
  match type of H with context [append_price ?a ?b ?c ?d] => destruct (append_price a b c d) end.
  inversion H; subst. contradiction Hne. reflexivity.
Qed.

Lemma create_price_final_shape p now s m x s' m' :
  create_price p now s m x = (s', m', MsgFinal) ->
  exists price r f0,
    zget (m_rounds m) (m_feeder x) = Some r /\ r_status r = 1 /\ get_feeder p (m_feeder x) = Some f0 /\
    m_rounds m' = zset (m_rounds m) (m_feeder x) (mkRound (r_base r) (r_next r) 2) /\
    let item := mkPtr (r_next r) (Some price) (match token_decimal p (f_token f0) with Some d => d | None => 0 end) (first_ts x) in
    s_prices s' = s_prices (if snd (append_price p s (f_token f0) item) then fst (append_price p s (f_token f0) item)
                            else grow_round p s (f_token f0)).
Proof.
  intro H. unfold create_price in H.
  destruct (check_timestamp now x); simpl in H; [|inversion H].
  destruct (check_msg p m x) eqn:Hcm; simpl in H; [|inversion H].
  match type of H with context [w_sealed ?w] => destruct (w_sealed w) end; [inversion H|].
  match type of H with context [worker_do ?a ?b ?c ?d ?e ?f] => destruct (worker_do a b c d e f) as [w1 filled] end.
  destruct filled; cbv beta iota in H; unfold negb in H; [|inversion H].
  destruct (agg_aggregate p w1) as [|price|]; try (inversion H; fail).
  destruct (zget (m_rounds m) (m_feeder x)) as [r|] eqn:Hr; [|inversion H].
  destruct (get_feeder p (m_feeder x)) as [f0|] eqn:Hf; [|inversion H].
  assert (Hst : r_status r = 1).
  { unfold check_msg in Hcm. apply andb_prop in Hcm. destruct Hcm as [_ Hcm]. rewrite Hr in Hcm.
    apply andb_prop in Hcm. destruct Hcm as [Hcm _]. apply andb_prop in Hcm. destruct Hcm as [Hcm _].
    apply andb_prop in Hcm. destruct Hcm as [Hcm _]. apply Z.eqb_eq. exact Hcm. }
  exists price, r, f0.
  destruct (append_price p s (f_token f0)
              (mkPtr (r_next r) (Some price) match token_decimal p (f_token f0) with Some d => d | None => 0 end (first_ts x))) as [s1 ok] eqn:Hap.
  inversion H; subst s' m'. split; [reflexivity|]. split; [exact Hst|]. split; [reflexivity|]. split; [reflexivity|].
  cbv zeta. rewrite Hap. simpl. destruct ok; reflexivity.
Qed.

Lemma ante_prices p s t s1 : ante p s t = Some s1 -> s_prices s1 = s_prices s.
Proof.
  unfold ante. destruct (tx_size_limit <? t_size t); [discriminate|]. destruct (t_pk_ok t); [|discriminate].
  destruct (t_sig_ok t); [|discriminate]. simpl. destruct (ante_nonces p (s_nonces s) (t_msgs t)); [|discriminate].
  intro H. inversion H. reflexivity.
Qed.

(* ---------- hypotheses and invariant ---------- *)
Record ng_hyp (p : params) (f : feeder) : Prop := mkNGH {
  h_single : p_feeders p = [f];
  h_mn : 1 <= p_max_nonce p;
  h_int : 2 * p_max_nonce p <= f_interval f;
  h_start : 1 <= f_start f;
  h_end : f_end f <= 0 \/ (f_start f < f_end f /\ p_max_nonce p <= (f_end f - f_start f) mod f_interval f) }.

Definition left_of (f : feeder) (b : Z) : Z := (b - f_start f) mod f_interval f.

Definition ng_inv (p : params) (f : feeder) (b : Z) (st : state) : Prop :=
  let t := get_tp (st_store st) (f_token f) in
  let m := st_mem st in
  tp_wfi t /\ tp_nonneg t /\
  if b <? f_start f then m_rounds m = [] /\ next_round_id t = f_start_round f
  else if feeder_ended f b then
    next_round_id t = f_start_round f + (f_end f - 1 - f_start f) / f_interval f + 1 /\
    (m_rounds m = [] \/ exists r, m_rounds m = [(f_id f, r)] /\ r_status r = 2)
  else
    exists status,
      m_rounds m = [(f_id f, mkRound (b - left_of f b) (round_id_at f b) status)] /\
      (status = 1 \/ status = 2) /\
      next_round_id t = round_id_at f b + (if status =? 1 then 0 else 1) /\
      (status = 1 -> left_of f b < p_max_nonce p).

Lemma get_feeder_single p f id f0 : p_feeders p = [f] -> get_feeder p id = Some f0 -> f0 = f /\ id = f_id f.
Proof.
  intros Hs H. unfold get_feeder in H. rewrite Hs in H. simpl in H.
  destruct (f_id f =? id) eqn:E; [|discriminate]. apply Z.eqb_eq in E. inversion H; subst f0. split; [reflexivity | symmetry; exact E].
Qed.

Lemma get_feeder_self p f : p_feeders p = [f] -> get_feeder p (f_id f) = Some f.
Proof. intro Hs. unfold get_feeder. rewrite Hs. simpl. rewrite Z.eqb_refl. reflexivity. Qed.

(* ---------- a single-message transaction keeps the invariant ---------- *)
Lemma ng_inv_same p f b st st' :
  s_prices (st_store st') = s_prices (st_store st) -> m_rounds (st_mem st') = m_rounds (st_mem st) ->
  ng_inv p f b st -> ng_inv p f b st'.
Proof.
  intros Hp Hr H. unfold ng_inv in *. unfold get_tp in *. rewrite Hp, Hr. exact H.
Qed.

Lemma tx_keeps_inv p f b now st t x st' a ok :
  ng_hyp p f -> ng_inv p f b st -> t_msgs t = [x] ->
  deliver_tx p now st t = (st', a, ok) -> ng_inv p f b st'.
Proof.
  intros Hh Hinv Hx H. unfold deliver_tx in H.
  destruct (ante p (st_store st) t) as [s1|] eqn:Ha; [|inversion H; subst; exact Hinv].
  pose proof (ante_prices _ _ _ _ Ha) as Hp1.
  rewrite Hx in H. simpl in H.
  destruct (create_price p now s1 (st_mem st) x) as [[s' m'] res] eqn:Hc.
  assert (Hnf : res <> MsgFinal -> ng_inv p f b st').
  { intro Hne. destruct (create_price_nonfinal _ _ _ _ _ _ _ _ Hc Hne) as [Hs Hr]. subst s'.
    destruct res; try (exfalso; apply Hne; reflexivity); inversion H; subst st';
      apply (ng_inv_same p f b st); simpl; auto. }
  destruct res; try (apply Hnf; discriminate).
  (* MsgFinal: the single message succeeded, the tx is committed *)
  inversion H; subst st'. clear H Hnf.
  destruct (create_price_final_shape _ _ _ _ _ _ _ Hc) as [price [r [f0 [Hr [Hst [Hf [Hm' Hs']]]]]]].
  destruct (get_feeder_single _ _ _ _ (h_single _ _ Hh) Hf) as [E1 E2]. subst f0. rewrite E2 in *.
  unfold ng_inv in Hinv. destruct Hinv as [Hwf [Hnn Hcase]].
  destruct (b <? f_start f) eqn:Eb.
  { destruct Hcase as [Hnil _]. rewrite Hnil in Hr. discriminate. }
  destruct (feeder_ended f b) eqn:Ee.
  { destruct Hcase as [_ [Hnil|[r2 [Hr2 Hs2]]]]; rewrite ?Hnil, ?Hr2 in Hr; simpl in Hr; [discriminate|].
    rewrite Z.eqb_refl in Hr. inversion Hr; subst r2. lia. }
  destruct Hcase as [status [Hrounds [Hstat [Hnext Hleft]]]].
  rewrite Hrounds in Hr. simpl in Hr. rewrite Z.eqb_refl in Hr. inversion Hr; subst r. simpl in Hst. subst status.
  simpl in Hnext. rewrite Z.add_0_r in Hnext.
  cbv zeta in Hs'. simpl in Hs'.
  set (item := mkPtr (round_id_at f b) (Some price) match token_decimal p (f_token f) with Some d => d | None => 0 end (first_ts x)) in *.
  assert (Hwf1 : tp_wfi (get_tp s1 (f_token f))) by (unfold get_tp in *; rewrite Hp1; exact Hwf).
  assert (Hnn1 : tp_nonneg (get_tp s1 (f_token f))) by (unfold get_tp in *; rewrite Hp1; exact Hnn).
  assert (Hitem : pt_round item = next_round_id (get_tp s1 (f_token f))).
  { unfold get_tp in *. rewrite Hp1. simpl. symmetry. exact Hnext. }
  destruct (append_price_next p s1 (f_token f) item Hnn1 Hitem) as [Hok [Hn2 [Hnn2 _]]].
  rewrite Hok in Hs'.
  pose proof (append_price_wfi p s1 (f_token f) item Hwf1 Hitem) as Hwf2.
  unfold ng_inv. simpl. unfold get_tp in *. rewrite Hs'. split; [exact Hwf2|]. split; [exact Hnn2|].
  rewrite Eb, Ee. exists 2. rewrite Hm', Hrounds. simpl. rewrite Z.eqb_refl. split; [reflexivity|].
  split; [right; reflexivity|]. split; [|intro; discriminate].
  rewrite Hn2. rewrite Hp1. simpl. lia.
Qed.

(* ---------- EndBlock on a memory with at most the feeder's own round ---------- *)
Definition closed_of (r : round) : round := mkRound (r_base r) (r_next r) 2.

(* rounds and failed tokens after SealRound when the only round is (f_id f, r) *)
Definition seal_rf (p : params) (f : feeder) (h : Z) (force : bool) (r : round) : list (Z * round) * list Z :=
  if r_status r =? 1 then
    let expired := feeder_ended f h in
    let oow := p_max_nonce p <=? usub h (r_base r) in
    if expired || oow || force then ((if expired then [] else [(f_id f, closed_of r)]), [f_token f])
    else ([(f_id f, r)], [])
  else ([(f_id f, r)], []).

Lemma seal_round_nil p h force m :
  m_rounds m = [] -> m_rounds (fst (fst (seal_round p h force m))) = [] /\ snd (fst (seal_round p h force m)) = [].
Proof. intro H. unfold seal_round. rewrite H. simpl. split; reflexivity. Qed.

Lemma seal_round_single p f h force m r :
  p_feeders p = [f] -> m_rounds m = [(f_id f, r)] ->
  m_rounds (fst (fst (seal_round p h force m))) = fst (seal_rf p f h force r) /\
  snd (fst (seal_round p h force m)) = snd (seal_rf p f h force r).
Proof.
  intros Hs Hr. unfold seal_round. rewrite Hr. simpl. unfold seal_one, seal_rf, feeder_ended. rewrite (get_feeder_self _ _ Hs).
  destruct (r_status r =? 1);
    [destruct (((0 <? f_end f) && (f_end f <=? h)) || (p_max_nonce p <=? usub h (r_base r)) || force);
       [destruct ((0 <? f_end f) && (f_end f <=? h))|]|];
    cbv zeta; simpl; rewrite ?Z.eqb_refl;
    repeat (match goal with
            | |- context [match zget ?w ?k with _ => _ end] => destruct (zget w k)
            | |- context [if w_sealed ?w then _ else _] => destruct (w_sealed w)
            end; simpl);
    split; reflexivity.
Qed.

(* the rounds produced by PrepareRoundEndBlock do not depend on the worker / fresh lists *)
Definition prepare_r (p : params) (h : Z) (f : feeder) (rounds : list (Z * round)) : list (Z * round) :=
  if feeder_ended f h || (h <? f_start f) then rounds
  else
    let left := (h - f_start f) mod f_interval f in
    let base := h - left in
    let next := f_start_round f + (h - f_start f) / f_interval f in
    match zget rounds (f_id f) with
    | None => if p_max_nonce p <=? left then zset rounds (f_id f) (mkRound base next 2)
              else zset rounds (f_id f) (mkRound base next 1)
    | Some r => if left =? 0 then zset rounds (f_id f) (mkRound base next 1)
                else if (r_status r =? 1) && (p_max_nonce p <=? left) then zset rounds (f_id f) (closed_of r)
                else rounds
    end.

Lemma prepare_one_rounds p h f rounds workers fresh :
  fst (fst (prepare_one p h (rounds, workers, fresh) f)) = prepare_r p h f rounds.
Proof.
  unfold prepare_one, prepare_r, feeder_ended.
  destruct (((0 <? f_end f) && (f_end f <=? h)) || (h <? f_start f)); [reflexivity|]. cbv zeta.
  destruct (zget rounds (f_id f)) as [r|].
  - destruct ((h - f_start f) mod f_interval f =? 0); [reflexivity|].
    destruct ((r_status r =? 1) && (p_max_nonce p <=? (h - f_start f) mod f_interval f)); reflexivity.
  - destruct (p_max_nonce p <=? (h - f_start f) mod f_interval f); reflexivity.
Qed.

Lemma prepare_round_single p f h m :
  p_feeders p = [f] -> 1 <= h -> m_rounds (fst (prepare_round p h m)) = prepare_r p h f (m_rounds m).
Proof.
  intros Hs Hh. unfold prepare_round. destruct (h <? 1) eqn:E; [apply Z.ltb_lt in E; lia|].
  rewrite Hs. unfold fold_left.
  pose proof (prepare_one_rounds p h f (m_rounds m) (m_workers m) []) as H.
  destruct (prepare_one p h (m_rounds m, m_workers m, []) f) as [[rounds workers] fresh]. simpl in *. exact H.
Qed.

(* rounds and prices after EndBlock *)
Lemma end_block_shape p f h u st :
  p_feeders p = [f] -> 1 <= h ->
  let force := match u with [] => false | _ => true end in
  (m_rounds (st_mem st) = [] ->
     m_rounds (st_mem (end_block p h u st)) = prepare_r p h f [] /\
     s_prices (st_store (end_block p h u st)) = s_prices (st_store st)) /\
  (forall r, m_rounds (st_mem st) = [(f_id f, r)] ->
     m_rounds (st_mem (end_block p h u st)) = prepare_r p h f (fst (seal_rf p f h force r)) /\
     exists n1, s_prices (st_store (end_block p h u st)) =
                s_prices (fold_left (fun s tok => grow_round p s tok) (snd (seal_rf p f h force r))
                                    (mkStore (s_prices (st_store st)) n1))).
Proof.
  intros Hs Hh. cbv zeta. unfold end_block.
  set (force := match u with [] => false | _ => true end).
  set (m1 := if force then mkMem (fold_left apply_update u (m_vals (st_mem st)))
                                 (zsum (map snd (fold_left apply_update u (m_vals (st_mem st)))))
                                 (m_rounds (st_mem st)) (m_workers (st_mem st))
             else st_mem st).
  assert (H1 : m_rounds m1 = m_rounds (st_mem st)) by (unfold m1; destruct force; reflexivity).
  split.
  - intro Hnil. rewrite <- H1 in Hnil. destruct (seal_round_nil p h force m1 Hnil) as [Hr Hf].
    destruct (seal_round p h force m1) as [[m2 failed] sealed]. simpl in Hr, Hf. subst failed.
    pose proof (prepare_round_single p f h m2 Hs Hh) as Hp.
    destruct (prepare_round p h m2) as [m3 fresh]. simpl in *. rewrite Hp, Hr. split; reflexivity.
  - intros r Hr0. rewrite <- H1 in Hr0. destruct (seal_round_single p f h force m1 r Hs Hr0) as [Hr Hf].
    destruct (seal_round p h force m1) as [[m2 failed] sealed]. simpl in Hr, Hf.
    pose proof (prepare_round_single p f h m2 Hs Hh) as Hp.
    destruct (prepare_round p h m2) as [m3 fresh]. simpl in *. rewrite Hp, Hr. split; [reflexivity|].
    eexists. rewrite Hf. reflexivity.
Qed.

(* ---------- EndBlock keeps the invariant, one block further ---------- *)
Lemma ended_mono f b : feeder_ended f b = true -> feeder_ended f (b + 1) = true.
Proof.
  unfold feeder_ended. intro H. apply andb_prop in H. destruct H as [H1 H2]. apply Z.leb_le in H2.
  rewrite H1. simpl. apply Z.leb_le. lia.
Qed.

Lemma zset_single (fid : Z) (r r' : round) : zset [(fid, r)] fid r' = [(fid, r')].
Proof. simpl. rewrite Z.eqb_refl. reflexivity. Qed.

Lemma zget_single (fid : Z) (r : round) : zget [(fid, r)] fid = Some r.
Proof. simpl. rewrite Z.eqb_refl. reflexivity. Qed.

Lemma prices_fold_nil p s n1 : s_prices (fold_left (fun s tok => grow_round p s tok) [] (mkStore (s_prices s) n1)) = s_prices s.
Proof. reflexivity. Qed.

Lemma end_keeps_inv p f b u st :
  ng_hyp p f -> 0 <= b -> b + 1 < two64 -> ng_inv p f b st -> ng_inv p f (b + 1) (end_block p (b + 1) u st).
Proof.
  intros Hh Hb0 Hb1 Hinv. destruct Hh as [Hs Hmn Hint Hstart Hend].
  assert (Hi1 : 1 <= f_interval f) by lia.
  destruct (end_block_shape p f (b + 1) u st Hs ltac:(lia)) as [Snil Ssingle].
  set (force := match u with [] => false | _ => true end) in *.
  destruct Hinv as [Hwf [Hnn Hcase]].
  destruct (b <? f_start f) eqn:Eb.
  - (* the feeder has not started yet *)
    apply Z.ltb_lt in Eb. destruct Hcase as [Hnil Hnext]. destruct (Snil Hnil) as [Hr Hp].
    unfold ng_inv. unfold get_tp in *. rewrite Hp, Hr. split; [exact Hwf|]. split; [exact Hnn|].
    unfold prepare_r. destruct (b + 1 <? f_start f) eqn:Eh.
    + rewrite orb_true_r. split; [reflexivity | exact Hnext].
    + apply Z.ltb_ge in Eh. assert (Hst : b + 1 = f_start f) by lia.
      assert (Hne : feeder_ended f (b + 1) = false).
      { unfold feeder_ended. destruct Hend as [He|[He _]].
        - assert (0 <? f_end f = false) by (apply Z.ltb_ge; lia). rewrite H. reflexivity.
        - assert (f_end f <=? b + 1 = false) by (apply Z.leb_gt; lia). rewrite H. apply andb_false_r. }
      rewrite Hne. simpl. unfold left_of, round_id_at.
      replace (b + 1 - f_start f) with 0 by lia. rewrite Z.mod_0_l, Z.div_0_l by lia.
      assert (Hm0 : p_max_nonce p <=? 0 = false) by (apply Z.leb_gt; lia). rewrite Hm0.
      exists 1. simpl. rewrite Z.sub_0_r, Z.add_0_r. repeat split; auto; lia.
  - apply Z.ltb_ge in Eb.
    assert (Ebh : b + 1 <? f_start f = false) by (apply Z.ltb_ge; lia).
    destruct (feeder_ended f b) eqn:Ee.
    + (* the feeder has ended *)
      pose proof (ended_mono _ _ Ee) as Eeh. destruct Hcase as [Hnext Hrounds].
      unfold ng_inv. rewrite Ebh, Eeh.
      destruct Hrounds as [Hnil|[r [Hr Hst]]].
      * destruct (Snil Hnil) as [Hr' Hp]. unfold get_tp in *. rewrite Hp, Hr'. split; [exact Hwf|]. split; [exact Hnn|].
        split; [exact Hnext|]. left. unfold prepare_r. rewrite Eeh. reflexivity.
      * destruct (Ssingle r Hr) as [Hr' [n1 Hp]]. unfold seal_rf in Hr', Hp.
        assert (Hs1 : r_status r =? 1 = false) by (apply Z.eqb_neq; lia). rewrite Hs1 in Hr', Hp. simpl in Hr', Hp.
        unfold get_tp in *. rewrite Hp, Hr'. split; [exact Hwf|]. split; [exact Hnn|]. split; [exact Hnext|].
        right. exists r. unfold prepare_r. rewrite Eeh. split; [reflexivity | exact Hst].
    + (* the feeder is running *)
      destruct Hcase as [s0 [Hrounds [Hs0 [Hnext Hleft]]]].
      set (R := mkRound (b - left_of f b) (round_id_at f b) s0) in *.
      destruct (Ssingle R Hrounds) as [Hr' [n1 Hp]].
      assert (Hbase : 0 <= b + 1 - r_base R < two64).
      { simpl. unfold left_of. pose proof (Z.mod_pos_bound (b - f_start f) (f_interval f) ltac:(lia)) as Bm.
        pose proof (Z.mod_le (b - f_start f) (f_interval f) ltac:(lia) ltac:(lia)). lia. }
      assert (Husub : usub (b + 1) (r_base R) = left_of f b + 1).
      { rewrite (usub_small _ _ Hbase). simpl. lia. }
      pose proof (Z.mod_pos_bound (b - f_start f) (f_interval f) ltac:(lia)) as Bm. fold (left_of f b) in Bm.
      destruct (div_mod_succ (b - f_start f) (f_interval f) ltac:(lia) Hi1) as [[Hm0 [Hq Hml]]|[Hm0 [Hq Hml]]];
        replace (b - f_start f + 1) with (b + 1 - f_start f) in * by lia; fold (left_of f b) in Hml.
      all: unfold ng_inv; rewrite Ebh.
      all: set (st' := end_block p (b + 1) u st) in *.
      all: assert (Hgt : forall s2, s_prices (st_store st') = s_prices s2 ->
                          get_tp (st_store st') (f_token f) = get_tp s2 (f_token f))
             by (intros s2 E; unfold get_tp; rewrite E; reflexivity).
      all: remember (mkStore (s_prices (st_store st)) n1) as s0' eqn:Hs0'.
      all: assert (Hwf0 : tp_wfi (get_tp s0' (f_token f))) by (rewrite Hs0'; exact Hwf).
      all: assert (Hnn0 : tp_nonneg (get_tp s0' (f_token f))) by (rewrite Hs0'; exact Hnn).
      all: assert (Hnext0 : next_round_id (get_tp s0' (f_token f)) = round_id_at f b + (if s0 =? 1 then 0 else 1)) by (rewrite Hs0'; exact Hnext).
      all: destruct (grow_round_full p s0' (f_token f) Hwf0 Hnn0) as [G1 [G2 G3]].
      all: unfold seal_rf in Hr', Hp; unfold R in Hr', Hp, Husub; simpl r_status in Hr', Hp; simpl r_base in Hr', Hp, Husub;
           rewrite ?Husub in Hr', Hp.
      all: assert (Hridh : round_id_at f (b + 1) = f_start_round f + (b + 1 - f_start f) / f_interval f) by reflexivity.
      all: assert (Hridb : round_id_at f b = f_start_round f + (b - f_start f) / f_interval f) by reflexivity.
      all: assert (Hlh : left_of f (b + 1) = (b + 1 - f_start f) mod f_interval f) by reflexivity.
      { (* a new round starts at b+1: the previous one must already be closed *)
        assert (Hs2 : s0 = 2).
        { destruct Hs0 as [E|E]; [|exact E]. specialize (Hleft E). lia. }
        subst s0. simpl in Hr', Hp, Hnext0.
        rewrite (Hgt _ Hp). split; [exact Hwf0|]. split; [exact Hnn0|].
        destruct (feeder_ended f (b + 1)) eqn:Eeh.
        + (* cannot end exactly at a round start: (E - S) mod I >= MaxNonce >= 1 *)
          exfalso. unfold feeder_ended in Eeh, Ee. apply andb_prop in Eeh. destruct Eeh as [E1 E2].
          apply Z.ltb_lt in E1. apply Z.leb_le in E2. rewrite (proj2 (Z.ltb_lt _ _) E1) in Ee. simpl in Ee. apply Z.leb_gt in Ee.
          assert (f_end f = b + 1) by lia. destruct Hend as [He|[_ He]]; [lia|]. rewrite H in He. lia.
        + unfold prepare_r in Hr'. rewrite Eeh, Ebh in Hr'. simpl in Hr'. rewrite ?Z.eqb_refl in Hr'.
          rewrite Hm0 in Hr'. simpl in Hr'. rewrite ?Z.eqb_refl in Hr'.
          exists 1. rewrite Hr', Hlh, Hm0, Hridh, Hq. simpl. rewrite Z.sub_0_r.
          split; [reflexivity|]. split; [left; reflexivity|]. split; [rewrite Hnext0, Hridb; lia | intros _; lia].
      }
      { (* the same round continues *)
        assert (Hbaseh : b + 1 - left_of f (b + 1) = b - left_of f b) by (rewrite Hlh, Hml; lia).
        assert (Hridhb : round_id_at f (b + 1) = round_id_at f b) by (rewrite Hridh, Hridb, Hq; reflexivity).
        destruct Hs0 as [E|E]; subst s0; simpl in Hr', Hp, Hnext0.
        + (* open *)
          specialize (Hleft eq_refl).
          destruct (feeder_ended f (b + 1) || (p_max_nonce p <=? left_of f b + 1) || force) eqn:Eseal.
          * (* sealed now: the previous price is carried forward *)
            simpl in Hp. rewrite (Hgt _ Hp). split; [exact G2|]. split; [exact G3|].
            destruct (feeder_ended f (b + 1)) eqn:Eeh.
            -- simpl in Hr'. unfold prepare_r in Hr'. rewrite Eeh in Hr'. simpl in Hr'.
               split; [|left; exact Hr'].
               rewrite G1, Hnext0. unfold feeder_ended in Eeh, Ee. apply andb_prop in Eeh. destruct Eeh as [E1 E2].
               apply Z.leb_le in E2. rewrite E1 in Ee. simpl in Ee. apply Z.leb_gt in Ee.
               assert (Hfe : f_end f = b + 1) by lia. rewrite Hfe, Hridb. replace (b + 1 - 1 - f_start f) with (b - f_start f) by lia. lia.
            -- simpl in Hr'. unfold prepare_r in Hr'. rewrite Eeh, Ebh in Hr'. simpl in Hr'. rewrite ?Z.eqb_refl in Hr'.
               assert (Hz : (b + 1 - f_start f) mod f_interval f =? 0 = false) by (apply Z.eqb_neq; exact Hm0).
               rewrite Hz in Hr'. simpl in Hr'.
               exists 2. rewrite Hr', Hbaseh, Hridhb. unfold closed_of. simpl.
               split; [reflexivity|]. split; [right; reflexivity|]. split; [rewrite G1, Hnext0; lia | intro; discriminate].
          * (* still open *)
            apply orb_false_iff in Eseal. destruct Eseal as [Eseal Eforce]. apply orb_false_iff in Eseal. destruct Eseal as [Eeh Eoow].
            apply Z.leb_gt in Eoow. simpl in Hp. rewrite (Hgt _ Hp). split; [exact Hwf0|]. split; [exact Hnn0|].
            rewrite Eeh. simpl in Hr'. unfold prepare_r in Hr'. rewrite Eeh, Ebh in Hr'. simpl in Hr'. rewrite ?Z.eqb_refl in Hr'.
            assert (Hz : (b + 1 - f_start f) mod f_interval f =? 0 = false) by (apply Z.eqb_neq; exact Hm0).
            rewrite Hz in Hr'. rewrite Hml in Hr'.
            assert (Hz2 : p_max_nonce p <=? left_of f b + 1 = false) by (apply Z.leb_gt; lia).
            rewrite Hz2 in Hr'. simpl in Hr'.
            exists 1. rewrite Hr', Hbaseh, Hridhb. simpl.
            split; [reflexivity|]. split; [left; reflexivity|]. split; [rewrite Hnext0; lia | intros _; rewrite Hlh, Hml; lia].
        + (* already closed *)
          simpl in Hp. rewrite (Hgt _ Hp). split; [exact Hwf0|]. split; [exact Hnn0|].
          destruct (feeder_ended f (b + 1)) eqn:Eeh.
          * unfold prepare_r in Hr'. rewrite Eeh in Hr'. simpl in Hr'.
            split; [|right; eexists; split; [exact Hr' | reflexivity]].
            rewrite Hnext0. unfold feeder_ended in Eeh, Ee. apply andb_prop in Eeh. destruct Eeh as [E1 E2].
            apply Z.leb_le in E2. rewrite E1 in Ee. simpl in Ee. apply Z.leb_gt in Ee.
            assert (Hfe : f_end f = b + 1) by lia. rewrite Hfe, Hridb. replace (b + 1 - 1 - f_start f) with (b - f_start f) by lia. lia.
          * unfold prepare_r in Hr'. rewrite Eeh, Ebh in Hr'. simpl in Hr'. rewrite ?Z.eqb_refl in Hr'.
            assert (Hz : (b + 1 - f_start f) mod f_interval f =? 0 = false) by (apply Z.eqb_neq; exact Hm0).
            rewrite Hz in Hr'. simpl in Hr'.
            exists 2. rewrite Hr', Hbaseh, Hridhb. simpl.
            split; [reflexivity|]. split; [right; reflexivity|]. split; [rewrite Hnext0; lia | intro; discriminate].
      }
Qed.

(* ---------- histories: blocks of single-message transactions ---------- *)
(* one block = its transactions (each with the block time it runs at) and the validator-set update of EndBlock *)
Definition blk := (list (Z * tx) * list (Z * Z))%type.

Definition run_txs (p : params) (st : state) (txs : list (Z * tx)) : state :=
  fold_left (fun st nt => fst (fst (deliver_tx p (fst nt) st (snd nt)))) txs st.

Fixpoint run_blocks (p : params) (b : Z) (st : state) (bl : list blk) : state :=
  match bl with
  | [] => st
  | (txs, u) :: r => run_blocks p (b + 1) (end_block p (b + 1) u (run_txs p st txs)) r
  end.

Definition single_msg (t : tx) : Prop := exists x, t_msgs t = [x].

Lemma run_txs_inv p f b : ng_hyp p f -> forall txs st,
  Forall (fun nt => single_msg (snd nt)) txs -> ng_inv p f b st -> ng_inv p f b (run_txs p st txs).
Proof.
  intro Hh. induction txs as [|[now t] r IH]; intros st Hall Hinv; simpl; [exact Hinv|].
  inversion Hall as [|? ? [x Hx] Hr]; subst. apply IH; [exact Hr|].
  destruct (deliver_tx p now st t) as [[st' a] ok] eqn:Hd. simpl.
  exact (tx_keeps_inv p f b now st t x st' a ok Hh Hinv Hx Hd).
Qed.

Lemma run_blocks_inv p f : ng_hyp p f -> forall bl b st,
  0 <= b -> b + Z.of_nat (List.length bl) < two64 ->
  Forall (fun bk => Forall (fun nt => single_msg (snd nt)) (fst bk)) bl ->
  ng_inv p f b st -> ng_inv p f (b + Z.of_nat (List.length bl)) (run_blocks p b st bl).
Proof.
  intro Hh. induction bl as [|[txs u] r IH]; intros b st Hb0 Hb1 Hall Hinv.
  - simpl. rewrite Z.add_0_r. exact Hinv.
  - inversion Hall as [|? ? Htxs Hr]; subst. simpl fst in Htxs.
    change (run_blocks p b st ((txs, u) :: r)) with (run_blocks p (b + 1) (end_block p (b + 1) u (run_txs p st txs)) r).
    replace (b + Z.of_nat (List.length ((txs, u) :: r))) with (b + 1 + Z.of_nat (List.length r))
      by (simpl List.length; lia).
    assert (Hlen : b + 1 + Z.of_nat (List.length r) < two64) by (simpl List.length in Hb1; lia).
    apply IH; [lia | exact Hlen | exact Hr|].
    apply end_keeps_inv; [exact Hh | exact Hb0 | lia|].
    apply run_txs_inv; assumption.
Qed.

(* the invariant gives the closed form that the monitor evaluates on the implementation *)
Lemma ng_inv_nogap_state p f b st :
  ng_hyp p f -> ng_inv p f b st ->
  nogap_state p f b (next_round_id (get_tp (st_store st) (f_token f))) false = true.
Proof.
  intros Hh [_ [_ Hcase]]. unfold nogap_state.
  destruct (b <? f_start f); [reflexivity|].
  destruct (feeder_ended f b).
  - destruct Hcase as [Hn _]. apply Z.eqb_eq. exact Hn.
  - destruct Hcase as [s0 [_ [Hs0 [Hn Hl]]]]. fold (left_of f b). rewrite Hn. simpl.
    destruct Hs0 as [E|E]; subst s0; simpl.
    + specialize (Hl eq_refl). assert (Hz : p_max_nonce p <=? left_of f b = false) by (apply Z.leb_gt; lia).
      rewrite Hz. rewrite Z.add_0_r. rewrite Z.leb_refl. simpl.
      assert (Hz2 : round_id_at f b <=? round_id_at f b + 1 = true) by (apply Z.leb_le; lia). rewrite Hz2. reflexivity.
    + rewrite Z.leb_refl. assert (Hz2 : round_id_at f b <=? round_id_at f b + 1 = true) by (apply Z.leb_le; lia).
      rewrite Hz2. simpl. rewrite Z.eqb_refl. destruct (p_max_nonce p <=? left_of f b); reflexivity.
Qed.

(* a chain whose feeder has not started yet satisfies the invariant *)
Lemma ng_inv_before_start p f b st :
  b < f_start f -> m_rounds (st_mem st) = [] ->
  tp_wfi (get_tp (st_store st) (f_token f)) -> tp_nonneg (get_tp (st_store st) (f_token f)) ->
  next_round_id (get_tp (st_store st) (f_token f)) = f_start_round f -> ng_inv p f b st.
Proof.
  intros Hb Hr Hw Hn Hx. unfold ng_inv. split; [exact Hw|]. split; [exact Hn|].
  apply Z.ltb_lt in Hb. rewrite Hb. split; assumption.
Qed.
