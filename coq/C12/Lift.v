(* C12/Lift.v — lifting a worker invariant P (true of new workers, kept by worker.do) to the memory and to all
   histories; instantiated with (worker_inv /\ report-power invariant). *)
From Coq Require Import List String Bool ZArith Lia.
From Exo Require Import Base.Util Oracle.Model Oracle.Lemmas C12.Proofs.
Import ListNotations.
Local Open Scope Z_scope.

Section Lift.
  Variable p : params.
  Variable P : worker -> Prop.
  Hypothesis P_new : forall m, P (new_worker m).
  Hypothesis P_do : forall w c pw n items w' filled, P w -> worker_do p w c pw n items = (w', filled) -> P w'.

  Definition mem_invP (m : mem) : Prop := forall fid w, In (fid, w) (m_workers m) -> w_sealed w = false -> P w.

  Lemma mem_invP_set m fid w : mem_invP m -> (w_sealed w = false -> P w) -> mem_invP (set_worker m fid w).
  Proof.
    intros Hm Hw f2 w2 Hin Hs. simpl in Hin. destruct (in_zset _ _ _ _ Hin) as [E|E].
    - inversion E; subst. exact (Hw Hs).
    - exact (Hm _ _ E Hs).
  Qed.

  Lemma create_price_finalP now s m x s' m' :
    mem_invP m -> create_price p now s m x = (s', m', MsgFinal) ->
    exists w1 price, P w1 /\ agg_aggregate p w1 = AggFinal price /\
      exists r f, zget (m_rounds m) (m_feeder x) = Some r /\ get_feeder p (m_feeder x) = Some f /\
      let item := mkPtr (r_next r) (Some price) (match token_decimal p (f_token f) with Some d => d | None => 0 end) (first_ts x) in
      s_prices s' = s_prices (if snd (append_price p s (f_token f) item) then fst (append_price p s (f_token f) item)
                              else grow_round p s (f_token f)).
  Proof.
    intros Hm H. unfold create_price in H.
    destruct (check_timestamp now x); simpl in H; [|inversion H].
    destruct (check_msg p m x); simpl in H; [|inversion H].
    set (w0 := match zget (m_workers m) (m_feeder x) with Some w => w | None => new_worker m end) in *.
    assert (Hw0 : w_sealed w0 = false -> P w0).
    { unfold w0. destruct (zget (m_workers m) (m_feeder x)) as [w|] eqn:Hz.
      - intro Hs. exact (Hm _ _ (zget_in _ _ _ Hz) Hs).
      - intros _. apply P_new. }
    destruct (w_sealed w0) eqn:Es; [inversion H|].
    match type of H with context [worker_do ?a ?b ?c ?d ?e ?f] => destruct (worker_do a b c d e f) as [w1 filled] eqn:Hwd end.
    pose proof (P_do _ _ _ _ _ _ _ (Hw0 eq_refl) Hwd) as Hw1.
    destruct filled; cbv beta iota in H; unfold negb in H; [|inversion H].
    destruct (agg_aggregate p w1) as [|price|] eqn:Hagg; try (inversion H; fail).
    destruct (zget (m_rounds m) (m_feeder x)) as [r|] eqn:Hr; [|inversion H].
    destruct (get_feeder p (m_feeder x)) as [f|] eqn:Hf; [|inversion H].
    exists w1, price. split; [exact Hw1|]. split; [first [exact Hagg | reflexivity]|]. exists r, f. split; [first [exact Hr | reflexivity]|]. split; [first [exact Hf | reflexivity]|].
    destruct (append_price p s (f_token f)
                (mkPtr (r_next r) (Some price) match token_decimal p (f_token f) with Some d => d | None => 0 end (first_ts x))) as [s1 ok] eqn:Hap.
    inversion H; subst s' m'. cbv zeta. rewrite Hap. simpl. destruct ok; reflexivity.
  Qed.

  Lemma create_price_mem_invP now s m x s' m' r :
    mem_invP m -> create_price p now s m x = (s', m', r) -> mem_invP m'.
  Proof.
    intros Hm H. unfold create_price in H.
    destruct (check_timestamp now x); simpl in H; [|inversion H; subst; exact Hm].
    destruct (check_msg p m x); simpl in H; [|inversion H; subst; exact Hm].
    set (w0 := match zget (m_workers m) (m_feeder x) with Some w => w | None => new_worker m end) in *.
    assert (Hw0 : w_sealed w0 = false -> P w0).
    { unfold w0. destruct (zget (m_workers m) (m_feeder x)) as [w|] eqn:Hz.
      - intro Hs. exact (Hm _ _ (zget_in _ _ _ Hz) Hs).
      - intros _. apply P_new. }
    destruct (w_sealed w0) eqn:Es.
    - inversion H; subst. apply mem_invP_set; [exact Hm | intro E; rewrite E in Es; discriminate].
    - match type of H with context [worker_do ?a ?b ?c ?d ?e ?f] => destruct (worker_do a b c d e f) as [w1 filled] eqn:Hwd end.
      pose proof (P_do _ _ _ _ _ _ _ (Hw0 eq_refl) Hwd) as Hw1.
      assert (Hm1 : mem_invP (set_worker m (m_feeder x) w1)) by (apply mem_invP_set; [exact Hm | intros _; exact Hw1]).
      destruct filled; cbv beta iota in H; unfold negb in H; [|inversion H; subst; exact Hm1].
      destruct (agg_aggregate p w1); try (inversion H; subst; exact Hm1).
      destruct (zget (m_rounds m) (m_feeder x)); [|inversion H; subst; exact Hm1].
      destruct (get_feeder p (m_feeder x)); [|inversion H; subst; exact Hm1].
      match type of H with context [append_price ?a ?b ?c ?d] => destruct (append_price a b c d) end.
      inversion H; subst. apply mem_invP_set; [|intro E; discriminate E].
      intros f2 w2 Hin Hs. exact (Hm1 f2 w2 Hin Hs).
  Qed.

  Lemma run_msgs_mem_invP now : forall l s m so m', mem_invP m -> run_msgs p now s m l = (so, m') -> mem_invP m'.
  Proof.
    induction l as [|x r IH]; intros s m so m' Hm H; simpl in H.
    - inversion H; subst. exact Hm.
    - destruct (create_price p now s m x) as [[s1 m1] res] eqn:Hc.
      pose proof (create_price_mem_invP _ _ _ _ _ _ _ Hm Hc) as Hm1.
      destruct res; try (inversion H; subst; exact Hm1); exact (IH _ _ _ _ Hm1 H).
  Qed.

  Lemma deliver_tx_mem_invP now st t st' a b :
    mem_invP (st_mem st) -> deliver_tx p now st t = (st', a, b) -> mem_invP (st_mem st').
  Proof.
    intros Hm H. unfold deliver_tx in H. destruct (ante p (st_store st) t) as [s1|]; [|inversion H; subst; exact Hm].
    destruct (run_msgs p now s1 (st_mem st) (t_msgs t)) as [[s2|] m2] eqn:Hr;
      inversion H; subst; simpl; exact (run_msgs_mem_invP _ _ _ _ _ _ Hm Hr).
  Qed.

  Lemma end_block_mem_invP h u st : mem_invP (st_mem st) -> mem_invP (st_mem (end_block p h u st)).
  Proof.
    intro Hm. unfold end_block.
    set (m1 := if match u with [] => false | _ => true end
               then mkMem (fold_left apply_update u (m_vals (st_mem st)))
                          (zsum (map snd (fold_left apply_update u (m_vals (st_mem st)))))
                          (m_rounds (st_mem st)) (m_workers (st_mem st))
               else st_mem st).
    assert (H1 : m_workers m1 = m_workers (st_mem st)) by (unfold m1; destruct u; reflexivity).
    pose proof (seal_round_workers p h match u with [] => false | _ => true end m1) as H2.
    destruct (seal_round p h match u with [] => false | _ => true end m1) as [[m2 failed] sealed]. simpl in H2.
    pose proof (prepare_round_workers p h m2) as H3.
    destruct (prepare_round p h m2) as [m3 fresh]. simpl in *.
    intros fid w Hin Hs. apply (Hm fid w); [|exact Hs]. rewrite <- H1. apply H2. apply H3. exact Hin.
  Qed.

  Lemma run_mem_invP : forall ops st, mem_invP (st_mem st) -> mem_invP (st_mem (run p st ops)).
  Proof.
    induction ops as [|o r IH]; intros st Hm; simpl; [exact Hm|]. apply IH.
    destruct o as [now t|h u]; simpl.
    - destruct (deliver_tx p now st t) as [[st' a] b] eqn:Hd. simpl. exact (deliver_tx_mem_invP _ _ _ _ _ _ Hm Hd).
    - apply end_block_mem_invP. exact Hm.
  Qed.
End Lift.

(* ---------- the reporting power is the sum of the powers of pairwise different reporters ---------- *)
Definition rp_inv (w : worker) : Prop :=
  w_rpower w = zsum (map rp_power (w_reports w)) /\ NoDup (map rp_val (w_reports w)).

Lemma has_report_false l v : has_report l v = false -> ~ In v (map rp_val l).
Proof.
  induction l as [|r t IH]; simpl; [auto|]. intro H. apply orb_false_iff in H. destruct H as [H1 H2].
  apply Z.eqb_neq in H1. intros [E|E]; [congruence | exact (IH H2 E)].
Qed.

Lemma NoDup_snoc {A} (l : list A) x : NoDup l -> ~ In x l -> NoDup (l ++ [x]).
Proof.
  intros Hn Hx. induction Hn as [|a r Ha Hr IH]; simpl; [constructor; [auto | constructor]|].
  constructor.
  - intro Hin. apply in_app_or in Hin. destruct Hin as [Hin|[Hin|[]]]; [exact (Ha Hin)|]. subst. apply Hx. left. reflexivity.
  - apply IH. intro Hin. apply Hx. right. exact Hin.
Qed.

Lemma worker_do_rp p w c pw n items w' filled : rp_inv w -> worker_do p w c pw n items = (w', filled) -> rp_inv w'.
Proof.
  intros [H1 H2] H. unfold worker_do in H.
  pose proof (filtrate_fields p w c n items) as Hf.
  destruct (filtrate p w c n items) as [w1 kept]. simpl in Hf.
  destruct Hf as [_ [_ [_ [_ [_ [F6 [F7 _]]]]]]].
  assert (R1 : rp_inv w1) by (unfold rp_inv; rewrite F6, F7; split; assumption).
  destruct kept as [|k0 kr]; [inversion H; subst; exact R1|].
  assert (R2 : rp_inv (agg_fill w1 c pw (k0 :: kr))).
  { unfold agg_fill. destruct (has_report (w_reports w1) c) eqn:Hr; [exact R1|].
    destruct R1 as [A1 A2]. unfold rp_inv. simpl.
    assert (Hp : forall rep, rp_power rep = pw -> rp_val rep = c ->
                 w_rpower w1 + pw = zsum (map rp_power (w_reports w1 ++ [rep])) /\ NoDup (map rp_val (w_reports w1 ++ [rep]))).
    { intros rep Hp1 Hp2. rewrite !map_app, zsum_app. simpl. rewrite Hp1, Hp2. split; [lia|].
      apply NoDup_snoc; [exact A2 | exact (has_report_false _ _ Hr)]. }
    destruct (w_ds w1); [destruct (last_priced (w_reports w1) None) as [[[x d] t]|]|]; apply Hp; reflexivity. }
  set (w2 := agg_fill w1 c pw (k0 :: kr)) in *.
  destruct (calc_fill p w2 (k0 :: kr) pw) as [cr conf].
  destruct conf as [[[d x] ts]|]; inversion H; subst w'; [|exact R2].
  unfold confirm_ds. simpl.
  match goal with |- context [if negb ?b then _ else _] => destruct b end; simpl; [|exact R2].
  destruct R2 as [A1 A2]. unfold rp_inv. simpl. rewrite !map_map. simpl. split; assumption.
Qed.

Lemma new_worker_rp m : rp_inv (new_worker m).
Proof. unfold rp_inv. simpl. split; [reflexivity | constructor]. Qed.

Definition winv2 (p : params) (w : worker) : Prop := worker_inv p w /\ rp_inv w.

Lemma winv2_new p m : winv2 p (new_worker m).
Proof. split; [apply new_worker_inv | apply new_worker_rp]. Qed.

Lemma winv2_do p w c pw n items w' filled : winv2 p w -> worker_do p w c pw n items = (w', filled) -> winv2 p w'.
Proof. intros [H1 H2] H. split; [exact (worker_do_inv _ _ _ _ _ _ _ _ H1 H) | exact (worker_do_rp _ _ _ _ _ _ _ _ H2 H)]. Qed.
