(* C12/Final.v - the proofs of the theorems stated in C12/Props.v that combine several lemmas. *)
From Coq Require Import List String Bool ZArith Lia Sorting.Sorted Sorting.Permutation.
From Exo Require Import Base.Util Oracle.Model Oracle.Lemmas C12.Proofs C12.Lift C12.Agree C12.NoGap C12.Retention C13.Budget C12.NoGapMulti C12.NoGapClean C12.NoGapChain.
Import ListNotations.
Local Open Scope Z_scope.

Lemma C12_threshold_median_l : forall p st0 ops now s x s' m',
  m_workers (st_mem st0) = [] ->
  create_price p now s (st_mem (run p st0 ops)) x = (s', m', MsgFinal) ->
  exists w1 price r f,
    exceeds p (w_rpower w1) (w_total w1) = true /\
    w_rpower w1 = zsum (map rp_power (w_reports w1)) /\ NoDup (map rp_val (w_reports w1)) /\
    (exists d c, w_ds w1 = Some d /\ In c (crounds_of w1) /\ cr_det c = d /\ cr_price c = Some price /\
                 (exists pw, In (price, pw) (cr_prices c) /\ exceeds p pw (w_total w1) = true) /\
                 (exists vs, all_some (map report_value (w_reports w1)) = Some vs /\ median vs = Some price /\
                             Forall (fun y => y = price) vs /\ vs <> [])) /\
    zget (m_rounds (st_mem (run p st0 ops))) (m_feeder x) = Some r /\ r_status r = 1 /\
    get_feeder p (m_feeder x) = Some f /\
    zget (m_rounds m') (m_feeder x) = Some (mkRound (r_base r) (r_next r) 2) /\
    let item := mkPtr (r_next r) (Some price) (match token_decimal p (f_token f) with Some d => d | None => 0 end) (first_ts x) in
    let s2 := if snd (append_price p s (f_token f) item) then fst (append_price p s (f_token f) item)
              else grow_round p s (f_token f) in
    s_prices s' = s_prices s2.
Proof.
  intros p st0 ops now s x s' m' H0 H.
  assert (Hm0 : mem_invP (winv2 p) (st_mem st0)) by (intros fid w Hin; rewrite H0 in Hin; contradiction).
  pose proof (run_mem_invP p (winv2 p) (winv2_new p) (winv2_do p) ops st0 Hm0) as Hm.
  destruct (create_price_finalP p (winv2 p) (winv2_new p) (winv2_do p) _ _ _ _ _ _ Hm H)
    as [w1 [price [[Hw Hrp] [Hagg [r [f [Hr [Hf Hs']]]]]]]].
  destruct (create_price_final_shape _ _ _ _ _ _ _ H) as [price' [r' [f' [Hr' [Hst [Hf' [Hm' _]]]]]]].
  rewrite Hr in Hr'. inversion Hr'; subst r'.
  destruct (agg_final_spec _ _ _ Hw Hagg) as [He Hd]. destruct Hrp as [Hrp1 Hrp2].
  exists w1, price, r, f. split; [exact He|]. split; [exact Hrp1|]. split; [exact Hrp2|]. split; [exact Hd|].
  split; [exact Hr|]. split; [exact Hst|]. split; [exact Hf|]. split.
  - rewrite Hm'. apply zget_zset_same.
  - exact Hs'.
Qed.

Lemma C12_retention_partial_l : forall p s tok x,
  1 <= p_max_size p < two64 -> tp_nonneg (get_tp s tok) -> next_round_id (get_tp s tok) < two64 ->
  tp_window p (get_tp s tok) ->
  zlen (tp_list (get_tp s tok)) <= p_max_size p /\
  tp_window p (get_tp (fst (append_price p s tok x)) tok) /\
  zlen (tp_list (get_tp (fst (append_price p s tok x)) tok)) <= p_max_size p /\
  tp_window p (get_tp (grow_round p s tok) tok) /\
  zlen (tp_list (get_tp (grow_round p s tok) tok)) <= p_max_size p.
Proof.
  intros p s tok x Hm Hnn Hn Hw.
  pose proof (append_price_window p s tok x Hm Hnn Hn Hw) as H1.
  pose proof (grow_round_window p s tok Hm Hnn Hn Hw) as H2.
  split; [apply tp_window_length; [lia | exact Hw]|]. split; [exact H1|].
  split; [apply tp_window_length; [lia | exact H1]|]. split; [exact H2|]. apply tp_window_length; [lia | exact H2].
Qed.

Lemma C12_no_gap_single_feeder_partial_l : forall p f bl b st,
  ng_hyp p f -> 0 <= b -> b + Z.of_nat (List.length bl) < two64 ->
  Forall (fun bk => Forall (fun nt => single_msg (snd nt)) (fst bk)) bl ->
  ng_inv p f b st ->
  let b' := b + Z.of_nat (List.length bl) in
  let st' := run_blocks p b st bl in
  ng_inv p f b' st' /\
  nogap_state p f b' (next_round_id (get_tp (st_store st') (f_token f))) false = true.
Proof.
  intros p f bl b st Hh Hb0 Hb1 Hall Hinv. cbv zeta.
  pose proof (run_blocks_inv p f Hh bl b st Hb0 Hb1 Hall Hinv) as H.
  split; [exact H | exact (ng_inv_nogap_state _ _ _ _ Hh H)].
Qed.

Lemma C12_no_gap_partial_l : forall p f H0 bl b st,
  mg_hyp p f -> 0 <= b -> b + Z.of_nat (List.length bl) < two64 -> b + Z.of_nat (List.length bl) <= H0 ->
  Forall (fun bk => Forall (fun nt => single_msg (snd nt)) (fst bk)) bl ->
  mgx_inv p f H0 b st ->
  let b' := b + Z.of_nat (List.length bl) in
  let st' := run_blocks p b st bl in
  mgx_inv p f H0 b' st' /\
  nogap_state p f b' (next_round_id (get_tp (st_store st') (f_token f))) false = true.
Proof.
  intros p f H0 bl b st Hh Hb0 Hb1 HbH Hall Hinv. cbv zeta.
  pose proof (mg_run_blocks_inv p f H0 Hh bl b st Hb0 Hb1 HbH Hall Hinv) as H.
  split; [exact H | exact (mg_inv_nogap_state _ _ _ _ (proj1 H))].
Qed.

Lemma C12_no_gap_clean_histories_l : forall p f H0 bl b st,
  mg_hyp p f -> 0 <= b -> b + Z.of_nat (List.length bl) < two64 -> b + Z.of_nat (List.length bl) <= H0 ->
  clean_blocks p b st bl -> mgx_inv p f H0 b st ->
  let b' := b + Z.of_nat (List.length bl) in
  let st' := run_blocks p b st bl in
  mgx_inv p f H0 b' st' /\
  nogap_state p f b' (next_round_id (get_tp (st_store st') (f_token f))) false = true.
Proof.
  intros p f H0 bl b st Hh Hb0 Hb1 HbH Hcl Hinv. cbv zeta.
  pose proof (clean_blocks_inv p f H0 Hh bl b st Hb0 Hb1 HbH Hcl Hinv) as H.
  split; [exact H | exact (mg_inv_nogap_state _ _ _ _ (proj1 H))].
Qed.

(* with pairwise different tokens nothing shares f's token *)
Lemma co_ok_distinct_l : forall p f H0 b m,
  In f (p_feeders p) -> NoDup (map f_token (p_feeders p)) -> co_ok p f H0 b m.
Proof.
  intros p f H0 b m Hin Hnd g Hing Hne Htok. exfalso. apply Hne.
  rewrite (nodup_map_inj f_token _ g f Hnd Hing Hin Htok). reflexivity.
Qed.

(* the panic outcomes of the model (nil price in a report slot, empty median, missing round / feeder after checkMsg)
   are unreachable *)
Lemma agg_no_panic p w : worker_inv p w -> agg_aggregate p w <> AggPanic.
Proof.
  intros [I1 I2 I3 I4]. unfold agg_aggregate. rewrite I1.
  destruct (exceeds p (w_rpower w) (w_total w)); [|discriminate].
  destruct (w_ds w) as [d|] eqn:Hd; [|discriminate].
  destruct (I4 d eq_refl) as [Hne [c [y [_ [_ [_ Hall]]]]]].
  assert (Hvs : all_some (map report_value (w_reports w)) = Some (map (fun _ => y) (w_reports w))).
  { clear -Hall. induction Hall as [|r t Hr Ht IH]; simpl; [reflexivity|].
    unfold report_value at 1. rewrite Hr. simpl. rewrite IH. reflexivity. }
  rewrite Hvs.
  assert (Hne' : map (fun _ : report => y) (w_reports w) <> []) by (intro E; apply map_eq_nil in E; contradiction).
  destruct (median_nonempty _ Hne') as [x Hx]. rewrite Hx. discriminate.
Qed.

Lemma create_price_no_panic_l : forall p st0 ops now s x s' m',
  m_workers (st_mem st0) = [] -> create_price p now s (st_mem (run p st0 ops)) x <> (s', m', MsgPanic).
Proof.
  intros p st0 ops now s x s' m' H0 H.
  pose proof (run_mem_inv p ops st0 (no_workers_inv p _ H0)) as Hm.
  set (m := st_mem (run p st0 ops)) in *. unfold create_price in H.
  destruct (check_timestamp now x); simpl in H; [|inversion H].
  destruct (check_msg p m x) eqn:Hcm; simpl in H; [|inversion H].
  set (w0 := match zget (m_workers m) (m_feeder x) with Some w => w | None => new_worker m end) in *.
  assert (Hw0 : w_sealed w0 = false -> worker_inv p w0).
  { unfold w0. destruct (zget (m_workers m) (m_feeder x)) as [w|] eqn:Hz.
    - intro Hs. exact (Hm _ _ (zget_in _ _ _ Hz) Hs).
    - intros _. apply new_worker_inv. }
  destruct (w_sealed w0) eqn:Es; [inversion H|].
  match type of H with context [worker_do ?a ?b ?c ?d ?e ?f] => destruct (worker_do a b c d e f) as [w1 filled] eqn:Hwd end.
  pose proof (worker_do_inv _ _ _ _ _ _ _ _ (Hw0 eq_refl) Hwd) as Hw1.
  destruct filled; cbv beta iota in H; unfold negb in H; [|inversion H].
  pose proof (agg_no_panic p w1 Hw1) as Hnp.
  destruct (agg_aggregate p w1) as [|price|]; [inversion H| |exfalso; apply Hnp; reflexivity].
  (* checkMsg guarantees the round and the feeder exist *)
  unfold check_msg in Hcm. apply andb_prop in Hcm. destruct Hcm as [_ Hcm].
  destruct (zget (m_rounds m) (m_feeder x)) as [r|]; [|discriminate].
  apply andb_prop in Hcm. destruct Hcm as [_ Hcm].
  destruct (get_feeder p (m_feeder x)) as [f|]; [|discriminate].
  match type of H with context [append_price ?a ?b ?c ?d] => destruct (append_price a b c d) end. inversion H.
Qed.
