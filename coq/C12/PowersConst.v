(* C12/PowersConst.v — validator powers are constant during a round: over all histories, every unsealed worker whose
   round is open was created with the CURRENT total power and every report in it carries the CURRENT power of its
   validator (a validator-set change drops the workers of all open rounds in the same EndBlock). *)
From Coq Require Import List String Bool ZArith Lia.
From Exo Require Import Base.Util Oracle.Model Oracle.Lemmas C12.Proofs C12.Lift C12.NoGap C12.Retention C13.Budget C12.NoGapMulti.
Import ListNotations.
Local Open Scope Z_scope.

Definition good (vals : list (Z * Z)) (total : Z) (w : worker) : Prop :=
  w_total w = total /\ Forall (fun rp => zget vals (rp_val rp) = Some (rp_power rp)) (w_reports w).

Record jinv (p : params) (vals : list (Z * Z)) (total : Z) (R : list (Z * round)) (W : list (Z * worker)) : Prop := mkJ {
  j_keys : inc_keys R /\ inc_keys W;
  j_feed : forall k r, zget R k = Some r -> get_feeder p k <> None;
  j_round : forall k w, zget W k = Some w -> zget R k <> None;
  j_good : forall k w r, zget W k = Some w -> w_sealed w = false -> zget R k = Some r -> r_status r = 1 -> good vals total w }.

Definition no_open (R : list (Z * round)) : Prop := forall k r, zget R k = Some r -> r_status r <> 1.

Lemma jinv_no_open p vals total vals' total' R W : jinv p vals total R W -> no_open R -> jinv p vals' total' R W.
Proof.
  intros [J1 J2 J3 J4] Hn. constructor; auto. intros k w r Hw Hs Hr Hst. exfalso. exact (Hn k r Hr Hst).
Qed.

(* ---- SealRound: rounds and workers ---- *)
Definition seal_one_rw (p : params) (h : Z) (force : bool) (acc : list (Z * round) * list (Z * worker)) (fr : Z * round)
  : list (Z * round) * list (Z * worker) :=
  let '(R, W) := acc in
  let '(g, r) := fr in
  let '(R1, W1) :=
    if r_status r =? 1 then
      match get_feeder p g with
      | Some f0 =>
          if feeder_ended f0 h || (p_max_nonce p <=? usub h (r_base r)) || force
          then ((if feeder_ended f0 h then zdel R g else zset R g (closed_of r)), zdel W g)
          else (R, W)
      | None => (R, W)
      end
    else (R, W) in
  match zget W1 g with
  | Some w => if w_sealed w then (R1, zdel W1 g) else (R1, W1)
  | None => (R1, W1)
  end.

Definition proj_rw (a : list (Z * round) * list (Z * worker) * list Z * list Z) : list (Z * round) * list (Z * worker) :=
  (fst (fst (fst a)), snd (fst (fst a))).

Lemma seal_one_proj_rw p h force a fr : proj_rw (seal_one p h force a fr) = seal_one_rw p h force (proj_rw a) fr.
Proof.
  destruct a as [[[R W] F] S]. destruct fr as [g r]. unfold seal_one, seal_one_rw, proj_rw, feeder_ended. simpl.
  destruct (r_status r =? 1);
    [destruct (get_feeder p g) as [f0|];
       [destruct (((0 <? f_end f0) && (f_end f0 <=? h)) || (p_max_nonce p <=? usub h (r_base r)) || force);
          [destruct ((0 <? f_end f0) && (f_end f0 <=? h))|]|]|];
    cbv zeta; simpl;
    repeat (match goal with
            | |- context [match zget ?w ?k with _ => _ end] => destruct (zget w k)
            | |- context [if w_sealed ?w then _ else _] => destruct (w_sealed w)
            end; simpl);
    reflexivity.
Qed.

Lemma seal_fold_proj_rw p h force : forall l a,
  proj_rw (fold_left (seal_one p h force) l a) = fold_left (seal_one_rw p h force) l (proj_rw a).
Proof. induction l as [|fr r IH]; intro a; [reflexivity|]. rewrite !fold_step, IH, seal_one_proj_rw. reflexivity. Qed.

(* deleting / closing one key keeps the invariant *)
Lemma zget_zdel {V} (l : list (Z * V)) k k2 : inc_keys l -> zget (zdel l k) k2 = if k2 =? k then None else zget l k2.
Proof.
  intro Hi. destruct (k2 =? k) eqn:E.
  - apply Z.eqb_eq in E. subst. apply zget_zdel_same. exact Hi.
  - apply Z.eqb_neq in E. apply zget_zdel_other. exact E.
Qed.

Lemma jinv_close p vals total R W g r :
  jinv p vals total R W -> zget R g = Some r ->
  jinv p vals total (zset R g (closed_of r)) (zdel W g).
Proof.
  intros [[K1 K2] J2 J3 J4] Hr. constructor.
  - split; [apply inc_keys_zset; exact K1 | apply inc_keys_zdel; exact K2].
  - intros k r0 H. rewrite zget_zset in H. destruct (k =? g) eqn:E; [apply Z.eqb_eq in E; subst k; exact (J2 g r Hr) | exact (J2 k r0 H)].
  - intros k w H. rewrite (zget_zdel W g k K2) in H. destruct (k =? g) eqn:E; [discriminate|].
    rewrite zget_zset, E. exact (J3 k w H).
  - intros k w r0 Hw Hs Hr0 Hst. rewrite (zget_zdel W g k K2) in Hw. destruct (k =? g) eqn:E; [discriminate|].
    rewrite zget_zset, E in Hr0. exact (J4 k w r0 Hw Hs Hr0 Hst).
Qed.

Lemma jinv_delete p vals total R W g :
  jinv p vals total R W -> jinv p vals total (zdel R g) (zdel W g).
Proof.
  intros [[K1 K2] J2 J3 J4]. constructor.
  - split; apply inc_keys_zdel; assumption.
  - intros k r0 H. rewrite (zget_zdel R g k K1) in H. destruct (k =? g); [discriminate | exact (J2 k r0 H)].
  - intros k w H. rewrite (zget_zdel W g k K2) in H. rewrite (zget_zdel R g k K1). destruct (k =? g); [discriminate | exact (J3 k w H)].
  - intros k w r0 Hw Hs Hr0 Hst. rewrite (zget_zdel W g k K2) in Hw. rewrite (zget_zdel R g k K1) in Hr0.
    destruct (k =? g); [discriminate | exact (J4 k w r0 Hw Hs Hr0 Hst)].
Qed.

Lemma jinv_drop_worker p vals total R W g :
  jinv p vals total R W -> jinv p vals total R (zdel W g).
Proof.
  intros [[K1 K2] J2 J3 J4]. constructor; auto.
  - split; [exact K1 | apply inc_keys_zdel; exact K2].
  - intros k w H. rewrite (zget_zdel W g k K2) in H. destruct (k =? g); [discriminate | exact (J3 k w H)].
  - intros k w r0 Hw Hs Hr0 Hst. rewrite (zget_zdel W g k K2) in Hw. destruct (k =? g); [discriminate | exact (J4 k w r0 Hw Hs Hr0 Hst)].
Qed.

Lemma seal_step_j p vals total h force R W g r :
  jinv p vals total R W -> zget R g = Some r ->
  let res := seal_one_rw p h force (R, W) (g, r) in
  jinv p vals total (fst res) (snd res) /\
  (forall k, k <> g -> zget (fst res) k = zget R k) /\
  (force = true -> forall r', zget (fst res) g = Some r' -> r_status r' <> 1).
Proof.
  intros HJ Hr. unfold seal_one_rw.
  assert (Hfeed : get_feeder p g <> None) by exact (j_feed _ _ _ _ _ HJ g r Hr).
  set (X := if r_status r =? 1 then
              match get_feeder p g with
              | Some f0 => if feeder_ended f0 h || (p_max_nonce p <=? usub h (r_base r)) || force
                           then ((if feeder_ended f0 h then zdel R g else zset R g (closed_of r)), zdel W g) else (R, W)
              | None => (R, W) end
            else (R, W)).
  assert (HX : jinv p vals total (fst X) (snd X) /\ (forall k, k <> g -> zget (fst X) k = zget R k) /\
               (force = true -> forall r', zget (fst X) g = Some r' -> r_status r' <> 1)).
  { unfold X. destruct (r_status r =? 1) eqn:Est.
    - destruct (get_feeder p g) as [f0|]; [|contradiction].
      destruct (feeder_ended f0 h || (p_max_nonce p <=? usub h (r_base r)) || force) eqn:Ec.
      + destruct (feeder_ended f0 h); simpl.
        * split; [apply jinv_delete; exact HJ|]. split; [intros k Hk; apply zget_zdel_other; exact Hk|].
          intros _ r' Hr'. rewrite (zget_zdel_same R g (proj1 (j_keys _ _ _ _ _ HJ))) in Hr'. discriminate.
        * split; [apply jinv_close; assumption|]. split; [intros k Hk; apply zget_zset_other; exact Hk|].
          intros _ r' Hr'. rewrite zget_zset_same in Hr'. inversion Hr'; subst. simpl. lia.
      + simpl. split; [exact HJ|]. split; [reflexivity|]. intro Hf. subst force. rewrite orb_true_r in Ec. discriminate.
    - simpl. split; [exact HJ|]. split; [reflexivity|]. intros _ r' Hr'. rewrite Hr in Hr'. inversion Hr'; subst.
      apply Z.eqb_neq in Est. exact Est. }
  destruct X as [R1 W1]. simpl in HX. destruct HX as [HJ1 [Hoth Hforce]].
  destruct (zget W1 g) as [w|]; [destruct (w_sealed w)|]; simpl; (split; [|split; assumption]); try exact HJ1.
  apply jinv_drop_worker. exact HJ1.
Qed.

Lemma seal_fold_j p vals total h force : forall l R W,
  jinv p vals total R W -> inc_keys l -> (forall g r, In (g, r) l -> zget R g = Some r) ->
  let res := fold_left (seal_one_rw p h force) l (R, W) in
  jinv p vals total (fst res) (snd res) /\
  (forall k, (forall r, ~ In (k, r) l) -> zget (fst res) k = zget R k) /\
  (force = true -> forall k r r', In (k, r) l -> zget (fst res) k = Some r' -> r_status r' <> 1).
Proof.
  induction l as [|[g r0] t IH]; intros R W HJ Hl Hcur.
  - simpl. split; [exact HJ|]. split; [reflexivity | intros _ k r r' []].
  - cbv zeta. rewrite fold_step. destruct Hl as [Hlt Hl'].
    destruct (seal_step_j p vals total h force R W g r0 HJ (Hcur g r0 (or_introl eq_refl))) as [S1 [S2 S3]].
    destruct (seal_one_rw p h force (R, W) (g, r0)) as [R1 W1]. simpl in S1, S2, S3.
    assert (Hcur1 : forall g' r', In (g', r') t -> zget R1 g' = Some r').
    { intros g' r' Hin. rewrite S2; [apply Hcur; right; exact Hin|]. pose proof (Hlt _ _ Hin). lia. }
    destruct (IH R1 W1 S1 Hl' Hcur1) as [I1 [I2 I3]].
    assert (Hg_not : forall r, ~ In (g, r) t) by (intros r Hin; pose proof (Hlt _ _ Hin); lia).
    split; [exact I1|]. split.
    + intros k Hno. rewrite I2; [|intros r Hin; apply (Hno r); right; exact Hin].
      apply S2. intro E. subst k. apply (Hno r0). left. reflexivity.
    + intros Hf k r r' [Hin|Hin] Hz.
      * inversion Hin; subst k r. rewrite (I2 g Hg_not) in Hz. exact (S3 Hf r' Hz).
      * exact (I3 Hf k r r' Hin Hz).
Qed.

(* ---- PrepareRoundEndBlock: rounds and workers ---- *)
Definition prepare_w (p : params) (h : Z) (f : feeder) (R : list (Z * round)) (W : list (Z * worker)) : list (Z * worker) :=
  if feeder_ended f h || (h <? f_start f) then W
  else match zget R (f_id f) with
       | Some _ => if (h - f_start f) mod f_interval f =? 0 then zdel W (f_id f) else W
       | None => W
       end.

Lemma prepare_one_rw p h f R W Fr :
  fst (prepare_one p h (R, W, Fr) f) = (prepare_r p h f R, prepare_w p h f R W).
Proof.
  unfold prepare_one, prepare_r, prepare_w, feeder_ended.
  destruct (((0 <? f_end f) && (f_end f <=? h)) || (h <? f_start f)); [reflexivity|]. cbv zeta.
  destruct (zget R (f_id f)) as [r|].
  - destruct ((h - f_start f) mod f_interval f =? 0); [reflexivity|].
    destruct ((r_status r =? 1) && (p_max_nonce p <=? (h - f_start f) mod f_interval f)); reflexivity.
  - destruct (p_max_nonce p <=? (h - f_start f) mod f_interval f); reflexivity.
Qed.

Lemma prepare_fold_rw p h : forall l R W Fr,
  fst (fold_left (prepare_one p h) l (R, W, Fr)) =
  fold_left (fun a f => (prepare_r p h f (fst a), prepare_w p h f (fst a) (snd a))) l (R, W).
Proof.
  induction l as [|f r IH]; intros R W Fr; [reflexivity|]. rewrite !fold_step.
  pose proof (prepare_one_rw p h f R W Fr) as H.
  destruct (prepare_one p h (R, W, Fr) f) as [[R1 W1] F1]. simpl in H. inversion H; subst. apply IH.
Qed.

Lemma jinv_set_round p vals total R W g r' :
  jinv p vals total R W -> get_feeder p g <> None ->
  (r_status r' = 1 -> forall w, zget W g = Some w -> w_sealed w = true) ->
  jinv p vals total (zset R g r') W.
Proof.
  intros [[K1 K2] J2 J3 J4] Hf Hopen. constructor.
  - split; [apply inc_keys_zset; exact K1 | exact K2].
  - intros k r0 H. rewrite zget_zset in H. destruct (k =? g) eqn:E; [apply Z.eqb_eq in E; subst; exact Hf | exact (J2 k r0 H)].
  - intros k w H. rewrite zget_zset. destruct (k =? g); [discriminate | exact (J3 k w H)].
  - intros k w r0 Hw Hs Hr0 Hst. rewrite zget_zset in Hr0. destruct (k =? g) eqn:E.
    + apply Z.eqb_eq in E. subst k. inversion Hr0; subst r0. rewrite (Hopen Hst w Hw) in Hs. discriminate.
    + exact (J4 k w r0 Hw Hs Hr0 Hst).
Qed.

Lemma prepare_step_j p vals total h f R W :
  In f (p_feeders p) -> jinv p vals total R W ->
  jinv p vals total (prepare_r p h f R) (prepare_w p h f R W).
Proof.
  intros Hin HJ. unfold prepare_r, prepare_w.
  assert (Hf : get_feeder p (f_id f) <> None).
  { unfold get_feeder. destruct (find (fun g => f_id g =? f_id f) (p_feeders p)) eqn:E; [discriminate|].
    pose proof (find_none _ _ E f Hin) as H. simpl in H. rewrite Z.eqb_refl in H. discriminate. }
  destruct (feeder_ended f h || (h <? f_start f)); [exact HJ|]. cbv zeta.
  destruct (zget R (f_id f)) as [r|] eqn:Hr.
  - destruct ((h - f_start f) mod f_interval f =? 0).
    + (* re-open: the previous worker goes *)
      apply jinv_set_round; [apply jinv_drop_worker; exact HJ | exact Hf|].
      intros _ w Hw. rewrite (zget_zdel_same W (f_id f) (proj2 (j_keys _ _ _ _ _ HJ))) in Hw. discriminate.
    + destruct ((r_status r =? 1) && (p_max_nonce p <=? (h - f_start f) mod f_interval f)); [|exact HJ].
      apply jinv_set_round; [exact HJ | exact Hf|]. unfold closed_of. simpl. intro H. discriminate H.
  - (* a new round: there is no worker without a round entry *)
    assert (Hnw : forall w, zget W (f_id f) = Some w -> False).
    { intros w Hw. apply (j_round _ _ _ _ _ HJ _ _ Hw). exact Hr. }
    destruct (p_max_nonce p <=? (h - f_start f) mod f_interval f);
      (apply jinv_set_round; [exact HJ | exact Hf | intros _ w Hw; exfalso; exact (Hnw w Hw)]).
Qed.

Lemma prepare_fold_j p vals total h : forall l R W,
  (forall f, In f l -> In f (p_feeders p)) -> jinv p vals total R W ->
  let res := fold_left (fun a f => (prepare_r p h f (fst a), prepare_w p h f (fst a) (snd a))) l (R, W) in
  jinv p vals total (fst res) (snd res).
Proof.
  induction l as [|f r IH]; intros R W Hsub HJ; [exact HJ|]. cbv zeta. rewrite fold_step. simpl fst. simpl snd.
  apply IH; [intros g Hg; apply Hsub; right; exact Hg|].
  apply prepare_step_j; [apply Hsub; left; reflexivity | exact HJ].
Qed.

(* ---- EndBlock ---- *)
Definition jmem (p : params) (m : mem) : Prop := jinv p (m_vals m) (m_total m) (m_rounds m) (m_workers m).

Lemma end_block_j p h u st : jmem p (st_mem st) -> jmem p (st_mem (end_block p h u st)).
Proof.
  intros HJ. unfold end_block, jmem.
  set (force := match u with [] => false | _ => true end).
  set (m1 := if force then mkMem (fold_left apply_update u (m_vals (st_mem st)))
                                 (zsum (map snd (fold_left apply_update u (m_vals (st_mem st)))))
                                 (m_rounds (st_mem st)) (m_workers (st_mem st))
             else st_mem st).
  assert (H1 : m_rounds m1 = m_rounds (st_mem st) /\ m_workers m1 = m_workers (st_mem st)) by (unfold m1; destruct force; split; reflexivity).
  destruct H1 as [H1 H1w].
  unfold seal_round. rewrite H1.
  pose proof (seal_fold_proj_rw p h force (m_rounds (st_mem st)) (m_rounds (st_mem st), m_workers m1, [], [])) as Hproj.
  destruct (fold_left (seal_one p h force) (m_rounds (st_mem st)) (m_rounds (st_mem st), m_workers m1, [], []))
    as [[[R2 W2] F2] S2] eqn:Hfold.
  unfold proj_rw in Hproj. simpl in Hproj. rewrite H1w in Hproj.
  assert (Hi : inc_keys (m_rounds (st_mem st))) by exact (proj1 (j_keys _ _ _ _ _ HJ)).
  destruct (seal_fold_j p (m_vals (st_mem st)) (m_total (st_mem st)) h force (m_rounds (st_mem st)) (m_rounds (st_mem st)) (m_workers (st_mem st))
              HJ Hi (fun g r Hin => inc_keys_zget _ _ _ Hi Hin)) as [K1 [K2 K3]].
  rewrite <- Hproj in K1, K2, K3. simpl in K1, K2, K3.
  (* after a forced seal no round is open, so the invariant holds for the NEW powers as well *)
  assert (K1' : jinv p (m_vals m1) (m_total m1) R2 W2).
  { destruct force eqn:Ef.
    - apply (jinv_no_open p (m_vals (st_mem st)) (m_total (st_mem st))); [exact K1|].
      intros k r Hz Hst.
      destruct (zget (m_rounds (st_mem st)) k) as [r0|] eqn:Hz0.
      + exact (K3 eq_refl k r0 r (zget_in _ _ _ Hz0) Hz Hst).
      + rewrite (K2 k) in Hz; [rewrite Hz0 in Hz; discriminate|].
        intros r1 Hin. rewrite (inc_keys_zget _ _ _ Hi Hin) in Hz0. discriminate.
    - unfold m1. exact K1. }
  unfold prepare_round. destruct (h <? 1); [simpl; exact K1'|].
  simpl m_rounds. simpl m_workers. simpl m_vals. simpl m_total.
  pose proof (prepare_fold_rw p h (p_feeders p) R2 W2 []) as Hprep.
  destruct (fold_left (prepare_one p h) (p_feeders p) (R2, W2, [])) as [[R3 W3] Fr3] eqn:Hpf. simpl in Hprep.
  pose proof (prepare_fold_j p (m_vals m1) (m_total m1) h (p_feeders p) R2 W2 (fun f Hf => Hf) K1') as P.
  rewrite <- Hprep in P. simpl in P. simpl. exact P.
Qed.

(* ---- messages ---- *)
Lemma worker_do_good p vals total w c pw n items w' filled :
  good vals total w -> zget vals c = Some pw -> worker_do p w c pw n items = (w', filled) -> good vals total w'.
Proof.
  intros [G1 G2] Hc H. unfold worker_do in H.
  pose proof (filtrate_fields p w c n items) as Hf.
  destruct (filtrate p w c n items) as [w1 kept]. simpl in Hf.
  destruct Hf as [_ [_ [_ [F4 [_ [F6 _]]]]]].
  assert (R1 : good vals total w1) by (unfold good; rewrite F4, F6; split; assumption).
  destruct kept as [|k0 kr]; [inversion H; subst; exact R1|].
  assert (R2 : good vals total (agg_fill w1 c pw (k0 :: kr))).
  { unfold agg_fill. destruct (has_report (w_reports w1) c); [exact R1|].
    destruct R1 as [A1 A2]. unfold good. simpl. split; [exact A1|].
    assert (Hp : forall rep, rp_power rep = pw -> rp_val rep = c -> Forall (fun rp => zget vals (rp_val rp) = Some (rp_power rp)) (w_reports w1 ++ [rep])).
    { intros rep E1 E2. apply Forall_app. split; [exact A2|]. constructor; [rewrite E1, E2; exact Hc | constructor]. }
    destruct (w_ds w1); [destruct (last_priced (w_reports w1) None) as [[[x d] t]|]|]; apply Hp; reflexivity. }
  set (w2 := agg_fill w1 c pw (k0 :: kr)) in *.
  destruct (calc_fill p w2 (k0 :: kr) pw) as [cr conf].
  destruct conf as [[[d x] ts]|]; inversion H; subst w'; [|exact R2].
  unfold confirm_ds. simpl.
  match goal with |- context [if negb ?b then _ else _] => destruct b end; simpl; [|exact R2].
  destruct R2 as [A1 A2]. unfold good. simpl. split; [exact A1|].
  apply Forall_forall. intros rp Hin. apply in_map_iff in Hin. destruct Hin as [r0 [E Hr0]]. subst rp. simpl.
  rewrite Forall_forall in A2. exact (A2 r0 Hr0).
Qed.

Lemma jinv_set_worker p vals total R W g w :
  jinv p vals total R W -> zget R g <> None ->
  (w_sealed w = false -> forall r, zget R g = Some r -> r_status r = 1 -> good vals total w) ->
  jinv p vals total R (zset W g w).
Proof.
  intros [[K1 K2] J2 J3 J4] Hr Hg. constructor; auto.
  - split; [exact K1 | apply inc_keys_zset; exact K2].
  - intros k w0 H. rewrite zget_zset in H. destruct (k =? g) eqn:E; [apply Z.eqb_eq in E; subst; exact Hr | exact (J3 k w0 H)].
  - intros k w0 r Hw Hs Hr0 Hst. rewrite zget_zset in Hw. destruct (k =? g) eqn:E.
    + apply Z.eqb_eq in E. subst k. inversion Hw; subst w0. exact (Hg Hs r Hr0 Hst).
    + exact (J4 k w0 r Hw Hs Hr0 Hst).
Qed.

Lemma new_worker_good m : good (m_vals m) (m_total m) (new_worker m).
Proof. unfold good. simpl. split; [reflexivity | constructor]. Qed.

Lemma create_price_j p now s m x s' m' res : jmem p m -> create_price p now s m x = (s', m', res) -> jmem p m'.
Proof.
  intros HJ H. unfold create_price in H.
  destruct (check_timestamp now x); simpl in H; [|inversion H; subst; exact HJ].
  destruct (check_msg p m x) eqn:Hcm; simpl in H; [|inversion H; subst; exact HJ].
  (* facts from checkMsg: the sender is a validator, the round exists *)
  assert (Hfacts : (exists pw, zget (m_vals m) (m_creator x) = Some pw) /\ zget (m_rounds m) (m_feeder x) <> None).
  { unfold check_msg, sanity_check in Hcm. apply andb_prop in Hcm. destruct Hcm as [Hs Hr].
    apply andb_prop in Hs. destruct Hs as [Hs _]. apply andb_prop in Hs. destruct Hs as [Hv _]. split.
    - destruct (zget (m_vals m) (m_creator x)) as [pw|]; [exists pw; reflexivity | discriminate].
    - destruct (zget (m_rounds m) (m_feeder x)); [discriminate | discriminate]. }
  destruct Hfacts as [[pw Hpw] Hround].
  set (w0 := match zget (m_workers m) (m_feeder x) with Some w => w | None => new_worker m end) in *.
  assert (Hw0 : w_sealed w0 = false -> forall r, zget (m_rounds m) (m_feeder x) = Some r -> r_status r = 1 -> good (m_vals m) (m_total m) w0).
  { unfold w0. destruct (zget (m_workers m) (m_feeder x)) as [w|] eqn:Hz.
    - intros Hs r Hr Hst. exact (j_good _ _ _ _ _ HJ _ _ _ Hz Hs Hr Hst).
    - intros _ r _ _. apply new_worker_good. }
  assert (Hset : forall w, (w_sealed w = false -> forall r, zget (m_rounds m) (m_feeder x) = Some r -> r_status r = 1 -> good (m_vals m) (m_total m) w) ->
                           jmem p (set_worker m (m_feeder x) w)).
  { intros w Hg. unfold jmem. simpl. apply jinv_set_worker; assumption. }
  destruct (w_sealed w0) eqn:Es.
  - inversion H; subst. apply Hset. intro E. rewrite E in Es. discriminate.
  - rewrite Hpw in H.
    match type of H with context [worker_do ?a ?b ?c ?d ?e ?f] => destruct (worker_do a b c d e f) as [w1 filled] eqn:Hwd end.
    assert (Hw1 : forall r, zget (m_rounds m) (m_feeder x) = Some r -> r_status r = 1 -> good (m_vals m) (m_total m) w1).
    { intros r Hr Hst. exact (worker_do_good _ _ _ _ _ _ _ _ _ _ (Hw0 eq_refl r Hr Hst) Hpw Hwd). }
    assert (Hm1 : jmem p (set_worker m (m_feeder x) w1)) by (apply Hset; intros _; exact Hw1).
    destruct filled; cbv beta iota in H; unfold negb in H; [|inversion H; subst; exact Hm1].
    destruct (agg_aggregate p w1); try (inversion H; subst; exact Hm1).
    destruct (zget (m_rounds m) (m_feeder x)) as [r|] eqn:Hr; [|inversion H; subst; exact Hm1].
    destruct (get_feeder p (m_feeder x)) eqn:Hf; [|inversion H; subst; exact Hm1].
    match type of H with context [append_price ?a ?b ?c ?d] => destruct (append_price a b c d) end.
    inversion H; subst. unfold jmem. simpl.
    apply jinv_set_worker.
    + apply jinv_set_round; [exact Hm1 | rewrite Hf; discriminate | simpl; intro E; discriminate E].
    + rewrite zget_zset_same. discriminate.
    + simpl. intro E. discriminate E.
Qed.

Lemma run_msgs_j p now : forall l s m so m', jmem p m -> run_msgs p now s m l = (so, m') -> jmem p m'.
Proof.
  induction l as [|x r IH]; intros s m so m' HJ H; simpl in H; [inversion H; subst; exact HJ|].
  destruct (create_price p now s m x) as [[s1 m1] res] eqn:Hc.
  pose proof (create_price_j _ _ _ _ _ _ _ _ HJ Hc) as H1.
  destruct res; try (inversion H; subst; exact H1); exact (IH _ _ _ _ H1 H).
Qed.

Lemma deliver_tx_j p now st t st' a ok : jmem p (st_mem st) -> deliver_tx p now st t = (st', a, ok) -> jmem p (st_mem st').
Proof.
  intros HJ H. unfold deliver_tx in H. destruct (ante p (st_store st) t) as [s1|]; [|inversion H; subst; exact HJ].
  destruct (run_msgs p now s1 (st_mem st) (t_msgs t)) as [[s2|] m2] eqn:Hr; inversion H; subst; simpl;
    exact (run_msgs_j _ _ _ _ _ _ _ HJ Hr).
Qed.

Lemma run_j p : forall ops st, jmem p (st_mem st) -> jmem p (st_mem (run p st ops)).
Proof.
  induction ops as [|o r IH]; intros st HJ; simpl; [exact HJ|]. apply IH. destruct o as [now t|h u]; simpl.
  - destruct (deliver_tx p now st t) as [[st' a] ok] eqn:Hd. simpl. exact (deliver_tx_j _ _ _ _ _ _ _ HJ Hd).
  - apply end_block_j. exact HJ.
Qed.

Lemma jmem_empty p vals total : jmem p (mkMem vals total [] []).
Proof. unfold jmem. simpl. constructor; simpl; try (intros; discriminate). split; exact I. Qed.

(* the statement: over all histories, a message that completes a round does so in a worker whose total is the
   CURRENT total power and whose reports carry the CURRENT powers of their validators *)
Theorem final_with_current_powers p st0 ops now s x s' m' :
  m_rounds (st_mem st0) = [] -> m_workers (st_mem st0) = [] ->
  let m := st_mem (run p st0 ops) in
  create_price p now s m x = (s', m', MsgFinal) ->
  exists w1 price,
    agg_aggregate p w1 = AggFinal price /\ exceeds p (w_rpower w1) (m_total m) = true /\
    w_rpower w1 = zsum (map rp_power (w_reports w1)) /\ NoDup (map rp_val (w_reports w1)) /\
    Forall (fun rp => zget (m_vals m) (rp_val rp) = Some (rp_power rp)) (w_reports w1).
Proof.
  intros Hr0 Hw0. cbv zeta. intro H.
  assert (HJ0 : jmem p (st_mem st0)).
  { unfold jmem. rewrite Hr0, Hw0. constructor; simpl; try (intros; discriminate). split; exact I. }
  pose proof (run_j p ops st0 HJ0) as HJ.
  assert (Hm0 : mem_invP (winv2 p) (st_mem st0)) by (intros fid w Hin; rewrite Hw0 in Hin; contradiction).
  pose proof (run_mem_invP p (winv2 p) (winv2_new p) (winv2_do p) ops st0 Hm0) as Hm.
  set (m := st_mem (run p st0 ops)) in *.
  (* the worker after the message, its goodness from the J invariant of the memory after the message *)
  destruct (create_price_finalP p (winv2 p) (winv2_new p) (winv2_do p) _ _ _ _ _ _ Hm H)
    as [w1 [price [[Hw Hrp] [Hagg _]]]].
  (* redo the unfolding to get goodness of that same w1: use worker_do_good on the path *)
  unfold create_price in H.
  destruct (check_timestamp now x); simpl in H; [|inversion H].
  destruct (check_msg p m x) eqn:Hcm; simpl in H; [|inversion H].
  assert (Hfacts : (exists pw, zget (m_vals m) (m_creator x) = Some pw) /\ exists r, zget (m_rounds m) (m_feeder x) = Some r /\ r_status r = 1).
  { unfold check_msg, sanity_check in Hcm. apply andb_prop in Hcm. destruct Hcm as [Hs Hr].
    apply andb_prop in Hs. destruct Hs as [Hs _]. apply andb_prop in Hs. destruct Hs as [Hv _]. split.
    - destruct (zget (m_vals m) (m_creator x)) as [pw|]; [exists pw; reflexivity | discriminate].
    - destruct (zget (m_rounds m) (m_feeder x)) as [r|]; [|discriminate]. exists r. split; [reflexivity|].
      apply andb_prop in Hr. destruct Hr as [Hr _]. apply andb_prop in Hr. destruct Hr as [Hr _].
      apply andb_prop in Hr. destruct Hr as [Hr _]. apply Z.eqb_eq. exact Hr. }
  destruct Hfacts as [[pw Hpw] [r [Hr Hst]]].
  set (w0 := match zget (m_workers m) (m_feeder x) with Some w => w | None => new_worker m end) in *.
  destruct (w_sealed w0) eqn:Es; [inversion H|].
  assert (Hg0 : good (m_vals m) (m_total m) w0).
  { unfold w0. destruct (zget (m_workers m) (m_feeder x)) as [w|] eqn:Hz; [|apply new_worker_good].
    unfold w0 in Es. try rewrite Hz in Es. exact (j_good _ _ _ _ _ HJ _ _ _ Hz Es Hr Hst). }
  rewrite Hpw in H.
  match type of H with context [worker_do ?a ?b ?c ?d ?e ?f] => destruct (worker_do a b c d e f) as [w2 filled] eqn:Hwd end.
  pose proof (worker_do_good _ _ _ _ _ _ _ _ _ _ Hg0 Hpw Hwd) as [Hg1 Hg2].
  assert (Hinv2 : winv2 p w2).
  { refine (winv2_do p w0 _ _ _ _ w2 filled _ Hwd). unfold w0.
    destruct (zget (m_workers m) (m_feeder x)) as [w|] eqn:Hz; [|apply winv2_new].
    unfold w0 in Es. try rewrite Hz in Es. exact (Hm _ _ (zget_in _ _ _ Hz) Es). }
  destruct filled; cbv beta iota in H; unfold negb in H; [|inversion H].
  destruct (agg_aggregate p w2) as [|price2|] eqn:Hagg2; try (inversion H; fail).
  destruct Hinv2 as [Hwi [Hrp1 Hrp2]].
  destruct (agg_final_spec _ _ _ Hwi Hagg2) as [He _].
  exists w2, price2. split; [exact Hagg2|]. rewrite <- Hg1. split; [exact He|]. split; [exact Hrp1|]. split; [exact Hrp2 | exact Hg2].
Qed.

(* validator powers only change in an EndBlock that carries a validator-set update *)
Lemma deliver_tx_vals p now st t st' a ok :
  deliver_tx p now st t = (st', a, ok) -> m_vals (st_mem st') = m_vals (st_mem st) /\ m_total (st_mem st') = m_total (st_mem st).
Proof.
  assert (Hcp : forall s m x s' m' res, create_price p now s m x = (s', m', res) -> m_vals m' = m_vals m /\ m_total m' = m_total m).
  { intros s m x s' m' res H. unfold create_price in H.
    destruct (check_timestamp now x); simpl in H; [|inversion H; subst; split; reflexivity].
    destruct (check_msg p m x); simpl in H; [|inversion H; subst; split; reflexivity].
    match type of H with context [w_sealed ?w] => destruct (w_sealed w) end; [inversion H; subst; split; reflexivity|].
    match type of H with context [worker_do ?a ?b ?c ?d ?e ?f] => destruct (worker_do a b c d e f) as [w1 filled] end.
    destruct filled; cbv beta iota in H; unfold negb in H; [|inversion H; subst; split; reflexivity].
    destruct (agg_aggregate p w1); try (inversion H; subst; split; reflexivity).
    destruct (zget (m_rounds m) (m_feeder x)); [|inversion H; subst; split; reflexivity].
    destruct (get_feeder p (m_feeder x)); [|inversion H; subst; split; reflexivity].
    match type of H with context [append_price ?a ?b ?c ?d] => destruct (append_price a b c d) end.
    inversion H; subst. split; reflexivity. }
  assert (Hrm : forall l s m so m', run_msgs p now s m l = (so, m') -> m_vals m' = m_vals m /\ m_total m' = m_total m).
  { induction l as [|x r IH]; intros s m so m' H; simpl in H; [inversion H; subst; split; reflexivity|].
    destruct (create_price p now s m x) as [[s1 m1] res] eqn:Hc. destruct (Hcp _ _ _ _ _ _ Hc) as [E1 E2].
    destruct res; try (inversion H; subst; split; assumption); destruct (IH _ _ _ _ H) as [F1 F2]; split; congruence. }
  unfold deliver_tx. destruct (ante p (st_store st) t) as [s1|]; [|intro H; inversion H; split; reflexivity].
  destruct (run_msgs p now s1 (st_mem st) (t_msgs t)) as [[s2|] m2] eqn:Hr; intro H; inversion H; subst; simpl; exact (Hrm _ _ _ _ _ Hr).
Qed.

Lemma end_block_vals_unforced p h st :
  m_vals (st_mem (end_block p h [] st)) = m_vals (st_mem st) /\ m_total (st_mem (end_block p h [] st)) = m_total (st_mem st).
Proof.
  unfold end_block. simpl. unfold seal_round.
  destruct (fold_left (seal_one p h false) (m_rounds (st_mem st)) (m_rounds (st_mem st), m_workers (st_mem st), [], [])) as [[[R2 W2] F2] S2].
  unfold prepare_round. simpl. destruct (h <? 1); [simpl; split; reflexivity|].
  destruct (fold_left (prepare_one p h) (p_feeders p) (R2, W2, [])) as [[R3 W3] Fr3]. simpl. split; reflexivity.
Qed.
