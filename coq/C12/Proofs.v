(* C12/Proofs.v — lemmas for the C12 theorems: threshold, median, one final price per round, carry-forward. *)
From Coq Require Import List String Bool ZArith Lia Sorting.Sorted Sorting.Permutation.
From Exo Require Import Base.Util Oracle.Model Oracle.Lemmas.
Import ListNotations.
Local Open Scope Z_scope.

(* ================= median ================= *)
Lemma insert_sorted_forall (P : Z -> Prop) x l : P x -> Forall P l -> Forall P (insert_sorted x l).
Proof.
  intros Hx Hl. induction Hl as [|y r Hy Hr IH]; simpl; [constructor; [exact Hx | constructor]|].
  destruct (x <=? y); constructor; auto.
Qed.

Lemma sort_z_forall (P : Z -> Prop) l : Forall P l -> Forall P (sort_z l).
Proof.
  intro H. induction H as [|x r Hx Hr IH]; simpl; [constructor|]. apply insert_sorted_forall; assumption.
Qed.

Lemma insert_sorted_perm x l : Permutation (x :: l) (insert_sorted x l).
Proof.
  induction l as [|y r IH]; simpl; [apply Permutation_refl|].
  destruct (x <=? y); [apply Permutation_refl|].
  eapply Permutation_trans; [apply perm_swap|]. apply perm_skip. exact IH.
Qed.

Lemma sort_z_perm l : Permutation l (sort_z l).
Proof.
  induction l as [|x r IH]; simpl; [apply Permutation_refl|].
  eapply Permutation_trans; [apply perm_skip; exact IH | apply insert_sorted_perm].
Qed.

Lemma sort_z_length l : List.length (sort_z l) = List.length l.
Proof. symmetry. apply Permutation_length. apply sort_z_perm. Qed.

Lemma insert_sorted_sorted x l : Sorted Z.le l -> Sorted Z.le (insert_sorted x l).
Proof.
  intro H. induction H as [|y r Hr IH Hhd]; simpl; [repeat constructor|].
  destruct (x <=? y) eqn:E.
  - apply Z.leb_le in E. constructor; [constructor; assumption | constructor; exact E].
  - apply Z.leb_gt in E. constructor; [exact IH|].
    destruct r as [|z r']; simpl; [constructor; lia|].
    destruct (x <=? z); constructor; [lia | inversion Hhd; assumption].
Qed.

Lemma sort_z_sorted l : Sorted Z.le (sort_z l).
Proof. induction l as [|x r IH]; simpl; [constructor | apply insert_sorted_sorted; exact IH]. Qed.

Lemma nth_error_forall {A} (P : A -> Prop) l n x : Forall P l -> nth_error l n = Some x -> P x.
Proof. intros H Hn. rewrite Forall_forall in H. apply H. eapply nth_error_In. exact Hn. Qed.

(* the median is one of the two middle elements of the SORTED permutation, or their (floor) mean *)
Lemma median_spec l x :
  median l = Some x ->
  let s := sort_z l in
  Permutation l s /\ Sorted Z.le s /\
  ((Nat.modulo (List.length s) 2 = 1%nat /\ nth_error s (Nat.div (List.length s) 2) = Some x) \/
   (Nat.modulo (List.length s) 2 <> 1%nat /\
    exists a b, nth_error s (Nat.div (List.length s) 2) = Some a /\
                nth_error s (Nat.div (List.length s) 2 - 1) = Some b /\ x = (a + b) / 2)).
Proof.
  unfold median. intro H. cbv zeta. split; [apply sort_z_perm|]. split; [apply sort_z_sorted|].
  destruct (Nat.eqb (Nat.modulo (List.length (sort_z l)) 2) 1) eqn:E.
  - left. apply Nat.eqb_eq in E. split; assumption.
  - right. apply Nat.eqb_neq in E. split; [exact E|].
    destruct (nth_error (sort_z l) (Nat.div (List.length (sort_z l)) 2)) as [a|]; [|discriminate].
    destruct (nth_error (sort_z l) (Nat.div (List.length (sort_z l)) 2 - 1)) as [b|]; [|discriminate].
    exists a, b. inversion H. repeat split; reflexivity.
Qed.

Lemma median_in_range lo hi l x :
  Forall (fun y => lo <= y <= hi) l -> median l = Some x -> lo <= x <= hi.
Proof.
  intros Hl Hm. apply sort_z_forall in Hl. unfold median in Hm.
  destruct (Nat.eqb (Nat.modulo (List.length (sort_z l)) 2) 1).
  - exact (nth_error_forall _ _ _ _ Hl Hm).
  - destruct (nth_error (sort_z l) (Nat.div (List.length (sort_z l)) 2)) as [a|] eqn:Ha; [|discriminate].
    destruct (nth_error (sort_z l) (Nat.div (List.length (sort_z l)) 2 - 1)) as [b|] eqn:Hb; [|discriminate].
    inversion Hm; subst x. pose proof (nth_error_forall _ _ _ _ Hl Ha) as Pa. pose proof (nth_error_forall _ _ _ _ Hl Hb) as Pb.
    simpl in Pa, Pb. split.
    + apply Z.div_le_lower_bound; lia.
    + apply Z.div_le_upper_bound; lia.
Qed.

Lemma median_nonempty l : l <> [] -> exists x, median l = Some x.
Proof.
  intro Hne. unfold median. pose proof (sort_z_length l) as Hlen.
  assert (Hpos : (0 < List.length (sort_z l))%nat). { rewrite Hlen. destruct l; [congruence | simpl; lia]. }
  set (s := sort_z l) in *. set (n := List.length s) in *.
  assert (Hdiv : (Nat.div n 2 < n)%nat) by (apply Nat.div_lt; lia).
  destruct (Nat.eqb (Nat.modulo n 2) 1).
  - destruct (nth_error s (Nat.div n 2)) as [a|] eqn:E; [exists a; reflexivity|].
    apply nth_error_None in E. lia.
  - destruct (nth_error s (Nat.div n 2)) as [a|] eqn:Ea; [|apply nth_error_None in Ea; lia].
    destruct (nth_error s (Nat.div n 2 - 1)) as [b|] eqn:Eb; [|apply nth_error_None in Eb; lia].
    eexists. reflexivity.
Qed.

Lemma median_const c l : l <> [] -> Forall (fun y => y = c) l -> median l = Some c.
Proof.
  intros Hne Hall. destruct (median_nonempty l Hne) as [x Hx]. rewrite Hx. f_equal.
  assert (c <= x <= c); [|lia]. apply (median_in_range c c l x); [|exact Hx].
  eapply Forall_impl; [|exact Hall]. simpl. intros a Ha. lia.
Qed.

(* ================= the calculator: a confirmed det-ID is backed by power over the threshold ================= *)
Definition cr_justified (p : params) (total : Z) (c : cround) : Prop :=
  match cr_price c with
  | Some x => exists pw, In (x, pw) (cr_prices c) /\ exceeds p pw total = true
  | None => True
  end.

Lemma bump_price_confirm p total : forall l price power l' x,
  bump_price p total l price power = Some (l', Some x) ->
  exists pw, In (x, pw) l' /\ exceeds p pw total = true.
Proof.
  induction l as [|[pr pw] r IH]; intros price power l' x H; simpl in H; [discriminate|].
  destruct (pr =? price).
  - destruct (exceeds p (pw + power) total) eqn:E; inversion H; subst.
    exists (pw + power). split; [left; reflexivity | exact E].
  - destruct (bump_price p total r price power) as [[r' c]|] eqn:Hr; [|discriminate].
    inversion H; subst. destruct (IH _ _ _ _ Hr) as [pw' [Hin He]]. exists pw'. split; [right; exact Hin | exact He].
Qed.

Lemma update_spec p vlen total c price power c' upd conf :
  cr_price c = None ->
  update_price_and_power p vlen total c price power = (c', upd, conf) ->
  cr_justified p total c' /\ cr_det c' = cr_det c /\
  (conf = true -> upd = true /\ exists x, cr_price c' = Some x) /\ (conf = false -> cr_price c' = None).
Proof.
  intros Hn H. unfold update_price_and_power in H. rewrite Hn in H.
  destruct (bump_price p total (cr_prices c) price power) as [[l' [x|]]|] eqn:Hb.
  - inversion H; subst. unfold cr_justified. simpl. repeat split; try discriminate.
    + exact (bump_price_confirm _ _ _ _ _ _ _ Hb).
    + exists x. reflexivity.
  - inversion H; subst. unfold cr_justified. simpl. repeat split; try discriminate; auto.
  - destruct (zlen (cr_prices c) <? vlen).
    + destruct (exceeds p power total) eqn:E; inversion H; subst; unfold cr_justified; simpl; repeat split; try discriminate; auto.
      * exists power. split; [apply in_or_app; right; left; reflexivity | exact E].
      * exists price. reflexivity.
    + inversion H; subst. unfold cr_justified. rewrite Hn. repeat split; try discriminate; auto.
Qed.

Definition conf_ok (l' : list cround) (o : option (string * Z * Z)) : Prop :=
  match o with
  | Some (d, x, _) => exists c, In c l' /\ cr_det c = d /\ cr_price c = Some x
  | None => True
  end.

Lemma item_result_ok c' upd conf :
  (conf = true -> upd = true /\ exists x, cr_price c' = Some x) -> (conf = false -> cr_price c' = None) ->
  forall l1 l2,
  conf_ok (l1 ++ c' :: l2)
    (if upd && conf then match cr_price c' with Some x => Some (cr_det c', x, cr_ts c') | None => None end else None) /\
  ((if upd && conf then match cr_price c' with Some x => Some (cr_det c', x, cr_ts c') | None => None end else None) = None ->
   cr_price c' = None).
Proof.
  intros Ht Hf l1 l2. destruct conf.
  - destruct (Ht eq_refl) as [Hu [x Hx]]. subst upd. simpl. rewrite Hx. split.
    + exists c'. split; [apply in_or_app; right; left; reflexivity | split; reflexivity || exact Hx].
    + discriminate.
  - rewrite andb_false_r. split; [exact I | intros _; apply Hf; reflexivity].
Qed.

Lemma calc_item_in_spec p vlen total it power : forall l l' o,
  calc_item_in p vlen total l it power = Some (l', o) ->
  (Forall (cr_justified p total) l -> Forall (cr_justified p total) l') /\
  conf_ok l' o /\ (o = None -> has_confirmed l' = has_confirmed l).
Proof.
  induction l as [|c r IH]; intros l' o H; simpl in H; [discriminate|].
  destruct (String.eqb (cr_det c) (pi_det it)).
  - destruct (cr_price c) as [x|] eqn:Hp.
    + inversion H; subst. repeat split; auto; try exact I.
    + destruct (update_price_and_power p vlen total c (pi_price it) power) as [[c' upd] conf] eqn:Hu.
      destruct (update_spec _ _ _ _ _ _ _ _ _ Hp Hu) as [Hj [Hd [Ht Hf]]].
      inversion H; subst l' o. clear H.
      destruct (item_result_ok c' upd conf Ht Hf [] r) as [Hc Hn]. simpl in Hc.
      split; [intro Hall; inversion Hall; subst; constructor; assumption|].
      split; [exact Hc|]. intro Ho. specialize (Hn Ho). simpl. rewrite Hn, Hp. reflexivity.
  - destruct (calc_item_in p vlen total r it power) as [[r' o']|] eqn:Hr; [|discriminate].
    inversion H; subst l' o. destruct (IH _ _ eq_refl) as [H1 [H2 H3]].
    split; [intro Hall; inversion Hall; subst; constructor; auto|].
    split.
    + destruct o' as [[[d x] ts]|]; [|exact I]. destruct H2 as [c0 [Hin Hc0]]. exists c0. split; [right; exact Hin | exact Hc0].
    + intro Ho. simpl. rewrite (H3 Ho). reflexivity.
Qed.

Lemma has_confirmed_app l1 l2 : has_confirmed (l1 ++ l2) = has_confirmed l1 || has_confirmed l2.
Proof. induction l1 as [|c r IH]; simpl; [reflexivity|]. rewrite IH. apply orb_assoc. Qed.

Lemma calc_item_spec p vlen total l it power l' o :
  calc_item p vlen total l it power = (l', o) ->
  (Forall (cr_justified p total) l -> Forall (cr_justified p total) l') /\
  conf_ok l' o /\ (o = None -> has_confirmed l' = has_confirmed l).
Proof.
  unfold calc_item. destruct (calc_item_in p vlen total l it power) as [[l1 o1]|] eqn:Hin.
  - intro H. inversion H; subst. exact (calc_item_in_spec _ _ _ _ _ _ _ _ Hin).
  - destruct (zlen l <? p_max_detid p * vlen).
    + destruct (update_price_and_power p vlen total (mkCR (pi_det it) [] None (pi_ts it)) (pi_price it) power) as [[c' upd] conf] eqn:Hu.
      destruct (update_spec p vlen total (mkCR (pi_det it) [] None (pi_ts it)) _ _ _ _ _ (eq_refl : cr_price (mkCR (pi_det it) [] None (pi_ts it)) = None) Hu) as [Hj [Hd [Ht Hf]]].
      intro H. inversion H; subst l' o. clear H.
      destruct (item_result_ok c' upd conf Ht Hf l []) as [Hc Hn].
      split; [intro Hall; apply Forall_app; split; [exact Hall | constructor; [exact Hj | constructor]]|].
      split; [exact Hc|]. intro Ho. specialize (Hn Ho). rewrite has_confirmed_app. simpl. rewrite Hn. rewrite !orb_false_r. reflexivity.
    + intro H. inversion H; subst. repeat split; auto; try exact I.
Qed.

Lemma calc_items_spec p vlen total power : forall items l l' o,
  calc_items p vlen total l items power = (l', o) ->
  (Forall (cr_justified p total) l -> Forall (cr_justified p total) l') /\
  conf_ok l' o /\ (o = None -> has_confirmed l' = has_confirmed l).
Proof.
  induction items as [|it r IH]; intros l l' o H; simpl in H.
  - inversion H; subst. repeat split; auto; try exact I.
  - destruct (calc_item p vlen total l it power) as [l1 [c|]] eqn:Hi.
    + inversion H; subst. destruct (calc_item_spec _ _ _ _ _ _ _ _ Hi) as [H1 [H2 H3]]. repeat split; auto; try discriminate.
    + destruct (calc_item_spec _ _ _ _ _ _ _ _ Hi) as [H1 [_ H3]].
      destruct (IH _ _ _ H) as [H4 [H5 H6]]. split; [auto|]. split; [exact H5|].
      intro Ho. rewrite (H6 Ho). apply H3. reflexivity.
Qed.

(* ================= worker invariant ================= *)
Definition crounds_of (w : worker) : list cround := match w_crounds w with Some l => l | None => [] end.

Record worker_inv (p : params) (w : worker) : Prop := mkWI {
  wi_final : w_final w = None;
  wi_just : Forall (cr_justified p (w_total w)) (crounds_of w);
  wi_none : w_ds w = None -> has_confirmed (crounds_of w) = false /\ Forall (fun r => rp_slot r = None) (w_reports w);
  wi_some : forall d, w_ds w = Some d ->
            w_reports w <> [] /\
            exists c x, In c (crounds_of w) /\ cr_det c = d /\ cr_price c = Some x /\
                        Forall (fun r => rp_slot r = Some x) (w_reports w) }.

Lemma new_worker_inv p m : worker_inv p (new_worker m).
Proof. constructor; simpl; auto; [constructor | discriminate]. Qed.

Lemma last_priced_all x : forall l acc,
  Forall (fun r => rp_slot r = Some x) l ->
  (match acc with Some (y, _, _) => y = x | None => True end) ->
  match last_priced l acc with Some (y, _, _) => y = x | None => l = [] /\ acc = None end.
Proof.
  induction l as [|r t IH]; intros acc Hall Hacc; simpl.
  - destruct acc as [[[y d] ts]|]; [exact Hacc | split; reflexivity].
  - inversion Hall as [|r' t' Hr Ht]; subst. rewrite Hr.
    specialize (IH (Some (x, rp_det r, rp_ts r)) Ht eq_refl).
    destruct (last_priced t (Some (x, rp_det r, rp_ts r))) as [[[y d] ts]|]; [exact IH | destruct IH as [_ IH]; discriminate].
Qed.

Lemma filtrate_fields p w c n items :
  let w1 := fst (filtrate p w c n items) in
  w_sealed w1 = w_sealed w /\ w_price w1 = w_price w /\ w_vlen w1 = w_vlen w /\ w_total w1 = w_total w /\
  w_crounds w1 = w_crounds w /\ w_reports w1 = w_reports w /\ w_rpower w1 = w_rpower w /\ w_ds w1 = w_ds w /\
  w_final w1 = w_final w.
Proof.
  unfold filtrate. destruct (set_add_z (p_max_nonce p) match zget (w_fnonces w) c with Some l => l | None => [] end n) as [nonces' ok].
  destruct ok; simpl.
  - destruct (filter_items (p_max_detid p) match zget (w_fdets w) c with Some l => l | None => [] end items) as [seen' kept].
    simpl. repeat split; reflexivity.
  - repeat split; reflexivity.
Qed.

Lemma has_report_nonempty l v : has_report l v = true -> l <> [].
Proof. destruct l; simpl; [discriminate | intros _ H; discriminate H]. Qed.

Lemma agg_fill_inv p w c pw items :
  worker_inv p w ->
  let w2 := agg_fill w c pw items in
  worker_inv p w2 /\ w_crounds w2 = w_crounds w /\ w_total w2 = w_total w /\ w_vlen w2 = w_vlen w /\
  w_ds w2 = w_ds w /\ w_reports w2 <> [].
Proof.
  intros [I1 I2 I3 I4]. unfold agg_fill. destruct (has_report (w_reports w) c) eqn:Hr.
  - cbv zeta. split; [constructor; assumption|]. split; [reflexivity|]. split; [reflexivity|]. split; [reflexivity|]. split; [reflexivity|]. exact (has_report_nonempty _ _ Hr).
  - cbv zeta. split; [|repeat split; try reflexivity; simpl; intro E; apply app_eq_nil in E; destruct E as [_ E]; discriminate].
    constructor; simpl; auto.
    + intro Hd. destruct (I3 Hd) as [Hc Hs]. split; [exact Hc|]. rewrite Hd.
      apply Forall_app. split; [exact Hs | constructor; [reflexivity | constructor]].
    + intros d Hd. destruct (I4 d Hd) as [Hne [c0 [x [Hin [Hdet [Hpr Hall]]]]]].
      split; [intro E; apply app_eq_nil in E; destruct E as [_ E]; discriminate|].
      exists c0, x. repeat split; auto.
      rewrite Hd. apply Forall_app. split; [exact Hall|]. constructor; [|constructor].
      pose proof (last_priced_all x (w_reports w) None Hall I) as Hl.
      destruct (last_priced (w_reports w) None) as [[[y d'] ts]|].
      * simpl. f_equal. exact Hl.
      * destruct Hl as [Hnil _]. contradiction.
Qed.

Lemma confirmed_in l c x : In c l -> cr_price c = Some x -> has_confirmed l = true.
Proof.
  induction l as [|a r IH]; intros Hin Hp; [contradiction|]. simpl. destruct Hin as [E|Hin].
  - subst a. rewrite Hp. reflexivity.
  - rewrite (IH Hin Hp). apply orb_true_r.
Qed.

Lemma worker_do_inv p w c pw n items w' filled :
  worker_inv p w -> worker_do p w c pw n items = (w', filled) -> worker_inv p w'.
Proof.
  intros Hinv H. unfold worker_do in H.
  pose proof (filtrate_fields p w c n items) as Hf.
  destruct (filtrate p w c n items) as [w1 kept]. simpl in Hf.
  destruct Hf as [F1 [F2 [F3 [F4 [F5 [F6 [F7 [F8 F9]]]]]]]].
  assert (Hinv1 : worker_inv p w1).
  { destruct Hinv as [I1 I2 I3 I4]. constructor; unfold crounds_of in *; rewrite ?F4, ?F5, ?F6, ?F8, ?F9; assumption. }
  clear Hinv F1 F2 F3 F4 F5 F6 F7 F8 F9.
  destruct kept as [|k0 kr]; [inversion H; subst; exact Hinv1|].
  destruct (agg_fill_inv p w1 c pw (k0 :: kr) Hinv1) as [Hinv2 [E1 [E2 [E3 [E4 Hne]]]]].
  set (w2 := agg_fill w1 c pw (k0 :: kr)) in *.
  unfold calc_fill in H.
  fold (crounds_of w2) in H.
  destruct Hinv2 as [I1 I2 I3 I4].
  destruct (has_confirmed (crounds_of w2)) eqn:Hc.
  - (* a det-ID is already confirmed: nothing happens in the calculator *)
    inversion H; subst w'. constructor; simpl; auto.
    intro Hd0. destruct (I3 Hd0) as [Hx _]. discriminate Hx.
  - destruct (calc_items p (w_vlen w2) (w_total w2) (crounds_of w2) (k0 :: kr) pw) as [l' o] eqn:Hci.
    destruct (calc_items_spec _ _ _ _ _ _ _ _ Hci) as [S1 [S2 S3]].
    assert (Hds : w_ds w2 = None).
    { destruct (w_ds w2) as [d|] eqn:Hd; [|reflexivity].
      destruct (I4 d eq_refl) as [_ [c0 [x [Hin [_ [Hp _]]]]]]. rewrite (confirmed_in _ _ _ Hin Hp) in Hc. discriminate. }
    destruct (I3 Hds) as [_ Hslots].
    destruct o as [[[d x] ts]|].
    + (* confirmation: every report gets the confirmed price *)
      inversion H; subst w'. unfold confirm_ds. simpl. rewrite Hds. simpl.
      constructor; simpl; auto.
      * discriminate.
      * intros d' Hd'. inversion Hd'; subst d'. split.
        { intro E. apply map_eq_nil in E. contradiction. }
        destruct S2 as [c0 [Hin [Hdet Hp]]]. exists c0, x. repeat split; auto.
        apply Forall_forall. intros r Hr. apply in_map_iff in Hr. destruct Hr as [r0 [Hr0 _]]. subst r. reflexivity.
    + inversion H; subst w'. constructor; simpl; auto.
      * intros _. split; [unfold crounds_of; simpl; rewrite (S3 eq_refl); exact Hc | exact Hslots].
      * intros d' Hd'. rewrite Hds in Hd'. discriminate.
Qed.

(* ================= threshold and median of the final price ================= *)
Lemma agg_final_spec p w x :
  worker_inv p w -> agg_aggregate p w = AggFinal x ->
  exceeds p (w_rpower w) (w_total w) = true /\
  exists d c, w_ds w = Some d /\ In c (crounds_of w) /\ cr_det c = d /\ cr_price c = Some x /\
              (exists pw, In (x, pw) (cr_prices c) /\ exceeds p pw (w_total w) = true) /\
              (exists vs, all_some (map report_value (w_reports w)) = Some vs /\ median vs = Some x /\
                          Forall (fun y => y = x) vs /\ vs <> []).
Proof.
  intros [I1 I2 I3 I4] H. unfold agg_aggregate in H. rewrite I1 in H.
  destruct (exceeds p (w_rpower w) (w_total w)) eqn:E; [|discriminate]. split; [reflexivity|].
  destruct (w_ds w) as [d|] eqn:Hd; [|discriminate].
  destruct (I4 d eq_refl) as [Hne [c [y [Hin [Hdet [Hp Hall]]]]]].
  assert (Hvs : all_some (map report_value (w_reports w)) = Some (map (fun _ => y) (w_reports w))).
  { clear -Hall. induction Hall as [|r t Hr Ht IH]; simpl; [reflexivity|].
    unfold report_value at 1. rewrite Hr. simpl. rewrite IH. reflexivity. }
  rewrite Hvs in H.
  assert (Hconst : Forall (fun z => z = y) (map (fun _ : report => y) (w_reports w))).
  { apply Forall_forall. intros z Hz. apply in_map_iff in Hz. destruct Hz as [r [Hz _]]. symmetry. exact Hz. }
  assert (Hne' : map (fun _ : report => y) (w_reports w) <> []).
  { intro E2. apply map_eq_nil in E2. contradiction. }
  rewrite (median_const y _ Hne' Hconst) in H. inversion H; subst x.
  exists d, c. repeat split; auto.
  - rewrite Forall_forall in I2. specialize (I2 c Hin). unfold cr_justified in I2. rewrite Hp in I2. exact I2.
  - exists (map (fun _ : report => y) (w_reports w)). repeat split; auto. apply median_const; assumption.
Qed.

(* ================= lifting to the memory and to histories ================= *)
Definition mem_inv (p : params) (m : mem) : Prop :=
  forall fid w, In (fid, w) (m_workers m) -> w_sealed w = false -> worker_inv p w.

Lemma mem_inv_set p m fid w :
  mem_inv p m -> (w_sealed w = false -> worker_inv p w) -> mem_inv p (set_worker m fid w).
Proof.
  intros Hm Hw f2 w2 Hin Hs. simpl in Hin. destruct (in_zset _ _ _ _ Hin) as [E|E].
  - inversion E; subst. exact (Hw Hs).
  - exact (Hm _ _ E Hs).
Qed.

Lemma mem_inv_same_workers p m m' : m_workers m' = m_workers m -> mem_inv p m -> mem_inv p m'.
Proof. intros E H f w Hin Hs. rewrite E in Hin. exact (H _ _ Hin Hs). Qed.

(* what a message that completes a round does *)
Lemma create_price_final p now s m x s' m' :
  mem_inv p m -> create_price p now s m x = (s', m', MsgFinal) ->
  exists w1 price r f,
    worker_inv p w1 /\ agg_aggregate p w1 = AggFinal price /\
    zget (m_rounds m) (m_feeder x) = Some r /\ r_status r = 1 /\ get_feeder p (m_feeder x) = Some f /\
    m' = set_worker (set_round (set_worker m (m_feeder x) w1) (m_feeder x) (mkRound (r_base r) (r_next r) 2))
                    (m_feeder x) (sealed_worker price) /\
    let item := mkPtr (r_next r) (Some price) (match token_decimal p (f_token f) with Some d => d | None => 0 end) (first_ts x) in
    let s2 := if snd (append_price p s (f_token f) item) then fst (append_price p s (f_token f) item)
              else grow_round p s (f_token f) in
    s' = mkStore (s_prices s2) (remove_nonce (s_nonces s2) (m_feeder x) (val_ids m)).
Proof.
  intros Hm H. unfold create_price in H.
  destruct (check_timestamp now x); simpl in H; [|inversion H].
  destruct (check_msg p m x) eqn:Hcm; simpl in H; [|inversion H].
  set (w0 := match zget (m_workers m) (m_feeder x) with Some w => w | None => new_worker m end) in *.
  assert (Hw0 : w_sealed w0 = false -> worker_inv p w0).
  { unfold w0. destruct (zget (m_workers m) (m_feeder x)) as [w|] eqn:Hz.
    - intro Hs. exact (Hm _ _ (zget_in _ _ _ Hz) Hs).
    - intros _. apply new_worker_inv. }
  destruct (w_sealed w0) eqn:Es; [inversion H|].
  match type of H with context [worker_do ?a ?b ?c ?d ?e ?f] => destruct (worker_do a b c d e f) as [w1 filled] eqn:Hwd end.
  pose proof (worker_do_inv _ _ _ _ _ _ _ _ (Hw0 eq_refl) Hwd) as Hw1.
  destruct filled; cbv beta iota in H; unfold negb in H; [|inversion H].
  destruct (agg_aggregate p w1) as [|price|] eqn:Hagg; try (inversion H; fail).
  destruct (zget (m_rounds m) (m_feeder x)) as [r|] eqn:Hr; [|inversion H].
  destruct (get_feeder p (m_feeder x)) as [f|] eqn:Hf; [|inversion H].
  exists w1, price, r, f.
  assert (Hst : r_status r = 1).
  { unfold check_msg in Hcm. apply andb_prop in Hcm. destruct Hcm as [_ Hcm]. rewrite Hr in Hcm.
    apply andb_prop in Hcm. destruct Hcm as [Hcm _]. apply andb_prop in Hcm. destruct Hcm as [Hcm _].
    apply andb_prop in Hcm. destruct Hcm as [Hcm _]. apply Z.eqb_eq. exact Hcm. }
  destruct (append_price p s (f_token f)
              (mkPtr (r_next r) (Some price) match token_decimal p (f_token f) with Some d => d | None => 0 end (first_ts x))) as [s1 ok] eqn:Hap.
  inversion H; subst s' m'. split; [exact Hw1|]. split; [first [exact Hagg | reflexivity]|]. split; [first [exact Hr | reflexivity]|]. split; [exact Hst|].
  split; [first [exact Hf | reflexivity]|]. split; [reflexivity|]. cbv zeta. rewrite Hap. simpl. destruct ok; reflexivity.
Qed.

Lemma create_price_mem_inv p now s m x s' m' r :
  mem_inv p m -> create_price p now s m x = (s', m', r) -> mem_inv p m'.
Proof.
  intros Hm H. unfold create_price in H.
  destruct (check_timestamp now x); simpl in H; [|inversion H; subst; exact Hm].
  destruct (check_msg p m x); simpl in H; [|inversion H; subst; exact Hm].
  set (w0 := match zget (m_workers m) (m_feeder x) with Some w => w | None => new_worker m end) in *.
  assert (Hw0 : w_sealed w0 = false -> worker_inv p w0).
  { unfold w0. destruct (zget (m_workers m) (m_feeder x)) as [w|] eqn:Hz.
    - intro Hs. exact (Hm _ _ (zget_in _ _ _ Hz) Hs).
    - intros _. apply new_worker_inv. }
  destruct (w_sealed w0) eqn:Es.
  - inversion H; subst. apply mem_inv_set; [exact Hm | intro E; rewrite E in Es; discriminate].
  - match type of H with context [worker_do ?a ?b ?c ?d ?e ?f] => destruct (worker_do a b c d e f) as [w1 filled] eqn:Hwd end.
    pose proof (worker_do_inv _ _ _ _ _ _ _ _ (Hw0 eq_refl) Hwd) as Hw1.
    assert (Hm1 : mem_inv p (set_worker m (m_feeder x) w1)) by (apply mem_inv_set; [exact Hm | intros _; exact Hw1]).
    destruct filled; cbv beta iota in H; unfold negb in H; [|inversion H; subst; exact Hm1].
    destruct (agg_aggregate p w1); try (inversion H; subst; exact Hm1).
    destruct (zget (m_rounds m) (m_feeder x)); [|inversion H; subst; exact Hm1].
    destruct (get_feeder p (m_feeder x)); [|inversion H; subst; exact Hm1].
    match type of H with context [append_price ?a ?b ?c ?d] => destruct (append_price a b c d) end.
    inversion H; subst. apply mem_inv_set; [|intro E; discriminate E].
    apply (mem_inv_same_workers p (set_worker m (m_feeder x) w1)); [reflexivity | exact Hm1].
Qed.

Lemma run_msgs_mem_inv p now : forall l s m so m',
  mem_inv p m -> run_msgs p now s m l = (so, m') -> mem_inv p m'.
Proof.
  induction l as [|x r IH]; intros s m so m' Hm H; simpl in H.
  - inversion H; subst. exact Hm.
  - destruct (create_price p now s m x) as [[s1 m1] res] eqn:Hc.
    pose proof (create_price_mem_inv _ _ _ _ _ _ _ _ Hm Hc) as Hm1.
    destruct res; try (inversion H; subst; exact Hm1); exact (IH _ _ _ _ Hm1 H).
Qed.

Lemma deliver_tx_mem_inv p now st t st' a b :
  mem_inv p (st_mem st) -> deliver_tx p now st t = (st', a, b) -> mem_inv p (st_mem st').
Proof.
  intros Hm H. unfold deliver_tx in H. destruct (ante p (st_store st) t) as [s1|]; [|inversion H; subst; exact Hm].
  destruct (run_msgs p now s1 (st_mem st) (t_msgs t)) as [[s2|] m2] eqn:Hr;
    inversion H; subst; simpl; exact (run_msgs_mem_inv _ _ _ _ _ _ _ Hm Hr).
Qed.

(* EndBlock only ever deletes workers *)
Definition workers_sub (a b : list (Z * worker)) : Prop := forall x, In x a -> In x b.

Lemma seal_one_workers p h force acc fr :
  workers_sub (snd (fst (fst (seal_one p h force acc fr)))) (snd (fst (fst acc))).
Proof.
  destruct acc as [[[rounds workers] failed] sealed]. destruct fr as [fid r]. unfold seal_one. simpl.
  set (X := if r_status r =? 1 then
              match get_feeder p fid with
              | Some f => if ((0 <? f_end f) && (f_end f <=? h)) || (p_max_nonce p <=? usub h (r_base r)) || force
                          then (if (0 <? f_end f) && (f_end f <=? h) then zdel rounds fid else zset rounds fid (mkRound (r_base r) (r_next r) 2),
                                zdel workers fid, failed ++ [f_token f], sealed ++ [fid])
                          else (rounds, workers, failed, sealed)
              | None => (rounds, workers, failed, sealed)
              end
            else (rounds, workers, failed, sealed)).
  assert (HX : workers_sub (snd (fst (fst X))) workers).
  { unfold X. destruct (r_status r =? 1); [|intros x Hx; exact Hx].
    destruct (get_feeder p fid) as [f|]; [|intros x Hx; exact Hx].
    destruct (((0 <? f_end f) && (f_end f <=? h)) || (p_max_nonce p <=? usub h (r_base r)) || force); simpl;
      [intros x Hx; exact (in_zdel _ _ _ Hx) | intros x Hx; exact Hx]. }
  destruct X as [[[rounds1 workers1] failed1] sealed1]. simpl in HX.
  destruct (zget workers1 fid) as [w|]; [|exact HX].
  destruct (w_sealed w); simpl; [|exact HX]. intros x Hx. apply HX. exact (in_zdel _ _ _ Hx).
Qed.

Lemma seal_round_workers p h force m :
  workers_sub (m_workers (fst (fst (seal_round p h force m)))) (m_workers m).
Proof.
  unfold seal_round.
  assert (G : forall l acc, workers_sub (snd (fst (fst (fold_left (seal_one p h force) l acc)))) (snd (fst (fst acc)))).
  { induction l as [|fr r IH]; intro acc; simpl; [intros x Hx; exact Hx|].
    intros x Hx. apply (seal_one_workers p h force acc fr). exact (IH _ x Hx). }
  specialize (G (m_rounds m) (m_rounds m, m_workers m, [], [])).
  destruct (fold_left (seal_one p h force) (m_rounds m) (m_rounds m, m_workers m, [], [])) as [[[rounds workers] failed] sealed].
  simpl in *. exact G.
Qed.

Lemma prepare_one_workers p h acc f :
  workers_sub (snd (fst (prepare_one p h acc f))) (snd (fst acc)).
Proof.
  destruct acc as [[rounds workers] fresh]. unfold prepare_one.
  destruct (((0 <? f_end f) && (f_end f <=? h)) || (h <? f_start f)); [intros x Hx; exact Hx|].
  cbv zeta. destruct (zget rounds (f_id f)) as [r|].
  - destruct ((h - f_start f) mod f_interval f =? 0); simpl; [intros x Hx; exact (in_zdel _ _ _ Hx)|].
    destruct ((r_status r =? 1) && (p_max_nonce p <=? (h - f_start f) mod f_interval f)); simpl; intros x Hx; exact Hx.
  - destruct (p_max_nonce p <=? (h - f_start f) mod f_interval f); simpl; intros x Hx; exact Hx.
Qed.

Lemma prepare_round_workers p h m : workers_sub (m_workers (fst (prepare_round p h m))) (m_workers m).
Proof.
  unfold prepare_round. destruct (h <? 1); [intros x Hx; exact Hx|].
  assert (G : forall l acc, workers_sub (snd (fst (fold_left (prepare_one p h) l acc))) (snd (fst acc))).
  { induction l as [|f r IH]; intro acc; simpl; [intros x Hx; exact Hx|].
    intros x Hx. apply (prepare_one_workers p h acc f). exact (IH _ x Hx). }
  specialize (G (p_feeders p) (m_rounds m, m_workers m, [])).
  destruct (fold_left (prepare_one p h) (p_feeders p) (m_rounds m, m_workers m, [])) as [[rounds workers] fresh].
  simpl in *. exact G.
Qed.

Lemma end_block_mem_inv p h u st : mem_inv p (st_mem st) -> mem_inv p (st_mem (end_block p h u st)).
Proof.
  intro Hm. unfold end_block.
  set (m1 := if match u with [] => false | _ => true end
             then mkMem (fold_left apply_update u (m_vals (st_mem st)))
                        (zsum (map snd (fold_left apply_update u (m_vals (st_mem st)))))
                        (m_rounds (st_mem st)) (m_workers (st_mem st))
             else st_mem st).
  assert (H1 : m_workers m1 = m_workers (st_mem st)) by (unfold m1; destruct u; reflexivity).
  pose proof (seal_round_workers p h match u with [] => false | _ => true end m1) as H2.
  destruct (seal_round p h match u with [] => false | _ => true end m1) as [[m2 failed] sealed]. simpl in H2.
  pose proof (prepare_round_workers p h m2) as H3.
  destruct (prepare_round p h m2) as [m3 fresh]. simpl in *.
  intros fid w Hin Hs. apply (Hm fid w); [|exact Hs]. rewrite <- H1. apply H2. apply H3. exact Hin.
Qed.

(* histories *)
Inductive op := OpTx (now : Z) (t : tx) | OpEnd (h : Z) (updates : list (Z * Z)).

Definition step (p : params) (st : state) (o : op) : state :=
  match o with
  | OpTx now t => fst (fst (deliver_tx p now st t))
  | OpEnd h u => end_block p h u st
  end.

Definition run (p : params) (st : state) (ops : list op) : state := fold_left (step p) ops st.

Lemma run_mem_inv p : forall ops st, mem_inv p (st_mem st) -> mem_inv p (st_mem (run p st ops)).
Proof.
  induction ops as [|o r IH]; intros st Hm; simpl; [exact Hm|]. apply IH.
  destruct o as [now t|h u]; simpl.
  - destruct (deliver_tx p now st t) as [[st' a] b] eqn:Hd. simpl. exact (deliver_tx_mem_inv _ _ _ _ _ _ _ Hm Hd).
  - apply end_block_mem_inv. exact Hm.
Qed.

Lemma no_workers_inv p m : m_workers m = [] -> mem_inv p m.
Proof. intros E f w Hin. rewrite E in Hin. contradiction. Qed.

(* ================= at most one final price per round ================= *)
Lemma closed_rejects p now s m x r :
  zget (m_rounds m) (m_feeder x) = Some r -> r_status r <> 1 -> create_price p now s m x = (s, m, MsgErr).
Proof.
  intros Hr Hst. unfold create_price. destruct (check_timestamp now x); simpl; [|reflexivity].
  assert (Hc : check_msg p m x = false).
  { unfold check_msg. rewrite Hr. apply Z.eqb_neq in Hst. rewrite Hst. simpl. apply andb_false_r. }
  rewrite Hc. reflexivity.
Qed.

Definition is_final (r : msg_res) : bool := match r with MsgFinal => true | _ => false end.

Lemma create_price_rounds p now s m x s' m' res :
  create_price p now s m x = (s', m', res) ->
  forall fid,
    zget (m_rounds m') fid = zget (m_rounds m) fid \/
    (fid = m_feeder x /\ res = MsgFinal /\ exists r0, zget (m_rounds m') fid = Some (mkRound (r_base r0) (r_next r0) 2)).
Proof.
  intros H fid. unfold create_price in H.
  destruct (check_timestamp now x); simpl in H; [|inversion H; subst; left; reflexivity].
  destruct (check_msg p m x); simpl in H; [|inversion H; subst; left; reflexivity].
  match type of H with context [w_sealed ?w] => destruct (w_sealed w) end; [inversion H; subst; left; reflexivity|].
  match type of H with context [worker_do ?a ?b ?c ?d ?e ?f] => destruct (worker_do a b c d e f) as [w1 filled] end.
  destruct filled; cbv beta iota in H; unfold negb in H; [|inversion H; subst; left; reflexivity].
  destruct (agg_aggregate p w1); try (inversion H; subst; left; reflexivity).
  destruct (zget (m_rounds m) (m_feeder x)) as [r0|]; [|inversion H; subst; left; reflexivity].
  destruct (get_feeder p (m_feeder x)); [|inversion H; subst; left; reflexivity].
  match type of H with context [append_price ?a ?b ?c ?d] => destruct (append_price a b c d) end.
  inversion H; subst. simpl. rewrite zget_zset. destruct (fid =? m_feeder x) eqn:E.
  - right. apply Z.eqb_eq in E. split; [exact E|]. split; [reflexivity|]. exists r0. reflexivity.
  - left. reflexivity.
Qed.

(* messages arrive with arbitrary block times and on arbitrary stores (txs may have been rolled back in
   between); only the memory is threaded *)
Fixpoint finals (p : params) (m : mem) (l : list (Z * store * msg)) (fid : Z) : Z :=
  match l with
  | [] => 0
  | (now, s, x) :: r =>
      let '(_, m', res) := create_price p now s m x in
      (if is_final res && (m_feeder x =? fid) then 1 else 0) + finals p m' r fid
  end.

Lemma finals_closed p fid : forall l m r0,
  zget (m_rounds m) fid = Some r0 -> r_status r0 = 2 -> finals p m l fid = 0.
Proof.
  induction l as [|[[now s] x] r IH]; intros m r0 Hr Hst; simpl; [reflexivity|].
  destruct (create_price p now s m x) as [[s' m'] res] eqn:Hc.
  destruct (create_price_rounds _ _ _ _ _ _ _ _ Hc fid) as [Hsame|[Hf [Hres [r1 Hr1]]]].
  - assert (Hnf : is_final res && (m_feeder x =? fid) = false).
    { destruct (m_feeder x =? fid) eqn:E; [|apply andb_false_r]. apply Z.eqb_eq in E.
      rewrite <- E in Hr. rewrite (closed_rejects p now s m x r0 Hr) in Hc by lia. inversion Hc; subst. reflexivity. }
    rewrite Hnf. rewrite <- Hsame in Hr. rewrite (IH m' r0 Hr Hst). reflexivity.
  - subst fid. rewrite (closed_rejects p now s m x r0 Hr) in Hc by lia. inversion Hc; subst. discriminate.
Qed.

Lemma finals_once p fid : forall l m, finals p m l fid <= 1.
Proof.
  induction l as [|[[now s] x] r IH]; intro m; simpl; [lia|].
  destruct (create_price p now s m x) as [[s' m'] res] eqn:Hc.
  destruct (is_final res && (m_feeder x =? fid)) eqn:E; [|specialize (IH m'); lia].
  apply andb_prop in E. destruct E as [E1 E2]. apply Z.eqb_eq in E2. destruct res; try discriminate.
  destruct (create_price_rounds _ _ _ _ _ _ _ _ Hc fid) as [Hsame|[_ [_ [r1 Hr1]]]].
  - (* a final message always closes its round, so this branch is impossible; show it via the other lemma *)
    unfold create_price in Hc.
    destruct (check_timestamp now x); simpl in Hc; [|inversion Hc].
    destruct (check_msg p m x); simpl in Hc; [|inversion Hc].
    match type of Hc with context [w_sealed ?w] => destruct (w_sealed w) end; [inversion Hc|].
    match type of Hc with context [worker_do ?a ?b ?c ?d ?e ?f] => destruct (worker_do a b c d e f) as [w1 filled] end.
    destruct filled; cbv beta iota in Hc; unfold negb in Hc; [|inversion Hc].
    destruct (agg_aggregate p w1); try (inversion Hc; fail).
    destruct (zget (m_rounds m) (m_feeder x)) as [r0|]; [|inversion Hc].
    destruct (get_feeder p (m_feeder x)); [|inversion Hc].
    match type of Hc with context [append_price ?a ?b ?c ?d] => destruct (append_price a b c d) end.
    inversion Hc; subst. simpl in Hsame. rewrite zget_zset_same in Hsame.
    assert (H0 : finals p
                   (set_worker (set_round (set_worker m (m_feeder x) w1) (m_feeder x) (mkRound (r_base r0) (r_next r0) 2))
                               (m_feeder x) (sealed_worker x0)) r (m_feeder x) = 0).
    { apply (finals_closed p (m_feeder x) r _ (mkRound (r_base r0) (r_next r0) 2)); [simpl; apply zget_zset_same | reflexivity]. }
    rewrite H0. lia.
  - rewrite (finals_closed p fid r m' _ Hr1 eq_refl). lia.
Qed.

(* ================= carry-forward ================= *)
Definition tp_wf (t : tprices) : Prop := forall k x, zget (tp_list t) k = Some x -> pt_round x = k.

Lemma append_price_ok p s tok x :
  pt_round x = next_round_id (get_tp s tok) ->
  exists l2, append_price p s tok x = (set_tp s tok (mkTP (Some (next_round_id (get_tp s tok) + 1)) l2), true) /\
             (usub (next_round_id (get_tp s tok)) (p_max_size p) <> next_round_id (get_tp s tok) ->
              zget l2 (next_round_id (get_tp s tok)) = Some x).
Proof.
  intro Hr. unfold append_price. rewrite Hr, Z.eqb_refl. simpl.
  set (n := next_round_id (get_tp s tok)).
  destruct (0 <? usub n (p_max_size p)).
  - eexists. split; [reflexivity|]. intro Hne. rewrite zget_zdel_other by (intro E; apply Hne; symmetry; exact E).
    apply zget_zset_same.
  - eexists. split; [reflexivity|]. intros _. apply zget_zset_same.
Qed.

Lemma get_tp_set_tp s tok t : get_tp (set_tp s tok t) tok = t.
Proof. unfold get_tp, set_tp. simpl. rewrite zget_zset_same. reflexivity. Qed.

Lemma get_tp_set_tp_other s tok t tok2 : tok2 <> tok -> get_tp (set_tp s tok t) tok2 = get_tp s tok2.
Proof. intro H. unfold get_tp, set_tp. simpl. rewrite zget_zset_other by exact H. reflexivity. Qed.

Lemma latest_round t x : tp_wf t -> latest_price t = Some x -> pt_round x + 1 = next_round_id t.
Proof.
  unfold latest_price, next_round_id. intros Hwf H. destruct (tp_next t) as [n|]; [|discriminate].
  destruct (n <=? 1) eqn:E; [discriminate|]. apply Z.leb_gt in E. rewrite (Hwf _ _ H).
  destruct (n =? 0) eqn:E0; [apply Z.eqb_eq in E0; lia | lia].
Qed.

Definition tp_nonneg (t : tprices) : Prop := match tp_next t with Some n => 0 <= n | None => True end.

Lemma next_round_id_pos t : tp_nonneg t -> 1 <= next_round_id t.
Proof.
  unfold tp_nonneg, next_round_id. destruct (tp_next t) as [n|]; [|lia].
  intro H. destruct (n =? 0) eqn:E; [lia | apply Z.eqb_neq in E; lia].
Qed.

Lemma next_round_id_some n : 1 <= n -> next_round_id (mkTP (Some n) []) = n.
Proof. intro H. unfold next_round_id. simpl. destruct (n =? 0) eqn:E; [apply Z.eqb_eq in E; lia | reflexivity]. Qed.

(* GrowRoundID writes exactly one new round, the expected one, holding the previous price; other tokens and
   the nonce rows are untouched *)
Lemma grow_round_spec p s tok :
  tp_wf (get_tp s tok) -> tp_nonneg (get_tp s tok) ->
  let t := get_tp s tok in
  let n := next_round_id t in
  let s' := grow_round p s tok in
  next_round_id (get_tp s' tok) = n + 1 /\
  (usub n (p_max_size p) <> n -> zget (tp_list (get_tp s' tok)) n = Some (carry_of (latest_price t) n)) /\
  (forall tok2, tok2 <> tok -> get_tp s' tok2 = get_tp s tok2) /\
  s_nonces s' = s_nonces s.
Proof.
  intros Hwf Hnn. cbv zeta. pose proof (next_round_id_pos _ Hnn) as Hpos. unfold grow_round.
  assert (Hnext : forall l2, next_round_id (mkTP (Some (next_round_id (get_tp s tok) + 1)) l2) = next_round_id (get_tp s tok) + 1).
  { intro l2. unfold next_round_id at 1. simpl. destruct (next_round_id (get_tp s tok) + 1 =? 0) eqn:E; [apply Z.eqb_eq in E; lia | reflexivity]. }
  destruct (latest_price (get_tp s tok)) as [x|] eqn:Hl.
  - pose proof (latest_round _ _ Hwf Hl) as Hn.
    destruct (append_price_ok p s tok (mkPtr (pt_round x + 1) (pt_price x) (pt_dec x) (pt_ts x)) Hn) as [l2 [Ha Hz]].
    rewrite Ha. simpl. rewrite get_tp_set_tp. simpl. split; [apply Hnext|]. split; [exact Hz|]. split; [|reflexivity].
    intros tok2 Hne. apply get_tp_set_tp_other. exact Hne.
  - destruct (append_price_ok p s tok (mkPtr (next_round_id (get_tp s tok)) None 0 (-1)) eq_refl) as [l2 [Ha Hz]].
    rewrite Ha. simpl. rewrite get_tp_set_tp. simpl. split; [apply Hnext|]. split; [exact Hz|]. split; [|reflexivity].
    intros tok2 Hne. apply get_tp_set_tp_other. exact Hne.
Qed.
