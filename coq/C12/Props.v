(* C12/Props.v — property theorems only (oracle rounds: one price per round, only with a super-majority, no gaps). *)
From Coq Require Import List String Bool ZArith Lia Sorting.Sorted Sorting.Permutation.
From Exo Require Import Base.Util Oracle.Model Oracle.Lemmas C12.Proofs C12.Lift C12.Agree C12.NoGap C12.Retention C13.Budget C12.NoGapMulti C12.NoGapClean C12.NoGapChain C12.ParamsUpdate C12.RetentionRun C12.PowersConst C12.Final.
Import ListNotations.
Local Open Scope Z_scope.

(* the threshold is the strict inequality power * B > total * A, for every power split *)
Theorem C12_threshold_strict : forall p power total,
  exceeds p power total = true <-> total * p_thr_a p < power * p_thr_b p.
Proof. exact exceeds_spec. Qed.
Print Assumptions C12_threshold_strict.

(* Over ALL histories (any transactions, any blocks, any validator-set updates) starting from a memory without
   workers: whenever a message completes a round (MsgFinal), then in the worker state that message produced
     - the reporting power exceeds the threshold, and it is the sum of the powers of pairwise different reporters,
     - some det-ID is confirmed with the written price, backed by a (price, power) entry over the threshold,
     - the written price is the median of the per-validator values (which all equal the confirmed value),
   the round was open and is closed afterwards, and the price goes to the store as round r_next of that round
   (or, if the store refuses that round id, the previous price is carried instead). *)
Theorem C12_threshold_median : forall p st0 ops now s x s' m',
  m_workers (st_mem st0) = [] ->
  create_price p now s (st_mem (run p st0 ops)) x = (s', m', MsgFinal) ->
  exists w1 price r f,
    exceeds p (w_rpower w1) (w_total w1) = true /\
    w_rpower w1 = zsum (map rp_power (w_reports w1)) /\ NoDup (map rp_val (w_reports w1)) /\
    (exists d c, w_ds w1 = Some d /\ In c (crounds_of w1) /\ cr_det c = d /\ cr_price c = Some price /\
                 (exists pw, In (price, pw) (cr_prices c) /\ exceeds p pw (w_total w1) = true) /\
                 (exists vs, all_some (map report_value (w_reports w1)) = Some vs /\ median vs = Some price /\
                             Forall (fun y => y = price) vs /\ vs <> [])) /\
    zget (m_rounds (st_mem (run p st0 ops))) (m_feeder x) = Some r /\ r_status r = 1 /\
    get_feeder p (m_feeder x) = Some f /\
    zget (m_rounds m') (m_feeder x) = Some (mkRound (r_base r) (r_next r) 2) /\
    let item := mkPtr (r_next r) (Some price) (match token_decimal p (f_token f) with Some d => d | None => 0 end) (first_ts x) in
    let s2 := if snd (append_price p s (f_token f) item) then fst (append_price p s (f_token f) item)
              else grow_round p s (f_token f) in
    s_prices s' = s_prices s2.
Proof. exact C12_threshold_median_l. Qed.
Print Assumptions C12_threshold_median.

(* the Go panics the aggregation could run into (a report slot with a nil price, the median of an empty list, a missing
   round or feeder after checkMsg) are unreachable: over all histories no message ends in the model's panic outcome *)
Theorem C12_no_aggregation_panic : forall p st0 ops now s x s' m',
  m_workers (st_mem st0) = [] -> create_price p now s (st_mem (run p st0 ops)) x <> (s', m', MsgPanic).
Proof. exact create_price_no_panic_l. Qed.
Print Assumptions C12_no_aggregation_panic.

Definition ex_p_agree : params := mkParams 3 2 3 5 100 [] [].

(* Who agrees: for ANY sequence of submissions reaching the worker of one round (any senders, powers >= 0, nonces,
   item lists - duplicates, conflicting and repeated reports included), if the aggregator produces the final price x
   then there is a det-ID d such that the validators whose FIRST accepted report for d carried the value x hold more
   than A/B of the total power: [g] is the ghost log of the reports the filter let through, it has at most one
   entry per (validator, det-ID), every entry stems from an actual submission of that validator with the power it
   was submitted with, and the summed power of the entries for (d, x) exceeds the threshold. *)
Theorem C12_agreement_distinct_validators : forall p m l x,
  (forall a, In a l -> 0 <= cl_pw a) -> 0 <= p_thr_b p ->
  let w := fst (run_worker p (new_worker m) [] l) in
  let g := snd (run_worker p (new_worker m) [] l) in
  agg_aggregate p w = AggFinal x ->
  exists d,
    exceeds p (gsum g d x) (w_total w) = true /\
    NoDup (map (fun e => (g_c e, g_det e)) g) /\
    (forall e, In e g -> exists a, In a l /\ from_call a e).
Proof. exact agreement_by_distinct_validators. Qed.
Print Assumptions C12_agreement_distinct_validators.

(* the ghost does not change the computation *)
Theorem C12_agreement_ghost_erasure : forall p l w g,
  fst (run_worker p w g l) = fold_left (fun w a => fst (worker_do p w (cl_c a) (cl_pw a) (cl_n a) (cl_items a))) l w.
Proof. exact run_worker_erase. Qed.
Print Assumptions C12_agreement_ghost_erasure.

(* a validator repeating its report (new nonce, same det-ID, even another value) is counted once *)
Example ex_equivocation_counted_once :
  let m := mkMem [(0, 34); (1, 33); (2, 33)] 100 [] [] in
  let it v := mkPI "7" v 8 100 true in
  let r := run_worker ex_p_agree (new_worker m) []
             [mkCall 0 34 1 [it 100]; mkCall 0 34 2 [it 100]; mkCall 0 34 3 [it 101]; mkCall 1 33 1 [it 101]] in
  agg_aggregate ex_p_agree (fst r) = AggNone /\ List.length (snd r) = 2%nat.
Proof. vm_compute. split; reflexivity. Qed.

(* Powers are constant during a round - PROVED, not by inspection. jmem is an invariant of all histories: every
   unsealed worker whose round is open was created with the CURRENT total power and every report in it carries the
   CURRENT power of its validator (a validator-set change force-seals every open round and drops its worker in the same
   EndBlock; rounds re-opened there start with a fresh worker). Powers change nowhere else. *)
Theorem C12_powers_constant_in_round : forall p ops st,
  jmem p (st_mem st) -> jmem p (st_mem (run p st ops)).
Proof. intros p ops st. exact (run_j p ops st). Qed.
Print Assumptions C12_powers_constant_in_round.

Theorem C12_powers_change_only_at_validator_update : forall p now st t st' a ok h,
  (deliver_tx p now st t = (st', a, ok) ->
   m_vals (st_mem st') = m_vals (st_mem st) /\ m_total (st_mem st') = m_total (st_mem st)) /\
  (m_vals (st_mem (end_block p h [] st)) = m_vals (st_mem st) /\ m_total (st_mem (end_block p h [] st)) = m_total (st_mem st)).
Proof. intros p now st t st' a ok h. split; [exact (deliver_tx_vals p now st t st' a ok) | exact (end_block_vals_unforced p h st)]. Qed.
Print Assumptions C12_powers_change_only_at_validator_update.

(* hence: a price is final only when validators holding more than A/B of the CURRENT total power have reported -
   pairwise different validators, each with its CURRENT power *)
Theorem C12_final_with_current_powers : forall p st0 ops now s x s' m',
  m_rounds (st_mem st0) = [] -> m_workers (st_mem st0) = [] ->
  let m := st_mem (run p st0 ops) in
  create_price p now s m x = (s', m', MsgFinal) ->
  exists w1 price,
    agg_aggregate p w1 = AggFinal price /\ exceeds p (w_rpower w1) (m_total m) = true /\
    w_rpower w1 = zsum (map rp_power (w_reports w1)) /\ NoDup (map rp_val (w_reports w1)) /\
    Forall (fun rp => zget (m_vals m) (rp_val rp) = Some (rp_power rp)) (w_reports w1).
Proof. exact final_with_current_powers. Qed.
Print Assumptions C12_final_with_current_powers.

(* BigIntList.Median: the middle element of the sorted permutation (odd length), the floor mean of the two
   middle elements (even length); it lies within any bounds that hold for all elements *)
Theorem C12_median_is_middle : forall l x,
  median l = Some x ->
  let s := sort_z l in
  Permutation l s /\ Sorted Z.le s /\
  ((Nat.modulo (List.length s) 2 = 1%nat /\ nth_error s (Nat.div (List.length s) 2) = Some x) \/
   (Nat.modulo (List.length s) 2 <> 1%nat /\
    exists a b, nth_error s (Nat.div (List.length s) 2) = Some a /\
                nth_error s (Nat.div (List.length s) 2 - 1) = Some b /\ x = (a + b) / 2)).
Proof. exact median_spec. Qed.
Print Assumptions C12_median_is_middle.

Theorem C12_median_in_range : forall lo hi l x,
  Forall (fun y => lo <= y <= hi) l -> median l = Some x -> lo <= x <= hi.
Proof. exact median_in_range. Qed.
Print Assumptions C12_median_in_range.

(* at most one final price per (feeder, round): whatever messages arrive (any senders, times, stores), once a
   message has completed the round every later message for that feeder is rejected until EndBlock reopens it *)
Theorem C12_once : forall p fid l m, finals p m l fid <= 1.
Proof. exact finals_once. Qed.
Print Assumptions C12_once.

Theorem C12_closed_round_rejects : forall p now s m x r,
  zget (m_rounds m) (m_feeder x) = Some r -> r_status r <> 1 -> create_price p now s m x = (s, m, MsgErr).
Proof. exact closed_rejects. Qed.
Print Assumptions C12_closed_round_rejects.

(* a round closed without a price carries the previous price forward: exactly one new round, the expected id *)
Theorem C12_carry_forward : forall p s tok,
  tp_wf (get_tp s tok) -> tp_nonneg (get_tp s tok) ->
  let t := get_tp s tok in
  let n := next_round_id t in
  let s' := grow_round p s tok in
  next_round_id (get_tp s' tok) = n + 1 /\
  (usub n (p_max_size p) <> n -> zget (tp_list (get_tp s' tok)) n = Some (carry_of (latest_price t) n)) /\
  (forall tok2, tok2 <> tok -> get_tp s' tok2 = get_tp s tok2) /\
  s_nonces s' = s_nonces s.
Proof. exact grow_round_spec. Qed.
Print Assumptions C12_carry_forward.

(* Retention: a price list whose keys are strictly increasing round ids inside the window
   [NextRoundID - MaxSizePrices, NextRoundID) has at most MaxSizePrices entries, and both functions through which
   every price write goes (AppendPriceTR directly for a final price, GrowRoundID for a carried one) keep the list
   inside that window (the uint64 wrap of NextRoundID - MaxSizePrices included). Partial: stated per write, not
   lifted over run (the lift needs "NextRoundID stays below 2^64" along the history). *)
Theorem C12_retention_partial : forall p s tok x,
  1 <= p_max_size p < two64 -> tp_nonneg (get_tp s tok) -> next_round_id (get_tp s tok) < two64 ->
  tp_window p (get_tp s tok) ->
  zlen (tp_list (get_tp s tok)) <= p_max_size p /\
  tp_window p (get_tp (fst (append_price p s tok x)) tok) /\
  zlen (tp_list (get_tp (fst (append_price p s tok x)) tok)) <= p_max_size p /\
  tp_window p (get_tp (grow_round p s tok) tok) /\
  zlen (tp_list (get_tp (grow_round p s tok) tok)) <= p_max_size p.
Proof. exact C12_retention_partial_l. Qed.
Print Assumptions C12_retention_partial.

(* ... and over ALL histories (any txs, blocks, validator-set updates): starting from a store whose price lists are
   inside their windows (e.g. the empty store), every token keeps at most MaxSizePrices rounds - as long as no
   NextRoundID reaches 2^64 along the run (small_run; it is a uint64 in the code) *)
Theorem C12_retention : forall p ops st tok,
  1 <= p_max_size p < two64 -> all_window p (st_store st) -> small_run p st ops ->
  zlen (tp_list (get_tp (st_store (run p st ops)) tok)) <= p_max_size p.
Proof. exact retention_run. Qed.
Print Assumptions C12_retention.

Example ex_all_window_empty : forall p m, all_window p (st_store (mkState (mkStore [] []) m 0)).
Proof.
  intros p m tok. unfold get_tp. simpl. split; [exact I|]. split; [exact I | intros k x []].
Qed.

Example ex_window : tp_window (mkParams 3 2 3 5 2 [] [])
                              (mkTP (Some 5) [(3, mkPtr 3 (Some 7) 0 0); (4, mkPtr 4 (Some 8) 0 0)]).
Proof.
  split; simpl.
  - split; [intros k v [H|[]]; inversion H; lia | split; [intros k v [] | exact I]].
  - intros k x [H|[H|[]]]; inversion H; subst; unfold next_round_id; simpl; lia.
Qed.

(* Round numbering, one feeder, ALL histories of blocks (any number of blocks, any validator-set updates, any
   single-message transactions - admitted or not, counted or not, from anybody): starting from a state in which
   store and memory agree on the feeder's position (ng_inv, e.g. any state before the feeder starts), after every
   EndBlock b the stored NextRoundID is
       StartRoundID                                   before the start block,
       StartRoundID + (b-Start)/Interval  [+1 once the round is closed]   while the feeder runs,
       StartRoundID + (End-1-Start)/Interval + 1      after the end block,
   the round of the current interval is closed as soon as its window of MaxNonce blocks is over, and a new round
   is only opened after the previous one was closed: one round per interval, each closed exactly once.
   Partial: (1) one feeder in the params, (2) transactions with one message (see the refutation below). *)
Theorem C12_no_gap_single_feeder_partial : forall p f bl b st,
  ng_hyp p f -> 0 <= b -> b + Z.of_nat (List.length bl) < two64 ->
  Forall (fun bk => Forall (fun nt => single_msg (snd nt)) (fst bk)) bl ->
  ng_inv p f b st ->
  let b' := b + Z.of_nat (List.length bl) in
  let st' := run_blocks p b st bl in
  ng_inv p f b' st' /\
  nogap_state p f b' (next_round_id (get_tp (st_store st') (f_token f))) false = true.
Proof. exact C12_no_gap_single_feeder_partial_l. Qed.
Print Assumptions C12_no_gap_single_feeder_partial.

(* The same for EVERY feeder of a params set with any number of feeders (pairwise different feeder ids and tokens,
   each with its own interval / start / end block): the other feeders' rounds, seals, price writes and carried
   prices never disturb it (proved by simulating the projection onto one feeder with the single-feeder machine).
   Still partial in one respect only: transactions carry one message. *)
Theorem C12_no_gap_partial : forall p f H0 bl b st,
  mg_hyp p f -> 0 <= b -> b + Z.of_nat (List.length bl) < two64 -> b + Z.of_nat (List.length bl) <= H0 ->
  Forall (fun bk => Forall (fun nt => single_msg (snd nt)) (fst bk)) bl ->
  mgx_inv p f H0 b st ->
  let b' := b + Z.of_nat (List.length bl) in
  let st' := run_blocks p b st bl in
  mgx_inv p f H0 b' st' /\
  nogap_state p f b' (next_round_id (get_tp (st_store st') (f_token f))) false = true.
Proof. exact C12_no_gap_partial_l. Qed.
Print Assumptions C12_no_gap_partial.

(* The strongest form: ANY transactions (any number of messages, for any feeders), as long as the history is clean:
   no admitted transaction fails after one of its messages completed a round (clean_blocks checks that along the
   run). Single-message transactions are always clean (single_msg_clean), so this subsumes C12_no_gap_partial; the
   excluded pattern is exactly the one of C12_no_gap_refuted - under valid params it is the ONLY way to lose a round. *)
Theorem C12_no_gap_clean_histories : forall p f H0 bl b st,
  mg_hyp p f -> 0 <= b -> b + Z.of_nat (List.length bl) < two64 -> b + Z.of_nat (List.length bl) <= H0 ->
  clean_blocks p b st bl -> mgx_inv p f H0 b st ->
  let b' := b + Z.of_nat (List.length bl) in
  let st' := run_blocks p b st bl in
  mgx_inv p f H0 b' st' /\
  nogap_state p f b' (next_round_id (get_tp (st_store st') (f_token f))) false = true.
Proof. exact C12_no_gap_clean_histories_l. Qed.
Print Assumptions C12_no_gap_clean_histories.

(* mgx_inv = mg_inv (store and memory agree on f) + co_ok (every OTHER feeder of f's token is either ended and quiet -
   no round or a closed one - or starts after the horizon H0 and has no round yet). Feeder ids must be pairwise
   different (mg_hyp), tokens need not be. With pairwise different tokens co_ok holds trivially: *)
Theorem C12_co_ok_distinct_tokens : forall p f H0 b m,
  In f (p_feeders p) -> NoDup (map f_token (p_feeders p)) -> co_ok p f H0 b m.
Proof. exact co_ok_distinct_l. Qed.
Print Assumptions C12_co_ok_distinct_tokens.

(* A token handed over from a feeder to its successor (Params.Validate: the successor starts after the predecessor's
   EndBlock, StartRoundID = predecessor's last round id + 1): over any clean history that crosses the hand-over, the
   predecessor's numbering holds up to the block before the successor starts, there it IS the successor's initial
   condition (handover), and the successor's numbering holds from then on - one continuous sequence of round ids for
   the token, no gap and no repeat at the seam. *)
Theorem C12_no_gap_successor : forall p f1 f2 bl1 bl2 b st,
  successor p f1 f2 ->
  0 <= b -> b + Z.of_nat (List.length bl1) = f_start f2 - 1 ->
  f_start f2 - 1 + Z.of_nat (List.length bl2) < two64 ->
  clean_blocks p b st (bl1 ++ bl2) ->
  mg_inv p f1 b st -> zget (m_rounds (st_mem st)) (f_id f2) = None ->
  let st1 := run_blocks p b st bl1 in
  let st2 := run_blocks p b st (bl1 ++ bl2) in
  let b2 := f_start f2 - 1 + Z.of_nat (List.length bl2) in
  mg_inv p f1 (f_start f2 - 1) st1 /\ mg_inv p f2 b2 st2 /\
  nogap_state p f2 b2 (next_round_id (get_tp (st_store st2) (f_token f2))) false = true.
Proof. exact no_gap_successor. Qed.
Print Assumptions C12_no_gap_clean_histories.

Theorem C12_single_message_txs_are_clean : forall p now st t, single_msg t -> clean_tx p now st t.
Proof. exact single_msg_clean. Qed.
Print Assumptions C12_single_message_txs_are_clean.

(* Updates of the params. The params are an argument of the run; an UpdateParams step replaces p by p' between two blocks.
   The two kinds of update that MsgUpdateParams / UpdateTokenFeeder allow on a running chain keep mg_hyp and carry the
   invariant over, so the numbering theorem holds across them:
     (A) upd_add: a new feeder for a token no feeder serves yet, fresh id, no stale round entry, all scalars unchanged;
     (B) upd_end: an EndBlock e for a feeder whose EndBlock was 0, e after the current block and after the start block,
         not inside a window ((e - Start) mod Interval >= MaxNonce), all scalars unchanged - the closed form then uses
         the new end block.
   (The new feeder of (A) starts from its own initial condition: upd_add_new; the other feeders do not notice (B):
   upd_end_inv_other.) Updates of MaxNonce, or of Interval / StartBaseBlock / StartRoundID of a started feeder, are not
   covered - UpdateTokenFeeder refuses the latter, the former would change every open window. *)
Theorem C12_no_gap_across_new_feeder : forall p p' g f H0 bl1 bl2 b st,
  mg_hyp p f -> 0 <= b ->
  b + Z.of_nat (List.length bl1) + Z.of_nat (List.length bl2) < two64 ->
  b + Z.of_nat (List.length bl1) + Z.of_nat (List.length bl2) <= H0 ->
  clean_blocks p b st bl1 -> mgx_inv p f H0 b st ->
  let b1 := b + Z.of_nat (List.length bl1) in
  let st1 := run_blocks p b st bl1 in
  upd_add p p' g (st_mem st1) -> clean_blocks p' b1 st1 bl2 ->
  let b2 := b1 + Z.of_nat (List.length bl2) in
  let st2 := run_blocks p' b1 st1 bl2 in
  mgx_inv p' f H0 b2 st2 /\ nogap_state p' f b2 (next_round_id (get_tp (st_store st2) (f_token f))) false = true.
Proof. exact no_gap_across_add. Qed.
Print Assumptions C12_no_gap_across_new_feeder.

Theorem C12_no_gap_across_end_block : forall p p' f e H0 bl1 bl2 b st,
  mg_hyp p f -> 0 <= b ->
  b + Z.of_nat (List.length bl1) + Z.of_nat (List.length bl2) < two64 ->
  b + Z.of_nat (List.length bl1) + Z.of_nat (List.length bl2) <= H0 ->
  clean_blocks p b st bl1 -> mgx_inv p f H0 b st ->
  let b1 := b + Z.of_nat (List.length bl1) in
  let st1 := run_blocks p b st bl1 in
  upd_end p p' f e b1 -> clean_blocks p' b1 st1 bl2 ->
  let b2 := b1 + Z.of_nat (List.length bl2) in
  let st2 := run_blocks p' b1 st1 bl2 in
  let f' := set_end f e in
  mgx_inv p' f' H0 b2 st2 /\ nogap_state p' f' b2 (next_round_id (get_tp (st_store st2) (f_token f'))) false = true.
Proof. exact no_gap_across_end. Qed.
Print Assumptions C12_no_gap_across_end_block.

(* non-vacuity: three feeders with different intervals / start / end blocks, every one satisfies mg_hyp and the
   initial invariant in the empty state *)
Definition mg_p : params :=
  mkParams 3 2 3 5 100 [mkFeeder 1 1 20 10 1 0; mkFeeder 2 2 23 7 4 0; mkFeeder 3 3 25 6 1 46] [(1, 8); (2, 0); (3, 18)].
Definition mg_st0 : state :=
  mkState (mkStore [(2, mkTP (Some 4) [(3, mkPtr 3 (Some 5) 0 0)])] []) (mkMem [(0, 100); (1, 100); (2, 100)] 300 [] []) 0.

Example ex_mg_hyp : forall f, In f (p_feeders mg_p) -> mg_hyp mg_p f /\ mgx_inv mg_p f 1000 19 mg_st0.
Proof.
  intros f Hin.
  assert (Hnd1 : NoDup (map f_id (p_feeders mg_p))) by (simpl; repeat constructor; simpl; intuition lia).
  assert (Hnd2 : NoDup (map f_token (p_feeders mg_p))) by (simpl; repeat constructor; simpl; intuition lia).
  assert (Hco : co_ok mg_p f 1000 19 (st_mem mg_st0)) by (apply co_ok_distinct_l; assumption).
  simpl in Hin.
  destruct Hin as [E|[E|[E|[]]]]; subst f; (split; [constructor; simpl; auto; try lia; try (right; split; [lia | vm_compute; discriminate])|]);
    (split; [|exact Hco]);
    apply mg_inv_before_start; simpl; try lia; try reflexivity; try exact I;
    try (intros k x H; repeat (destruct H as [H|H]; [inversion H; subst; reflexivity|]); destruct H);
    try (unfold tp_nonneg; simpl; lia).
Qed.

(* a successor configuration satisfying the hypotheses of C12_no_gap_successor *)
Definition sc_f1 : feeder := mkFeeder 1 1 20 10 1 45.
Definition sc_f2 : feeder := mkFeeder 2 1 50 7 4 0.
Definition sc_p : params := mkParams 3 2 3 5 100 [sc_f1; sc_f2] [(1, 8)].
Example ex_successor : successor sc_p sc_f1 sc_f2.
Proof.
  assert (Hnd : NoDup (map f_id (p_feeders sc_p))) by (simpl; repeat constructor; simpl; intuition lia).
  constructor; simpl; try lia; try reflexivity.
  - constructor; simpl; auto; try lia. right. split; [lia | vm_compute; discriminate].
  - constructor; simpl; auto; try lia.
  - intros g [E|[E|[]]] _; [left | right]; symmetry; exact E.
Qed.


(* the full statement: every feeder of the params, every transaction *)
Definition C12_no_gap_full : Prop := forall p bl b st,
  params_valid p = true -> distinct_tokens p = true -> 0 <= b -> b + Z.of_nat (List.length bl) < two64 ->
  (forall f, In f (p_feeders p) -> ng_inv p f b st) ->
  forall f, In f (p_feeders p) ->
    nogap_state p f (b + Z.of_nat (List.length bl))
                (next_round_id (get_tp (st_store (run_blocks p b st bl)) (f_token f))) false = true.

(* ... is false of the faithful model: a transaction [message that completes the round; message that fails]
   seals the round in memory, its price write is rolled back with the failed tx, and EndBlock neither writes nor
   carries a price. Three validators with power 100 each; feeder 1 starts at block 20, interval 10, MaxNonce 3. *)
Definition ng_p : params := mkParams 3 2 3 5 100 [mkFeeder 1 1 20 10 1 0] [(1, 8)].
Definition ng_f : feeder := mkFeeder 1 1 20 10 1 0.
Definition ng_st0 : state := mkState (mkStore [] []) (mkMem [(0, 100); (1, 100); (2, 100)] 300 [] []) 0.
Definition ng_msg (creator nonce : Z) (det : string) : msg := mkMsg creator 1 20 nonce [mkPS 1 [mkPI det 100 8 100 true]].
Definition ng_now : Z := 200000000000.
Definition ng_blocks : list blk :=
  [ ([], []);                                                            (* block 20: the round opens *)
    ([(ng_now, mkTx [ng_msg 0 1 "1"] 300 true true);
      (ng_now, mkTx [ng_msg 1 1 "1"] 300 true true);
      (ng_now, mkTx [ng_msg 2 1 "1"; ng_msg 2 2 "2"] 400 true true)], []); (* block 21 *)
    ([], []); ([], []) ].                                                (* blocks 22, 23: the window is over *)

Theorem C12_no_gap_refuted :
  params_valid ng_p = true /\ ng_inv ng_p ng_f 19 ng_st0 /\
  nogap_state ng_p ng_f 23 (next_round_id (get_tp (st_store (run_blocks ng_p 19 ng_st0 ng_blocks)) 1)) false = false.
Proof.
  split; [vm_compute; reflexivity|]. split.
  - apply ng_inv_before_start; [simpl; lia | reflexivity | intros k x H; destruct H | exact I | reflexivity].
  - vm_compute. reflexivity.
Qed.
Print Assumptions C12_no_gap_refuted.

(* the hypothesis Interval >= 2*MaxNonce (Params.Validate) is needed: with Interval 2 and MaxNonce 3 a new round is
   opened before the previous one was sealed, without any transaction at all. (The token-registration path used to
   store such an interval without Params.Validate; repaired by fix-c12-registration-validate.patch, regression scenario
   dir-C12-registration-validates-interval.) *)
Theorem C12_no_gap_needs_valid_interval_refuted :
  let p := mkParams 3 2 3 5 100 [mkFeeder 1 1 20 2 1 0] [(1, 8)] in
  let f := mkFeeder 1 1 20 2 1 0 in
  params_valid p = false /\ ng_inv p f 19 ng_st0 /\
  nogap_state p f 22 (next_round_id (get_tp (st_store (run_blocks p 19 ng_st0 [([], []); ([], []); ([], [])])) 1)) false = false.
Proof.
  cbv zeta. split; [vm_compute; reflexivity|]. split.
  - apply ng_inv_before_start; [simpl; lia | reflexivity | intros k x H; destruct H | exact I | reflexivity].
  - vm_compute. reflexivity.
Qed.
Print Assumptions C12_no_gap_needs_valid_interval_refuted.

Example ex_ng_hyp : ng_hyp ng_p ng_f.
Proof. constructor; simpl; try reflexivity; try lia. Qed.

(* an honest history of 25 blocks (two full rounds: one with a price, one carried) satisfies the theorem's hypotheses *)
Example ex_no_gap_history :
  let bl := [ ([], []); ([(ng_now, mkTx [ng_msg 0 1 "1"] 300 true true); (ng_now, mkTx [ng_msg 1 1 "1"] 300 true true);
                          (ng_now, mkTx [ng_msg 2 1 "1"] 300 true true)], []) ] ++ repeat ([], []) 23 in
  get_tp (st_store (run_blocks ng_p 19 ng_st0 bl)) 1
  = mkTP (Some 4) [(1, mkPtr 1 (Some 100) 8 100); (2, mkPtr 2 (Some 100) 8 100); (3, mkPtr 3 (Some 100) 8 100)].
Proof. vm_compute. reflexivity. Qed.

(* --- non-vacuity: a history in which a final price is produced at exactly-over-2/3 and not at exactly 2/3 --- *)
Definition ex_p : params := mkParams 3 2 3 5 100 [mkFeeder 1 1 20 10 1 0] [(1, 8)].
Definition ex_st0 (powers : list (Z * Z)) : state :=
  mkState (mkStore [] []) (mkMem powers (zsum (map snd powers)) [] []) 0.
Definition ex_m (creator : Z) (price : Z) : msg := mkMsg creator 1 20 1 [mkPS 1 [mkPI "7" price 8 100 true]].
Definition ex_tx (creator price : Z) : op := OpTx 200000000000 (mkTx [ex_m creator price] 300 true true).

(* 34+33 of 100: 67*3 = 201 > 200 -> final price after two reports *)
Example ex_over_two_thirds :
  latest_price (get_tp (st_store (run ex_p (ex_st0 [(0, 34); (1, 33); (2, 33)])
                                      [OpEnd 20 []; ex_tx 0 100; ex_tx 1 100])) 1)
  = Some (mkPtr 1 (Some 100) 8 100).
Proof. vm_compute. reflexivity. Qed.

(* 33+33 of 99: 66*3 = 198 = 99*2 -> NOT final after two reports *)
Example ex_exactly_two_thirds :
  latest_price (get_tp (st_store (run ex_p (ex_st0 [(0, 33); (1, 33); (2, 33)])
                                      [OpEnd 20 []; ex_tx 0 100; ex_tx 1 100])) 1)
  = None.
Proof. vm_compute. reflexivity. Qed.

(* disagreeing values do not produce a price; the window then closes with a carried (here: empty) price *)
Example ex_disagreement_then_carry :
  let st := run ex_p (ex_st0 [(0, 34); (1, 33); (2, 33)])
                [OpEnd 20 []; ex_tx 0 100; ex_tx 1 101; ex_tx 2 102; OpEnd 21 []; OpEnd 22 []; OpEnd 23 []] in
  get_tp (st_store st) 1 = mkTP (Some 2) [(1, mkPtr 1 None 0 (-1))] /\ s_nonces (st_store st) = [].
Proof. vm_compute. split; reflexivity. Qed.

Example ex_upd_end : upd_end ng_p (mkParams 3 2 3 5 100 [set_end ng_f 55] [(1, 8)]) ng_f 55 30.
Proof. constructor; simpl; try reflexivity; try lia; repeat split; try reflexivity; try lia; vm_compute; discriminate. Qed.

