(* C12/Agree.v — the power the calculator accumulates for a (det-ID, price) pair is bounded by the sum of the powers
   of pairwise different validators whose FIRST report for that det-ID carried that price (ghost log argument). *)
From Coq Require Import List String Bool ZArith Lia.
From Exo Require Import Base.Util Oracle.Model Oracle.Lemmas C13.Proofs C12.Proofs C12.Lift.
Import ListNotations.
Local Open Scope Z_scope.

(* ghost log entry: creator, det-ID, price, power *)
Record gent := mkG { g_c : Z; g_det : string; g_price : Z; g_pow : Z }.

Definition g_match (d : string) (pr : Z) (e : gent) : bool := String.eqb (g_det e) d && (g_price e =? pr).
Definition gsum (g : list gent) (d : string) (pr : Z) : Z := zsum (map g_pow (filter (g_match d pr) g)).

Lemma gsum_app g1 g2 d pr : gsum (g1 ++ g2) d pr = gsum g1 d pr + gsum g2 d pr.
Proof. unfold gsum. rewrite filter_app, map_app, zsum_app. reflexivity. Qed.

Lemma gsum_nonneg g d pr : (forall e, In e g -> 0 <= g_pow e) -> 0 <= gsum g d pr.
Proof.
  unfold gsum. induction g as [|e r IH]; intro H; simpl; [lia|].
  assert (Hr : forall e', In e' r -> 0 <= g_pow e') by (intros e' He; apply H; right; exact He).
  specialize (IH Hr). destruct (g_match d pr e); simpl; [pose proof (H e (or_introl eq_refl)); lia | exact IH].
Qed.

(* ---- calculator: per-entry bound ---- *)
Definition bnd := string -> Z -> Z.

Definition entries_le (l : list cround) (B : bnd) : Prop :=
  forall cr, In cr l -> forall pr q, In (pr, q) (cr_prices cr) -> q <= B (cr_det cr) pr.

Definition bump (B : bnd) (d : string) (price power : Z) : bnd :=
  fun d' pr' => B d' pr' + (if String.eqb d d' && (price =? pr') then power else 0).

Lemma bump_price_in p total : forall l price power l' c pr q,
  bump_price p total l price power = Some (l', c) -> In (pr, q) l' ->
  In (pr, q) l \/ (pr = price /\ exists q0, In (pr, q0) l /\ q = q0 + power).
Proof.
  induction l as [|[a b] r IH]; intros price power l' c pr q H Hin; simpl in H; [discriminate|].
  destruct (a =? price) eqn:E.
  - apply Z.eqb_eq in E. subst a. inversion H; subst l'. destruct Hin as [Hin|Hin].
    + inversion Hin; subst. right. split; [reflexivity|]. exists b. split; [left; reflexivity | reflexivity].
    + left. right. exact Hin.
  - destruct (bump_price p total r price power) as [[r' c']|] eqn:Hr; [|discriminate]. inversion H; subst l'.
    destruct Hin as [Hin|Hin]; [left; left; exact Hin|].
    destruct (IH _ _ _ _ _ _ Hr Hin) as [Ha|[Ha [q0 [Hb Hc]]]]; [left; right; exact Ha|].
    right. split; [exact Ha|]. exists q0. split; [right; exact Hb | exact Hc].
Qed.

Lemma update_entries p vlen total c price power c' upd conf (B : bnd) :
  0 <= power -> (forall d pr, 0 <= B d pr) ->
  update_price_and_power p vlen total c price power = (c', upd, conf) ->
  cr_det c' = cr_det c /\
  ((forall pr q, In (pr, q) (cr_prices c) -> q <= B (cr_det c) pr) ->
   forall pr q, In (pr, q) (cr_prices c') -> q <= bump B (cr_det c) price power (cr_det c) pr).
Proof.
  intros Hp HB H. unfold update_price_and_power in H.
  assert (Hmono : forall pr q, q <= B (cr_det c) pr -> q <= bump B (cr_det c) price power (cr_det c) pr).
  { intros pr q Hq. unfold bump. destruct (String.eqb (cr_det c) (cr_det c) && (price =? pr)); lia. }
  destruct (cr_price c).
  - inversion H; subst. split; [reflexivity|]. intros Hle pr q Hin. apply Hmono. exact (Hle _ _ Hin).
  - destruct (bump_price p total (cr_prices c) price power) as [[l' o]|] eqn:Hb.
    + assert (Hc' : cr_det c' = cr_det c /\ cr_prices c' = l') by (destruct o; inversion H; subst; split; reflexivity).
      destruct Hc' as [Hd Hl]. split; [exact Hd|]. intros Hle pr q Hin. rewrite Hl in Hin.
      destruct (bump_price_in _ _ _ _ _ _ _ _ _ Hb Hin) as [H1|[H1 [q0 [H2 H3]]]]; [apply Hmono; exact (Hle _ _ H1)|].
      subst pr q. unfold bump. rewrite String.eqb_refl, Z.eqb_refl. simpl. pose proof (Hle _ _ H2). lia.
    + destruct (zlen (cr_prices c) <? vlen).
      * assert (Hc' : cr_det c' = cr_det c /\ cr_prices c' = cr_prices c ++ [(price, power)])
          by (destruct (exceeds p power total); inversion H; subst; split; reflexivity).
        destruct Hc' as [Hd Hl]. split; [exact Hd|]. intros Hle pr q Hin. rewrite Hl in Hin.
        apply in_app_or in Hin. destruct Hin as [Hin|[Hin|[]]]; [apply Hmono; exact (Hle _ _ Hin)|].
        inversion Hin; subst. unfold bump. rewrite String.eqb_refl, Z.eqb_refl. simpl. pose proof (HB (cr_det c) pr). lia.
      * inversion H; subst. split; [reflexivity|]. intros Hle pr q Hin. apply Hmono. exact (Hle _ _ Hin).
Qed.

Lemma entries_le_mono l (B B' : bnd) : (forall d pr, B d pr <= B' d pr) -> entries_le l B -> entries_le l B'.
Proof. intros H Hl cr Hin pr q Hq. pose proof (Hl cr Hin pr q Hq). pose proof (H (cr_det cr) pr). lia. Qed.

Lemma bump_ge (B : bnd) d price power d' pr' : 0 <= power -> B d' pr' <= bump B d price power d' pr'.
Proof. intro H. unfold bump. destruct (String.eqb d d' && (price =? pr')); lia. Qed.

Lemma calc_item_in_le p vlen total it power (B : bnd) :
  0 <= power -> (forall d pr, 0 <= B d pr) -> forall l l' o,
  calc_item_in p vlen total l it power = Some (l', o) -> entries_le l B ->
  entries_le l' (bump B (pi_det it) (pi_price it) power).
Proof.
  intros Hp HB. induction l as [|c r IH]; intros l' o H Hle; simpl in H; [discriminate|].
  assert (Hc : forall pr q, In (pr, q) (cr_prices c) -> q <= B (cr_det c) pr) by (intros pr q Hq; exact (Hle c (or_introl eq_refl) pr q Hq)).
  assert (Hr : entries_le r B) by (intros cr Hin; apply Hle; right; exact Hin).
  destruct (String.eqb (cr_det c) (pi_det it)) eqn:Ed.
  - apply String.eqb_eq in Ed.
    destruct (cr_price c) eqn:Hpc.
    + inversion H; subst. apply (entries_le_mono _ B); [intros; apply bump_ge; exact Hp | exact Hle].
    + destruct (update_price_and_power p vlen total c (pi_price it) power) as [[c' upd] conf] eqn:Hu.
      destruct (update_entries _ _ _ _ _ _ _ _ _ B Hp HB Hu) as [Hd Hbound]. inversion H; subst l' o.
      intros cr Hin pr q Hq. destruct Hin as [Hin|Hin].
      * subst cr. rewrite Hd. rewrite <- Ed. apply Hbound; [exact Hc | exact Hq].
      * pose proof (Hr cr Hin pr q Hq). pose proof (bump_ge B (pi_det it) (pi_price it) power (cr_det cr) pr Hp). lia.
  - destruct (calc_item_in p vlen total r it power) as [[r' o']|] eqn:Hrr; [|discriminate]. inversion H; subst l' o.
    specialize (IH _ _ eq_refl Hr). intros cr Hin pr q Hq. destruct Hin as [Hin|Hin]; [|exact (IH cr Hin pr q Hq)].
    subst cr. pose proof (Hc pr q Hq). pose proof (bump_ge B (pi_det it) (pi_price it) power (cr_det c) pr Hp). lia.
Qed.

Lemma calc_item_le p vlen total it power (B : bnd) l l' o :
  0 <= power -> (forall d pr, 0 <= B d pr) ->
  calc_item p vlen total l it power = (l', o) -> entries_le l B ->
  entries_le l' (bump B (pi_det it) (pi_price it) power).
Proof.
  intros Hp HB H Hle. unfold calc_item in H.
  destruct (calc_item_in p vlen total l it power) as [[l1 o1]|] eqn:Hin.
  - inversion H; subst. exact (calc_item_in_le _ _ _ _ _ B Hp HB _ _ _ Hin Hle).
  - destruct (zlen l <? p_max_detid p * vlen).
    + destruct (update_price_and_power p vlen total (mkCR (pi_det it) [] None (pi_ts it)) (pi_price it) power) as [[c' upd] conf] eqn:Hu.
      destruct (update_entries _ _ _ _ _ _ _ _ _ B Hp HB Hu) as [Hd Hbound]. inversion H; subst l' o.
      intros cr Hcr pr q Hq. apply in_app_or in Hcr. destruct Hcr as [Hcr|[Hcr|[]]].
      * pose proof (Hle cr Hcr pr q Hq). pose proof (bump_ge B (pi_det it) (pi_price it) power (cr_det cr) pr Hp). lia.
      * subst cr. rewrite Hd. simpl. apply Hbound; [intros pr' q' []| exact Hq].
    + inversion H; subst. apply (entries_le_mono _ B); [intros; apply bump_ge; exact Hp | exact Hle].
Qed.

(* bound after a list of items: B plus power for every (det, price) that occurs among the items *)
Fixpoint bumps (B : bnd) (items : list pitem) (power : Z) : bnd :=
  match items with
  | [] => B
  | it :: r => bumps (bump B (pi_det it) (pi_price it) power) r power
  end.

Lemma bumps_nonneg items power : 0 <= power -> forall (B : bnd), (forall d pr, 0 <= B d pr) -> forall d pr, 0 <= bumps B items power d pr.
Proof.
  intro Hp. induction items as [|it r IH]; intros B HB d pr; simpl; [apply HB|].
  apply IH. intros d' pr'. pose proof (HB d' pr'). pose proof (bump_ge B (pi_det it) (pi_price it) power d' pr' Hp). lia.
Qed.

Lemma bumps_ge items power : 0 <= power -> forall (B : bnd) d pr, B d pr <= bumps B items power d pr.
Proof.
  intro Hp. induction items as [|it r IH]; intros B d pr; simpl; [lia|].
  pose proof (IH (bump B (pi_det it) (pi_price it) power) d pr). pose proof (bump_ge B (pi_det it) (pi_price it) power d pr Hp). lia.
Qed.

Lemma calc_items_le p vlen total power : 0 <= power -> forall items (B : bnd) l l' o,
  (forall d pr, 0 <= B d pr) -> calc_items p vlen total l items power = (l', o) -> entries_le l B ->
  entries_le l' (bumps B items power).
Proof.
  intro Hp. induction items as [|it r IH]; intros B l l' o HB H Hle; simpl in H.
  - inversion H; subst. exact Hle.
  - destruct (calc_item p vlen total l it power) as [l1 [c|]] eqn:Hi.
    + inversion H; subst. pose proof (calc_item_le _ _ _ _ _ B _ _ _ Hp HB Hi Hle) as H1.
      simpl. apply (entries_le_mono _ (bump B (pi_det it) (pi_price it) power)); [intros; apply bumps_ge; exact Hp | exact H1].
    + pose proof (calc_item_le _ _ _ _ _ B _ _ _ Hp HB Hi Hle) as H1. simpl.
      apply (IH (bump B (pi_det it) (pi_price it) power) l1 l' o); [|exact H|exact H1].
      intros d pr. pose proof (HB d pr). pose proof (bump_ge B (pi_det it) (pi_price it) power d pr Hp). lia.
Qed.

(* the ghost entries of the kept items *)
Definition gents (c power : Z) (kept : list pitem) : list gent :=
  map (fun it => mkG c (pi_det it) (pi_price it) power) kept.

Lemma bumps_gsum c power : forall kept (B : bnd) g,
  (forall d pr, B d pr <= gsum g d pr) -> NoDup (map pi_det kept) -> 0 <= power ->
  forall d pr, bumps B kept power d pr <= gsum (g ++ gents c power kept) d pr.
Proof.
  induction kept as [|it r IH]; intros B g HB Hnd Hp d pr; simpl.
  - unfold gents. simpl. rewrite app_nil_r. apply HB.
  - inversion Hnd as [|? ? Hnotin Hnd']; subst.
    assert (E : g ++ gents c power (it :: r) = (g ++ [mkG c (pi_det it) (pi_price it) power]) ++ gents c power r)
      by (unfold gents; simpl; rewrite <- app_assoc; reflexivity).
    change (gsum (g ++ mkG c (pi_det it) (pi_price it) power :: gents c power r) d pr)
      with (gsum (g ++ gents c power (it :: r)) d pr). rewrite E.
    apply IH; [|exact Hnd' | exact Hp].
    intros d' pr'. rewrite gsum_app. unfold bump. pose proof (HB d' pr').
    unfold gsum at 2. simpl. unfold g_match at 1. simpl.
    destruct (String.eqb (pi_det it) d' && (pi_price it =? pr')); simpl; lia.
Qed.

Lemma NoDup_app_intro {A} (l1 l2 : list A) :
  NoDup l1 -> NoDup l2 -> (forall x, In x l1 -> In x l2 -> False) -> NoDup (l1 ++ l2).
Proof.
  intros H1 H2 Hd. induction H1 as [|a r Ha Hr IH]; simpl; [exact H2|].
  constructor.
  - intro Hin. apply in_app_or in Hin. destruct Hin as [Hin|Hin]; [exact (Ha Hin) | exact (Hd a (or_introl eq_refl) Hin)].
  - apply IH. intros x Hx1 Hx2. exact (Hd x (or_intror Hx1) Hx2).
Qed.

(* ---- filter facts ---- *)
Lemma set_add_s_added size seen x seen1 : set_add_s size seen x = (seen1, true) -> mem_s x seen1 = true.
Proof.
  unfold set_add_s. destruct (zlen seen =? size); [intro H; inversion H|].
  destruct (mem_s x seen); intro H; inversion H; subst. clear H.
  induction seen as [|y r IH]; simpl; [rewrite String.eqb_refl; reflexivity|].
  destruct (String.eqb x y); [reflexivity | exact IH].
Qed.

Lemma filter_items_facts size : forall items seen seen' kept,
  filter_items size seen items = (seen', kept) ->
  (forall y, mem_s y seen = true -> mem_s y seen' = true) /\
  (forall it, In it kept -> mem_s (pi_det it) seen' = true) /\
  NoDup (map pi_det kept) /\
  (forall it, In it kept -> mem_s (pi_det it) seen = false).
Proof.
  induction items as [|a r IH]; intros seen seen' kept H; simpl in H.
  - inversion H; subst. repeat split; auto; try (intros it []). constructor.
  - destruct (set_add_s size seen (pi_det a)) as [seen1 ok] eqn:Ha.
    destruct (filter_items size seen1 r) as [seen2 kept2] eqn:Hr. inversion H; subst seen' kept. clear H.
    destruct (IH _ _ _ Hr) as [M [S [N F]]].
    assert (M1 : forall y, mem_s y seen = true -> mem_s y seen1 = true) by (intros y Hy; exact (set_add_s_mono _ _ _ _ _ _ Ha Hy)).
    assert (F2 : forall it, In it kept2 -> mem_s (pi_det it) seen = false).
    { intros it Hin. destruct (mem_s (pi_det it) seen) eqn:E; [|reflexivity]. pose proof (F it Hin) as Hf. rewrite (M1 _ E) in Hf. discriminate. }
    split; [intros y Hy; apply M; apply M1; exact Hy|].
    destruct ok.
    + pose proof (set_add_s_added _ _ _ _ Ha) as Hadd.
      split; [intros it [E|Hin]; [subst it; apply M; exact Hadd | exact (S it Hin)]|].
      split.
      * simpl. constructor; [|exact N]. intro Hin. apply in_map_iff in Hin. destruct Hin as [it [E Hin]].
        pose proof (F it Hin) as Hf. rewrite E in Hf. rewrite Hadd in Hf. discriminate.
      * intros it [E|Hin]; [subst it; exact (set_add_s_new _ _ _ _ Ha) | exact (F2 it Hin)].
    + repeat split; assumption.
Qed.

Definition seen_of (w : worker) (c : Z) : list string := match zget (w_fdets w) c with Some l => l | None => [] end.

(* what filtrate does to the det-ID sets, and which items it keeps *)
Lemma filtrate_seen p w c n items w1 kept :
  filtrate p w c n items = (w1, kept) ->
  (forall c2, c2 <> c -> seen_of w1 c2 = seen_of w c2) /\
  (forall y, mem_s y (seen_of w c) = true -> mem_s y (seen_of w1 c) = true) /\
  (forall it, In it kept -> mem_s (pi_det it) (seen_of w1 c) = true) /\
  NoDup (map pi_det kept) /\
  (forall it, In it kept -> mem_s (pi_det it) (seen_of w c) = false).
Proof.
  unfold filtrate. destruct (set_add_z (p_max_nonce p) match zget (w_fnonces w) c with Some l => l | None => [] end n) as [nonces' ok].
  destruct ok; simpl.
  - destruct (filter_items (p_max_detid p) match zget (w_fdets w) c with Some l => l | None => [] end items) as [seen' kept'] eqn:Hf.
    intro H. inversion H; subst w1 kept. destruct (filter_items_facts _ _ _ _ _ Hf) as [M [S [N F]]].
    unfold seen_of. simpl. split; [intros c2 Hne; rewrite zget_zset_other by exact Hne; reflexivity|].
    rewrite zget_zset_same. repeat split; assumption.
  - intro H. inversion H; subst w1 kept. unfold seen_of. simpl. repeat split; auto; try (intros it []). constructor.
Qed.

Lemma agg_fill_fields w c pw items :
  w_fdets (agg_fill w c pw items) = w_fdets w /\ w_crounds (agg_fill w c pw items) = w_crounds w /\
  w_vlen (agg_fill w c pw items) = w_vlen w /\ w_total (agg_fill w c pw items) = w_total w.
Proof. unfold agg_fill. destruct (has_report (w_reports w) c); simpl; repeat split; reflexivity. Qed.

Lemma confirm_ds_fields w x : w_fdets (confirm_ds w x) = w_fdets w /\ w_crounds (confirm_ds w x) = w_crounds w.
Proof.
  destruct x as [[d pr] ts]. unfold confirm_ds.
  match goal with |- context [if negb ?b then _ else _] => destruct b end; simpl; split; reflexivity.
Qed.

(* ---- the ghost invariant ---- *)
Record ghost_inv (w : worker) (g : list gent) : Prop := mkGI {
  gi_pow : forall e, In e g -> 0 <= g_pow e;
  gi_seen : forall e, In e g -> mem_s (g_det e) (seen_of w (g_c e)) = true;
  gi_nodup : NoDup (map (fun e => (g_c e, g_det e)) g);
  gi_le : entries_le (crounds_of w) (gsum g) }.

Lemma ghost_inv_new m : ghost_inv (new_worker m) [].
Proof. constructor; simpl; try (intros e []); try constructor; try (intros cr []). Qed.

Definition do_g (p : params) (w : worker) (g : list gent) (c pw n : Z) (items : list pitem) : worker * list gent :=
  (fst (worker_do p w c pw n items), g ++ gents c pw (snd (filtrate p w c n items))).

Lemma gsum_mono g g2 d pr : (forall e, In e g2 -> 0 <= g_pow e) -> gsum g d pr <= gsum (g ++ g2) d pr.
Proof. intro H. rewrite gsum_app. pose proof (gsum_nonneg g2 d pr H). lia. Qed.

Lemma do_g_inv p w g c pw n items :
  0 <= pw -> ghost_inv w g -> ghost_inv (fst (do_g p w g c pw n items)) (snd (do_g p w g c pw n items)).
Proof.
  intros Hp [I1 I2 I3 I4]. unfold do_g. simpl. unfold worker_do.
  destruct (filtrate p w c n items) as [w1 kept] eqn:Hf. simpl.
  destruct (filtrate_seen _ _ _ _ _ _ _ Hf) as [S1 [S2 [S3 [S4 S5]]]].
  pose proof (filtrate_fields p w c n items) as FF. rewrite Hf in FF. simpl in FF.
  destruct FF as [_ [_ [F3 [F4 [F5 _]]]]].
  assert (Hgp : forall e, In e (gents c pw kept) -> 0 <= g_pow e).
  { intros e He. unfold gents in He. apply in_map_iff in He. destruct He as [it [E _]]. subst e. exact Hp. }
  (* the parts of the invariant that only depend on the det-ID sets, for any worker with the det-ID sets of w1 *)
  assert (Hcommon : forall w', w_fdets w' = w_fdets w1 ->
            (forall e, In e (g ++ gents c pw kept) -> 0 <= g_pow e) /\
            (forall e, In e (g ++ gents c pw kept) -> mem_s (g_det e) (seen_of w' (g_c e)) = true) /\
            NoDup (map (fun e => (g_c e, g_det e)) (g ++ gents c pw kept))).
  { intros w' Hfd.
    assert (Hso : forall c2, seen_of w' c2 = seen_of w1 c2) by (intro c2; unfold seen_of; rewrite Hfd; reflexivity).
    split; [intros e He; apply in_app_or in He; destruct He as [He|He]; [exact (I1 e He) | exact (Hgp e He)]|].
    split.
    - intros e He. rewrite Hso. apply in_app_or in He. destruct He as [He|He].
      + destruct (Z.eq_dec (g_c e) c) as [E|E]; [rewrite E; apply S2; rewrite <- E; exact (I2 e He) | rewrite (S1 _ E); exact (I2 e He)].
      + unfold gents in He. apply in_map_iff in He. destruct He as [it [E Hin]]. subst e. simpl. exact (S3 it Hin).
    - rewrite map_app. apply NoDup_app_intro; [exact I3| |].
      + unfold gents. rewrite map_map. simpl.
        assert (Hinj : forall l, NoDup (map pi_det l) -> NoDup (map (fun it => (c, pi_det it)) l)).
        { induction l as [|a r IHl]; intro Hn; simpl; [constructor|]. inversion Hn; subst. constructor; [|apply IHl; assumption].
          intro Hin. apply in_map_iff in Hin. destruct Hin as [it [E Hit]]. inversion E. apply H1. rewrite <- H0. apply in_map. exact Hit. }
        exact (Hinj kept S4).
      + intros k Hk1 Hk2. apply in_map_iff in Hk1. destruct Hk1 as [e [Ek He]].
        unfold gents in Hk2. rewrite map_map in Hk2. simpl in Hk2. apply in_map_iff in Hk2. destruct Hk2 as [it [Eit Hit]].
        subst k. inversion Eit. pose proof (I2 e He) as Hs. rewrite <- H0 in Hs. rewrite <- H1 in Hs. rewrite (S5 it Hit) in Hs. discriminate. }
  destruct kept as [|k0 kr].
  - (* nothing kept: the calculator is untouched *)
    simpl. destruct (Hcommon w1 eq_refl) as [C1 [C2 C3]]. rewrite app_nil_r in *.
    constructor; auto. unfold crounds_of. rewrite F5. exact I4.
  - set (kept := k0 :: kr) in *.
    destruct (agg_fill_fields w1 c pw kept) as [A1 [A2 [A3 A4]]].
    set (w2 := agg_fill w1 c pw kept) in *.
    unfold calc_fill. fold kept.
    assert (Hcr2 : crounds_of w2 = crounds_of w) by (unfold crounds_of; rewrite A2, F5; reflexivity).
    change (match w_crounds w2 with Some l => l | None => [] end) with (crounds_of w2).
    destruct (has_confirmed (crounds_of w2)) eqn:Hc.
    + simpl. destruct (Hcommon (mkW (w_sealed w2) (w_price w2) (w_fnonces w2) (w_fdets w2) (w_vlen w2) (w_total w2)
                                    (Some (crounds_of w2)) (w_reports w2) (w_rpower w2) (w_ds w2) (w_final w2)) A1) as [C1 [C2 C3]].
      constructor; auto. unfold crounds_of at 1. simpl. rewrite Hcr2.
      apply (entries_le_mono _ (gsum g)); [intros d pr; apply gsum_mono; exact Hgp | exact I4].
    + destruct (calc_items p (w_vlen w2) (w_total w2) (crounds_of w2) kept pw) as [l' o] eqn:Hci.
      assert (Hle' : entries_le l' (gsum (g ++ gents c pw kept))).
      { rewrite Hcr2 in Hci.
        pose proof (calc_items_le p (w_vlen w2) (w_total w2) pw Hp kept (gsum g) _ _ _
                      (fun d pr => gsum_nonneg g d pr I1) Hci I4) as H1.
        apply (entries_le_mono _ (bumps (gsum g) kept pw)); [|exact H1].
        intros d pr. apply (bumps_gsum c pw kept (gsum g) g); [intros; lia | exact S4 | exact Hp]. }
      destruct o as [x|]; simpl.
      * destruct (confirm_ds_fields (mkW (w_sealed w2) (w_price w2) (w_fnonces w2) (w_fdets w2) (w_vlen w2) (w_total w2)
                                       (Some l') (w_reports w2) (w_rpower w2) (w_ds w2) (w_final w2)) x) as [D1 D2].
        simpl in D1, D2.
        destruct (Hcommon _ (eq_trans D1 A1)) as [C1 [C2 C3]].
        constructor; auto. unfold crounds_of. rewrite D2. exact Hle'.
      * destruct (Hcommon (mkW (w_sealed w2) (w_price w2) (w_fnonces w2) (w_fdets w2) (w_vlen w2) (w_total w2)
                               (Some l') (w_reports w2) (w_rpower w2) (w_ds w2) (w_final w2)) A1) as [C1 [C2 C3]].
        constructor; auto.
Qed.

(* ---- sequences of submissions reaching one worker (= one round of one feeder) ---- *)
Record call := mkCall { cl_c : Z; cl_pw : Z; cl_n : Z; cl_items : list pitem }.

Fixpoint run_worker (p : params) (w : worker) (g : list gent) (l : list call) : worker * list gent :=
  match l with
  | [] => (w, g)
  | a :: r => run_worker p (fst (do_g p w g (cl_c a) (cl_pw a) (cl_n a) (cl_items a)))
                           (snd (do_g p w g (cl_c a) (cl_pw a) (cl_n a) (cl_items a))) r
  end.

Definition from_call (a : call) (e : gent) : Prop :=
  g_c e = cl_c a /\ g_pow e = cl_pw a /\ exists it, In it (cl_items a) /\ g_det e = pi_det it /\ g_price e = pi_price it.

Lemma kept_sub p w c n items it : In it (snd (filtrate p w c n items)) -> In it items.
Proof.
  unfold filtrate. destruct (set_add_z (p_max_nonce p) match zget (w_fnonces w) c with Some l => l | None => [] end n) as [nonces' ok].
  destruct ok; simpl; [|intros []].
  destruct (filter_items (p_max_detid p) match zget (w_fdets w) c with Some l => l | None => [] end items) as [seen' kept] eqn:Hf.
  simpl. intro Hin. exact (proj1 (filter_items_kept _ _ _ _ _ Hf it Hin)).
Qed.

Lemma run_worker_inv p : forall l w g,
  (forall a, In a l -> 0 <= cl_pw a) -> worker_inv p w -> ghost_inv w g ->
  worker_inv p (fst (run_worker p w g l)) /\ ghost_inv (fst (run_worker p w g l)) (snd (run_worker p w g l)) /\
  (forall e, In e (snd (run_worker p w g l)) -> In e g \/ exists a, In a l /\ from_call a e).
Proof.
  induction l as [|a r IH]; intros w g Hpw Hw Hg; simpl.
  - split; [exact Hw|]. split; [exact Hg|]. intros e He. left. exact He.
  - assert (Hpa : 0 <= cl_pw a) by (apply Hpw; left; reflexivity).
    assert (Hw' : worker_inv p (fst (do_g p w g (cl_c a) (cl_pw a) (cl_n a) (cl_items a)))).
    { unfold do_g. simpl. destruct (worker_do p w (cl_c a) (cl_pw a) (cl_n a) (cl_items a)) as [w' filled] eqn:Hd.
      simpl. exact (worker_do_inv _ _ _ _ _ _ _ _ Hw Hd). }
    pose proof (do_g_inv p w g (cl_c a) (cl_pw a) (cl_n a) (cl_items a) Hpa Hg) as Hg'.
    destruct (IH _ _ (fun a' Ha' => Hpw a' (or_intror Ha')) Hw' Hg') as [R1 [R2 R3]].
    split; [exact R1|]. split; [exact R2|].
    intros e He. destruct (R3 e He) as [Hin|[a' [Ha' Hf]]]; [|right; exists a'; split; [right; exact Ha' | exact Hf]].
    unfold do_g in Hin. simpl in Hin. apply in_app_or in Hin. destruct Hin as [Hin|Hin]; [left; exact Hin|].
    right. exists a. split; [left; reflexivity|].
    unfold gents in Hin. apply in_map_iff in Hin. destruct Hin as [it [E Hit]]. subst e. unfold from_call. simpl.
    split; [reflexivity|]. split; [reflexivity|]. exists it. split; [exact (kept_sub _ _ _ _ _ _ Hit)|]. split; reflexivity.
Qed.

Lemma exceeds_mono p a b total : 0 <= p_thr_b p -> a <= b -> exceeds p a total = true -> exceeds p b total = true.
Proof.
  intros Hb Hab H. apply exceeds_spec in H. apply exceeds_spec.
  assert (a * p_thr_b p <= b * p_thr_b p) by (apply Z.mul_le_mono_nonneg_r; assumption). lia.
Qed.

(* erasing the ghost gives exactly the worker the model computes *)
Lemma run_worker_erase p : forall l w g,
  fst (run_worker p w g l) = fold_left (fun w a => fst (worker_do p w (cl_c a) (cl_pw a) (cl_n a) (cl_items a))) l w.
Proof. induction l as [|a r IH]; intros w g; simpl; [reflexivity|]. rewrite IH. reflexivity. Qed.

Theorem agreement_by_distinct_validators p m l x :
  (forall a, In a l -> 0 <= cl_pw a) -> 0 <= p_thr_b p ->
  let w := fst (run_worker p (new_worker m) [] l) in
  let g := snd (run_worker p (new_worker m) [] l) in
  agg_aggregate p w = AggFinal x ->
  exists d,
    exceeds p (gsum g d x) (w_total w) = true /\
    NoDup (map (fun e => (g_c e, g_det e)) g) /\
    (forall e, In e g -> exists a, In a l /\ from_call a e).
Proof.
  intros Hpw Hb. cbv zeta. intro Hagg.
  destruct (run_worker_inv p l (new_worker m) [] Hpw (new_worker_inv p m) (ghost_inv_new m)) as [R1 [R2 R3]].
  destruct (agg_final_spec _ _ _ R1 Hagg) as [_ [d [c [_ [Hin [Hdet [_ [[pw [Hpin Hex]] _]]]]]]]].
  exists d. destruct R2 as [G1 G2 G3 G4]. split; [|split; [exact G3|]].
  - subst d. apply (exceeds_mono p pw); [exact Hb | exact (G4 c Hin x pw Hpin) | exact Hex].
  - intros e He. destruct (R3 e He) as [[]|H]. exact H.
Qed.
