(* C12/Retention.v — no more than MaxSizePrices rounds are retained per token. *)
From Coq Require Import List String Bool ZArith Lia Sorting.Sorted.
From Exo Require Import Base.Util Oracle.Model Oracle.Lemmas C12.Proofs C12.NoGap.
Import ListNotations.
Local Open Scope Z_scope.

(* keys strictly increasing *)
Fixpoint inc_keys {V} (l : list (Z * V)) : Prop :=
  match l with
  | [] => True
  | (k, _) :: r => (forall k' v', In (k', v') r -> k < k') /\ inc_keys r
  end.

Lemma zset_append {V} (l : list (Z * V)) n x :
  (forall k v, In (k, v) l -> k < n) -> zset l n x = l ++ [(n, x)].
Proof.
  induction l as [|[k v] r IH]; intro H; simpl; [reflexivity|].
  assert (Hk : k < n) by (apply (H k v); left; reflexivity).
  destruct (n =? k) eqn:E1; [apply Z.eqb_eq in E1; lia|].
  destruct (n <? k) eqn:E2; [apply Z.ltb_lt in E2; lia|].
  f_equal. apply IH. intros k' v' Hin. apply (H k' v'). right. exact Hin.
Qed.

Lemma inc_keys_app {V} (l : list (Z * V)) n x :
  inc_keys l -> (forall k v, In (k, v) l -> k < n) -> inc_keys (l ++ [(n, x)]).
Proof.
  induction l as [|[k v] r IH]; intros Hi Hlt; simpl; [split; [intros k' v' []| exact I]|].
  destruct Hi as [H1 H2]. split.
  - intros k' v' Hin. apply in_app_or in Hin. destruct Hin as [Hin|[Hin|[]]]; [exact (H1 _ _ Hin)|].
    inversion Hin; subst. apply (Hlt k v). left. reflexivity.
  - apply IH; [exact H2|]. intros k' v' Hin. apply (Hlt k' v'). right. exact Hin.
Qed.

Lemma inc_keys_zdel {V} (l : list (Z * V)) e : inc_keys l -> inc_keys (zdel l e).
Proof.
  induction l as [|[k v] r IH]; intro Hi; simpl; [exact I|]. destruct Hi as [H1 H2].
  destruct (e =? k); [exact H2|]. simpl. split; [|exact (IH H2)].
  intros k' v' Hin. exact (H1 _ _ (in_zdel _ _ _ Hin)).
Qed.

Lemma zdel_gone {V} (l : list (Z * V)) e y : inc_keys l -> In (e, y) (zdel l e) -> False.
Proof.
  induction l as [|[k v] r IH]; intros Hi Hin; simpl in Hin; [contradiction|]. destruct Hi as [H1 H2].
  destruct (e =? k) eqn:E.
  - apply Z.eqb_eq in E. subst k. specialize (H1 _ _ Hin). lia.
  - destruct Hin as [Hin|Hin]; [inversion Hin; subst; rewrite Z.eqb_refl in E; discriminate | exact (IH H2 Hin)].
Qed.

(* strictly increasing integer keys inside [a, b) : at most b - a of them *)
Lemma inc_keys_length {V} : forall (l : list (Z * V)) a b,
  inc_keys l -> (forall k v, In (k, v) l -> a <= k < b) -> zlen l <= Z.max 0 (b - a).
Proof.
  induction l as [|[k v] r IH]; intros a b Hi Hr; [unfold zlen; simpl; lia|].
  destruct Hi as [H1 H2]. assert (Hk : a <= k < b) by (apply (Hr k v); left; reflexivity).
  assert (Hlen : zlen r <= Z.max 0 (b - (k + 1))).
  { apply IH; [exact H2|]. intros k' v' Hin. pose proof (H1 _ _ Hin). pose proof (Hr k' v' (or_intror Hin)). lia. }
  unfold zlen in *. simpl List.length. lia.
Qed.

(* the retention window of one token *)
Definition tp_window (p : params) (t : tprices) : Prop :=
  inc_keys (tp_list t) /\
  forall k x, In (k, x) (tp_list t) -> 1 <= k /\ next_round_id t - p_max_size p <= k < next_round_id t.

Lemma tp_window_length p t : 1 <= p_max_size p -> tp_window p t -> zlen (tp_list t) <= p_max_size p.
Proof.
  intros Hm [Hi Hw].
  pose proof (inc_keys_length (tp_list t) (next_round_id t - p_max_size p) (next_round_id t) Hi
                (fun k v H => proj2 (Hw k v H))) as H. lia.
Qed.

Lemma append_price_window p s tok x :
  1 <= p_max_size p < two64 -> tp_nonneg (get_tp s tok) -> next_round_id (get_tp s tok) < two64 ->
  tp_window p (get_tp s tok) -> tp_window p (get_tp (fst (append_price p s tok x)) tok).
Proof.
  intros Hm Hnn Hn64 [Hi Hw]. pose proof (next_round_id_pos _ Hnn) as Hpos.
  unfold append_price. set (n := next_round_id (get_tp s tok)) in *.
  destruct (n =? pt_round x); simpl; [|split; assumption].
  rewrite get_tp_set_tp.
  assert (Hlt : forall k v, In (k, v) (tp_list (get_tp s tok)) -> k < n) by (intros k v H; destruct (Hw k v H); lia).
  rewrite (zset_append _ n x Hlt).
  assert (Hnext : next_round_id (mkTP (Some (n + 1)) (tp_list (get_tp s tok) ++ [(n, x)])) = n + 1 /\
                  forall l2, next_round_id (mkTP (Some (n + 1)) l2) = n + 1).
  { split; [|intro l2]; unfold next_round_id; simpl; destruct (n + 1 =? 0) eqn:E; try reflexivity; apply Z.eqb_eq in E; lia. }
  destruct Hnext as [_ Hnext].
  pose proof (inc_keys_app _ n x Hi Hlt) as Hi2.
  assert (Hw2 : forall k y, In (k, y) (tp_list (get_tp s tok) ++ [(n, x)]) -> 1 <= k /\ n - p_max_size p <= k <= n).
  { intros k y Hin. apply in_app_or in Hin. destruct Hin as [Hin|[Hin|[]]]; [destruct (Hw k y Hin); lia|].
    inversion Hin; subst. lia. }
  destruct (0 <? usub n (p_max_size p)) eqn:Ee.
  - split; [simpl; apply inc_keys_zdel; exact Hi2|].
    intros k y Hin. simpl in Hin. rewrite Hnext. destruct (Hw2 k y (in_zdel _ _ _ Hin)) as [H1 H2].
    split; [exact H1|]. split; [|lia].
    destruct (Z_le_gt_dec (n + 1 - p_max_size p) k) as [Hok|Hbad]; [exact Hok|].
    (* k = n - max: that key has just been deleted *)
    assert (Hk : k = n - p_max_size p) by lia.
    assert (Hu : usub n (p_max_size p) = n - p_max_size p) by (apply usub_small; lia).
    rewrite Hu in Hin. rewrite Hk in Hin. exfalso. exact (zdel_gone _ _ _ Hi2 Hin).
  - apply Z.ltb_ge in Ee. split; [exact Hi2|].
    intros k y Hin. simpl in Hin. rewrite Hnext. destruct (Hw2 k y Hin) as [H1 H2].
    split; [exact H1|]. split; [|lia].
    (* no deletion: usub n max <= 0, i.e. n - max is a multiple of 2^64 that is <= 0, so n - max <= 0 *)
    unfold usub in Ee. pose proof (Z.mod_pos_bound (n - p_max_size p) two64 ltac:(unfold two64; lia)) as Hb.
    assert (Hz : (n - p_max_size p) mod two64 = 0) by lia.
    destruct (Z_le_gt_dec (n - p_max_size p) 0) as [Hle|Hgt]; [lia|].
    rewrite Z.mod_small in Hz by lia. lia.
Qed.

Lemma grow_round_window p s tok :
  1 <= p_max_size p < two64 -> tp_nonneg (get_tp s tok) -> next_round_id (get_tp s tok) < two64 ->
  tp_window p (get_tp s tok) -> tp_window p (get_tp (grow_round p s tok) tok).
Proof.
  intros Hm Hnn Hn H. unfold grow_round.
  destruct (latest_price (get_tp s tok)); apply append_price_window; assumption.
Qed.
