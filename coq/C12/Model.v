(* C12/Model.v — the executable model lives in Oracle/Model.v (shared with C13); this file only names
   the checkers used by the C12 suite. No proofs. *)
From Coq Require Import List String ZArith.
From Exo Require Export Base.Util Oracle.Model.

Definition c12_check_case : case -> option nat := check_case.
Definition c12_monitor_case : case -> option nat := monitor_c12.

Definition c12_check_kcase : kcase -> option nat := check_kcase.
Definition c12_monitor_kcase : kcase -> option nat := monitor_kcase.
