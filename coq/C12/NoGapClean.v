(* C12/NoGapClean.v — the round-numbering theorem for histories with arbitrary (multi-message) transactions, as
   long as no admitted transaction fails AFTER one of its messages completed a round: that pattern is the only way
   to break the numbering (under valid params). *)
From Coq Require Import List String Bool ZArith Lia.
From Exo Require Import Base.Util Oracle.Model Oracle.Lemmas C12.Proofs C12.NoGap C12.Retention C13.Budget C12.NoGapMulti.
Import ListNotations.
Local Open Scope Z_scope.

(* the invariant on (store, memory) pairs; the digest plays no role *)
Definition mg_sm (p : params) (f : feeder) (b : Z) (s : store) (m : mem) : Prop := mg_inv p f b (mkState s m 0).

Lemma mg_inv_sm p f b st : mg_inv p f b st <-> mg_sm p f b (st_store st) (st_mem st).
Proof. unfold mg_sm, mg_inv. simpl. tauto. Qed.

(* one message on the tx-local store *)
Lemma cp_keeps p f H0 b now s m x s' m' res :
  mg_hyp p f -> co_ok p f H0 b m -> mg_sm p f b s m -> create_price p now s m x = (s', m', res) ->
  (res = MsgCounted \/ res = MsgFinal -> mg_sm p f b s' m') /\
  (res <> MsgFinal -> s' = s /\ m_rounds m' = m_rounds m).
Proof.
  intros Hh Hco Hinv Hc. split; [|intro Hne; exact (create_price_nonfinal _ _ _ _ _ _ _ _ Hc Hne)].
  intros [E|E]; subst res.
  - destruct (create_price_nonfinal _ _ _ _ _ _ _ _ Hc ltac:(discriminate)) as [Es Er]. subst s'.
    unfold mg_sm in *. apply (mg_inv_same p f b (mkState s m 0)); simpl; auto.
  - (* reuse the single-message transaction lemma with a tx that the ante handler lets through trivially:
       instead, redo the two cases directly *)
    destruct (create_price_final_shape _ _ _ _ _ _ _ Hc) as [price [r [f0 [Hr [Hst [Hf [Hm' Hs']]]]]]].
    unfold mg_sm in *. destruct Hinv as [Hwf [Hnn [Hinc Hcase]]]. simpl in Hwf, Hnn, Hinc, Hcase.
    assert (Hgt : forall s2, s_prices s' = s_prices s2 -> get_tp s' (f_token f) = get_tp s2 (f_token f))
      by (intros s2 E; unfold get_tp; rewrite E; reflexivity).
    cbv zeta in Hs'.
    destruct (Z.eq_dec (m_feeder x) (f_id f)) as [Efid|Nfid].
    + rewrite Efid in *. rewrite (get_feeder_f _ _ Hh) in Hf. inversion Hf; subst f0.
      destruct (b <? f_start f) eqn:Eb.
      { destruct Hcase as [Hnil _]. rewrite Hnil in Hr. discriminate. }
      destruct (feeder_ended f b) eqn:Ee.
      { destruct Hcase as [_ [Hnil|[r2 [Hr2 Hs2]]]]; rewrite ?Hnil, ?Hr2 in Hr; [discriminate|]. inversion Hr; subst r2. lia. }
      destruct Hcase as [status [Hrounds [Hstat [Hnext Hleft]]]].
      rewrite Hrounds in Hr. inversion Hr; subst r. simpl in Hst. subst status. simpl in Hnext. rewrite Z.add_0_r in Hnext.
      simpl in Hs'.
      set (item := mkPtr (round_id_at f b) (Some price) match token_decimal p (f_token f) with Some d => d | None => 0 end (first_ts x)) in *.
      assert (Hitem : pt_round item = next_round_id (get_tp s (f_token f))) by (simpl; symmetry; exact Hnext).
      destruct (append_price_next p s (f_token f) item Hnn Hitem) as [Hok [Hn2 [Hnn2 _]]].
      rewrite Hok in Hs'. pose proof (append_price_wfi p s (f_token f) item Hwf Hitem) as Hwf2.
      unfold mg_inv. simpl. rewrite (Hgt _ Hs'). split; [exact Hwf2|]. split; [exact Hnn2|].
      rewrite Hm'. split; [apply inc_keys_zset; exact Hinc|].
      rewrite Eb, Ee. exists 2. rewrite zget_zset_same. simpl. split; [reflexivity|].
      split; [right; reflexivity|]. split; [|intro; discriminate]. rewrite Hn2. lia.
    + pose proof (other_feeder _ _ _ _ _ _ _ _ Hco Hf Nfid Hr Hst) as Htok.
      assert (Hsame : get_tp s' (f_token f) = get_tp s (f_token f)).
      { match type of Hs' with _ = s_prices (if ?c then ?a else ?g) => destruct c end; rewrite (Hgt _ Hs');
          [apply append_price_other | apply grow_round_other]; intro E; apply Htok; symmetry; exact E. }
      unfold mg_inv. simpl. rewrite Hsame. split; [exact Hwf|]. split; [exact Hnn|]. rewrite Hm'.
      split; [apply inc_keys_zset; exact Hinc|].
      rewrite zget_zset_other by (intro E; apply Nfid; symmetry; exact E). exact Hcase.
Qed.

(* did a message complete a round before the message list stopped? *)
Fixpoint had_final (p : params) (now : Z) (s : store) (m : mem) (l : list msg) : bool :=
  match l with
  | [] => false
  | x :: r =>
      match create_price p now s m x with
      | (s', m', MsgFinal) => true
      | (s', m', MsgCounted) => had_final p now s' m' r
      | _ => false
      end
  end.

Lemma run_msgs_keeps p f H0 b now : mg_hyp p f -> forall l s m so m',
  co_ok p f H0 b m -> mg_sm p f b s m -> run_msgs p now s m l = (so, m') ->
  match so with
  | Some s' => mg_sm p f b s' m'
  | None => had_final p now s m l = false -> m_rounds m' = m_rounds m
  end.
Proof.
  intro Hh. induction l as [|x r IH]; intros s m so m' Hco Hinv H; simpl in H.
  - inversion H; subst. exact Hinv.
  - simpl. destruct (create_price p now s m x) as [[s1 m1] res] eqn:Hc.
    destruct (cp_keeps p f H0 b now s m x s1 m1 res Hh Hco Hinv Hc) as [K1 K2].
    pose proof (co_ok_rounds_step p f H0 b _ _ (create_price_rounds_step _ _ _ _ _ _ _ _ Hc) Hco) as Hco1.
    destruct res.
    + specialize (IH s1 m1 so m' Hco1 (K1 (or_introl eq_refl)) H). destruct so; [exact IH|].
      intro Hf. rewrite (IH Hf). exact (proj2 (K2 ltac:(discriminate))).
    + specialize (IH s1 m1 so m' Hco1 (K1 (or_intror eq_refl)) H). destruct so; [exact IH|]. intro Hf. discriminate Hf.
    + inversion H; subst. intros _. exact (proj2 (K2 ltac:(discriminate))).
    + inversion H; subst. intros _. exact (proj2 (K2 ltac:(discriminate))).
Qed.

(* a transaction is clean in a state if it is not admitted, or succeeds, or fails without a completed round *)
Definition clean_tx (p : params) (now : Z) (st : state) (t : tx) : Prop :=
  match ante p (st_store st) t with
  | None => True
  | Some s1 => match run_msgs p now s1 (st_mem st) (t_msgs t) with
               | (Some _, _) => True
               | (None, _) => had_final p now s1 (st_mem st) (t_msgs t) = false
               end
  end.

Lemma clean_tx_keeps p f H0 b now st t :
  mg_hyp p f -> mgx_inv p f H0 b st -> clean_tx p now st t -> mgx_inv p f H0 b (fst (fst (deliver_tx p now st t))).
Proof.
  intros Hh [Hinv Hco] Hcl.
  assert (Hco' : co_ok p f H0 b (st_mem (fst (fst (deliver_tx p now st t))))).
  { destruct (deliver_tx p now st t) as [[st' a] ok] eqn:Hd. simpl.
    exact (co_ok_rounds_step p f H0 b _ _ (deliver_tx_rounds_step _ _ _ _ _ _ _ Hd) Hco). }
  split; [|exact Hco']. clear Hco'.
  unfold clean_tx in Hcl. unfold deliver_tx.
  destruct (ante p (st_store st) t) as [s1|] eqn:Ha; [|exact Hinv].
  pose proof (ante_prices _ _ _ _ Ha) as Hp1.
  assert (Hinv1 : mg_sm p f b s1 (st_mem st)).
  { unfold mg_sm. apply (mg_inv_same p f b st); simpl; auto. }
  pose proof (run_msgs_keeps p f H0 b now Hh (t_msgs t) s1 (st_mem st)) as Hk.
  destruct (run_msgs p now s1 (st_mem st) (t_msgs t)) as [[s2|] m2] eqn:Hr; simpl.
  - exact (Hk _ _ Hco Hinv1 eq_refl).
  - pose proof (Hk _ _ Hco Hinv1 eq_refl Hcl) as Hrounds.
    apply (mg_inv_same p f b (mkState s1 (st_mem st) 0)); simpl; auto.
Qed.

(* histories in which every transaction is clean in the state it meets *)
Fixpoint clean_txs (p : params) (st : state) (txs : list (Z * tx)) : Prop :=
  match txs with
  | [] => True
  | (now, t) :: r => clean_tx p now st t /\ clean_txs p (fst (fst (deliver_tx p now st t))) r
  end.

Fixpoint clean_blocks (p : params) (b : Z) (st : state) (bl : list blk) : Prop :=
  match bl with
  | [] => True
  | (txs, u) :: r => clean_txs p st txs /\ clean_blocks p (b + 1) (end_block p (b + 1) u (run_txs p st txs)) r
  end.

Lemma clean_txs_inv p f H0 b : mg_hyp p f -> forall txs st,
  clean_txs p st txs -> mgx_inv p f H0 b st -> mgx_inv p f H0 b (run_txs p st txs).
Proof.
  intro Hh. induction txs as [|[now t] r IH]; intros st Hcl Hinv; simpl; [exact Hinv|].
  destruct Hcl as [H1 H2]. apply IH; [exact H2|]. exact (clean_tx_keeps p f H0 b now st t Hh Hinv H1).
Qed.

Lemma clean_blocks_inv p f H0 : mg_hyp p f -> forall bl b st,
  0 <= b -> b + Z.of_nat (List.length bl) < two64 -> b + Z.of_nat (List.length bl) <= H0 -> clean_blocks p b st bl ->
  mgx_inv p f H0 b st -> mgx_inv p f H0 (b + Z.of_nat (List.length bl)) (run_blocks p b st bl).
Proof.
  intro Hh. induction bl as [|[txs u] r IH]; intros b st Hb0 Hb1 HbH Hcl Hinv.
  - simpl. rewrite Z.add_0_r. exact Hinv.
  - destruct Hcl as [Hc1 Hc2].
    change (run_blocks p b st ((txs, u) :: r)) with (run_blocks p (b + 1) (end_block p (b + 1) u (run_txs p st txs)) r).
    simpl List.length in Hb1, HbH. simpl List.length. rewrite Nat2Z.inj_succ in Hb1, HbH. rewrite Nat2Z.inj_succ.
    replace (b + Z.succ (Z.of_nat (List.length r))) with (b + 1 + Z.of_nat (List.length r)) by lia.
    apply IH; [lia | lia | lia | exact Hc2|].
    apply mg_end_keeps_inv; [exact Hh | exact Hb0 | lia | lia|]. apply clean_txs_inv; assumption.
Qed.

(* concatenated histories *)
Lemma run_blocks_app p : forall bl1 bl2 b st,
  run_blocks p b st (bl1 ++ bl2) = run_blocks p (b + Z.of_nat (List.length bl1)) (run_blocks p b st bl1) bl2.
Proof.
  induction bl1 as [|[txs u] r IH]; intros bl2 b st.
  - simpl. rewrite Z.add_0_r. reflexivity.
  - change (run_blocks p b st (((txs, u) :: r) ++ bl2)) with (run_blocks p (b + 1) (end_block p (b + 1) u (run_txs p st txs)) (r ++ bl2)).
    rewrite IH. change (run_blocks p b st ((txs, u) :: r)) with (run_blocks p (b + 1) (end_block p (b + 1) u (run_txs p st txs)) r).
    f_equal. simpl List.length. rewrite Nat2Z.inj_succ. lia.
Qed.

Lemma clean_blocks_app p : forall bl1 bl2 b st,
  clean_blocks p b st (bl1 ++ bl2) ->
  clean_blocks p b st bl1 /\ clean_blocks p (b + Z.of_nat (List.length bl1)) (run_blocks p b st bl1) bl2.
Proof.
  induction bl1 as [|[txs u] r IH]; intros bl2 b st H.
  - simpl. rewrite Z.add_0_r. split; [exact I | exact H].
  - simpl in H. destruct H as [H1 H2]. destruct (IH _ _ _ H2) as [I1 I2]. split; [split; assumption|].
    change (run_blocks p b st ((txs, u) :: r)) with (run_blocks p (b + 1) (end_block p (b + 1) u (run_txs p st txs)) r).
    match goal with |- clean_blocks _ ?x _ _ => assert (E : x = b + 1 + Z.of_nat (List.length r)) by (simpl List.length; rewrite Nat2Z.inj_succ; unfold blk in *; lia) end.
    rewrite E. exact I2.
Qed.

(* single-message transactions are always clean *)
Lemma single_msg_clean p now st t : single_msg t -> clean_tx p now st t.
Proof.
  intros [x Hx]. unfold clean_tx. destruct (ante p (st_store st) t) as [s1|]; [|exact I].
  rewrite Hx. simpl. destruct (create_price p now s1 (st_mem st) x) as [[s' m'] res]. destruct res; simpl; auto.
Qed.
