(* C12/ParamsUpdate.v — which parameter updates keep the round-numbering invariant.
   The run functions take the params as an argument; an UpdateParams step replaces p by p' between two blocks.
   Two kinds of update (the ones MsgUpdateParams / UpdateTokenFeeder allow on a running chain, and the ones the harness
   applies in the middle of its cases) are shown to preserve mg_hyp and to carry the invariant over:
     (A) a new feeder g for a token that no feeder of p serves, with a fresh id and no stale round entry;
     (B) an EndBlock E for a feeder whose EndBlock was 0, E after the current block and not inside a window.
   Every scalar (MaxNonce, thresholds, MaxDetID, MaxSizePrices) stays; changing MaxNonce or the Interval / start block /
   StartRoundID of a started feeder is NOT covered (and UpdateTokenFeeder does not allow the latter). *)
From Coq Require Import List String Bool ZArith Lia.
From Exo Require Import Base.Util Oracle.Model Oracle.Lemmas C12.Proofs C12.NoGap C12.Retention C13.Budget C12.NoGapMulti C12.NoGapClean.
Import ListNotations.
Local Open Scope Z_scope.

Definition same_scalars (p p' : params) : Prop :=
  p_max_nonce p' = p_max_nonce p /\ p_thr_a p' = p_thr_a p /\ p_thr_b p' = p_thr_b p /\
  p_max_detid p' = p_max_detid p /\ p_max_size p' = p_max_size p.

(* the invariant mentions the params only through the feeder list (co_ok) *)
Lemma mg_inv_params p p' f b st : p_max_nonce p' = p_max_nonce p -> mg_inv p f b st -> mg_inv p' f b st.
Proof. intros E H. unfold mg_inv in *. rewrite E. exact H. Qed.

(* ---- (A) a new feeder for a new token ---- *)
Record upd_add (p p' : params) (g : feeder) (m : mem) : Prop := mkUA {
  ua_sc : same_scalars p p';
  ua_fs : p_feeders p' = p_feeders p ++ [g];
  ua_id : ~ In (f_id g) (map f_id (p_feeders p));
  ua_tok : ~ In (f_token g) (map f_token (p_feeders p));
  ua_round : zget (m_rounds m) (f_id g) = None }.

Lemma upd_add_hyp p p' g m f : upd_add p p' g m -> mg_hyp p f -> mg_hyp p' f.
Proof.
  intros [[E _] Hfs Hid _ _] [H1 H2 H3 H4 H5 H6]. constructor; rewrite ?E; try assumption.
  - rewrite Hfs. apply in_or_app. left. exact H1.
  - rewrite Hfs, map_app. simpl. apply NoDup_snoc_z; assumption.
Qed.

Lemma upd_add_inv p p' g f H0 b st :
  upd_add p p' g (st_mem st) -> In f (p_feeders p) -> mgx_inv p f H0 b st -> mgx_inv p' f H0 b st.
Proof.
  intros [[E _] Hfs Hid Htok Hr] Hin [Hinv Hco]. split; [exact (mg_inv_params p p' f b st E Hinv)|].
  intros g0 Hin0 Hne Ht. rewrite Hfs in Hin0. apply in_app_or in Hin0. destruct Hin0 as [Hin0|[Eg|[]]].
  - exact (Hco g0 Hin0 Hne Ht).
  - subst g0. exfalso. apply Htok. rewrite Ht. apply in_map. exact Hin.
Qed.

(* the new feeder itself starts from its own initial condition *)
Lemma upd_add_new p p' g H0 b st :
  upd_add p p' g (st_mem st) -> b < f_start g -> inc_keys (m_rounds (st_mem st)) ->
  tp_wfi (get_tp (st_store st) (f_token g)) -> tp_nonneg (get_tp (st_store st) (f_token g)) ->
  next_round_id (get_tp (st_store st) (f_token g)) = f_start_round g -> mgx_inv p' g H0 b st.
Proof.
  intros [[E _] Hfs Hid Htok Hr] Hb Hi Hw Hn Hx. split.
  - apply mg_inv_before_start; assumption.
  - intros g0 Hin0 Hne Ht. rewrite Hfs in Hin0. apply in_app_or in Hin0. destruct Hin0 as [Hin0|[Eg|[]]].
    + exfalso. apply Htok. rewrite <- Ht. apply in_map. exact Hin0.
    + subst g0. contradiction.
Qed.

(* ---- (B) an end block for a feeder that had none ---- *)
Definition set_end (f : feeder) (e : Z) : feeder :=
  mkFeeder (f_id f) (f_token f) (f_start f) (f_interval f) (f_start_round f) e.

Record upd_end (p p' : params) (f : feeder) (e b : Z) : Prop := mkUE {
  ue_sc : same_scalars p p';
  ue_fs : p_feeders p' = map (fun x => if f_id x =? f_id f then set_end f e else x) (p_feeders p);
  ue_zero : f_end f = 0;
  ue_after : b < e /\ f_start f < e;
  ue_window : p_max_nonce p <= (e - f_start f) mod f_interval f }.

Lemma map_ids_set_end f e l : map f_id (map (fun x => if f_id x =? f_id f then set_end f e else x) l) = map f_id l.
Proof.
  induction l as [|x r IH]; simpl; [reflexivity|]. rewrite IH. f_equal.
  destruct (f_id x =? f_id f) eqn:E; [apply Z.eqb_eq in E; simpl; symmetry; exact E | reflexivity].
Qed.

Lemma upd_end_hyp p p' f e b : upd_end p p' f e b -> mg_hyp p f -> mg_hyp p' (set_end f e).
Proof.
  intros [[E _] Hfs Hz [Hb Hs] Hw] [H1 H2 H3 H4 H5 H6]. constructor; rewrite ?E; simpl; try assumption.
  - rewrite Hfs. apply in_map_iff. exists f. rewrite Z.eqb_refl. split; [reflexivity | exact H1].
  - rewrite Hfs, map_ids_set_end. exact H2.
  - right. split; assumption.
Qed.

Lemma feeder_ended_set_end f e b : b < e -> feeder_ended (set_end f e) b = false.
Proof.
  intro H. unfold feeder_ended. simpl. assert (e <=? b = false) by (apply Z.leb_gt; exact H). rewrite H0. apply andb_false_r.
Qed.

Lemma upd_end_inv p p' f e H0 b st :
  upd_end p p' f e b -> mg_hyp p f -> mgx_inv p f H0 b st -> mgx_inv p' (set_end f e) H0 b st.
Proof.
  intros [[E _] Hfs Hz [Hb Hs] Hw] Hh [Hinv Hco]. split.
  - destruct Hinv as [Hwf [Hnn [Hi Hc]]]. unfold mg_inv. simpl. split; [exact Hwf|]. split; [exact Hnn|]. split; [exact Hi|].
    rewrite E. assert (He0 : feeder_ended f b = false) by (unfold feeder_ended; rewrite Hz; reflexivity).
    destruct (b <? f_start f); [exact Hc|]. rewrite (feeder_ended_set_end f e b Hb). rewrite He0 in Hc. exact Hc.
  - intros g Hin Hne Ht. simpl in Hne, Ht. rewrite Hfs in Hin. apply in_map_iff in Hin. destruct Hin as [x [Ex Hx]].
    destruct (f_id x =? f_id f) eqn:Eid; [subst g; simpl in Hne; contradiction|]. subst g.
    apply Z.eqb_neq in Eid. exact (Hco x Hx Eid Ht).
Qed.

(* the other feeders do not notice (f does not share their token: a running feeder is the only one responsible for
   its token) *)
Lemma upd_end_inv_other p p' f e H0 b st f0 :
  upd_end p p' f e b -> mg_hyp p f -> In f0 (p_feeders p) -> f_id f0 <> f_id f -> f_token f <> f_token f0 ->
  mgx_inv p f0 H0 b st -> In f0 (p_feeders p') /\ mgx_inv p' f0 H0 b st.
Proof.
  intros [[E _] Hfs Hz [Hb Hs] Hw] Hh Hin0 Hne Hsep [Hinv Hco]. split.
  - rewrite Hfs. apply in_map_iff. exists f0. apply Z.eqb_neq in Hne. rewrite Hne. split; [reflexivity | exact Hin0].
  - split; [exact (mg_inv_params p p' f0 b st E Hinv)|].
    intros g Hin Hng Ht. rewrite Hfs in Hin. apply in_map_iff in Hin. destruct Hin as [x [Ex Hx]].
    destruct (f_id x =? f_id f) eqn:Eid.
    + subst g. simpl in Ht. contradiction.
    + subst g. exact (Hco x Hx Hng Ht).
Qed.

(* ---- the numbering across an update: run under p, update, run under p' ---- *)
Theorem no_gap_across_add p p' g f H0 bl1 bl2 b st :
  mg_hyp p f -> 0 <= b ->
  b + Z.of_nat (List.length bl1) + Z.of_nat (List.length bl2) < two64 ->
  b + Z.of_nat (List.length bl1) + Z.of_nat (List.length bl2) <= H0 ->
  clean_blocks p b st bl1 -> mgx_inv p f H0 b st ->
  let b1 := b + Z.of_nat (List.length bl1) in
  let st1 := run_blocks p b st bl1 in
  upd_add p p' g (st_mem st1) -> clean_blocks p' b1 st1 bl2 ->
  let b2 := b1 + Z.of_nat (List.length bl2) in
  let st2 := run_blocks p' b1 st1 bl2 in
  mgx_inv p' f H0 b2 st2 /\ nogap_state p' f b2 (next_round_id (get_tp (st_store st2) (f_token f))) false = true.
Proof.
  intros Hh Hb0 Hb1 HbH Hc1 Hinv. cbv zeta. intros Hu Hc2.
  assert (A0 : 0 <= Z.of_nat (List.length bl2)) by lia. assert (A00 : 0 <= Z.of_nat (List.length bl1)) by lia.
  assert (A1 : b + Z.of_nat (List.length bl1) < two64) by lia.
  assert (A2 : b + Z.of_nat (List.length bl1) <= H0) by lia.
  pose proof (clean_blocks_inv p f H0 Hh bl1 b st Hb0 A1 A2 Hc1 Hinv) as P1.
  pose proof (upd_add_inv p p' g f H0 _ _ Hu (mh_in _ _ Hh) P1) as P1'.
  assert (A3 : 0 <= b + Z.of_nat (List.length bl1)) by lia.
  pose proof (clean_blocks_inv p' f H0 (upd_add_hyp _ _ _ _ _ Hu Hh) bl2 _ _ A3 Hb1 HbH Hc2 P1') as P2.
  split; [exact P2 | exact (mg_inv_nogap_state _ _ _ _ (proj1 P2))].
Qed.

Theorem no_gap_across_end p p' f e H0 bl1 bl2 b st :
  mg_hyp p f -> 0 <= b ->
  b + Z.of_nat (List.length bl1) + Z.of_nat (List.length bl2) < two64 ->
  b + Z.of_nat (List.length bl1) + Z.of_nat (List.length bl2) <= H0 ->
  clean_blocks p b st bl1 -> mgx_inv p f H0 b st ->
  let b1 := b + Z.of_nat (List.length bl1) in
  let st1 := run_blocks p b st bl1 in
  upd_end p p' f e b1 -> clean_blocks p' b1 st1 bl2 ->
  let b2 := b1 + Z.of_nat (List.length bl2) in
  let st2 := run_blocks p' b1 st1 bl2 in
  let f' := set_end f e in
  mgx_inv p' f' H0 b2 st2 /\ nogap_state p' f' b2 (next_round_id (get_tp (st_store st2) (f_token f'))) false = true.
Proof.
  intros Hh Hb0 Hb1 HbH Hc1 Hinv. cbv zeta. intros Hu Hc2.
  assert (A0 : 0 <= Z.of_nat (List.length bl2)) by lia. assert (A00 : 0 <= Z.of_nat (List.length bl1)) by lia.
  assert (A1 : b + Z.of_nat (List.length bl1) < two64) by lia.
  assert (A2 : b + Z.of_nat (List.length bl1) <= H0) by lia.
  pose proof (clean_blocks_inv p f H0 Hh bl1 b st Hb0 A1 A2 Hc1 Hinv) as P1.
  pose proof (upd_end_inv p p' f e H0 _ _ Hu Hh P1) as P1'.
  assert (A3 : 0 <= b + Z.of_nat (List.length bl1)) by lia.
  pose proof (clean_blocks_inv p' (set_end f e) H0 (upd_end_hyp _ _ _ _ _ Hu Hh) bl2 _ _ A3 Hb1 HbH Hc2 P1') as P2.
  split; [exact P2 | exact (mg_inv_nogap_state _ _ _ _ (proj1 P2))].
Qed.
