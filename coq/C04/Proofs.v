(* C04/Proofs.v — lemmas about the slash model. *)
From Coq Require Import List ZArith Bool Lia.
From Exo Require Import Base.IntDec Base.Util C04.Model.
Import ListNotations.
Local Open Scope Z_scope.

(* ------------------------------------------------------------------ arithmetic ---- *)

Lemma slash_amt_nonneg p x : 0 <= p -> 0 <= x -> 0 <= slash_amt p x.
Proof. intros. unfold slash_amt, dec_mul_int. apply dec_trunc_int_nonneg. nia. Qed.

Lemma slash_amt_le p x : 0 <= p -> p <= P -> 0 <= x -> slash_amt p x <= x.
Proof.
  intros. unfold slash_amt, dec_mul_int, dec_trunc_int. pose proof P_pos.
  rewrite quot_nonneg_div by nia. apply Z.div_le_upper_bound; nia.
Qed.

(* rounded down: amt is the floor of p*x (p scaled by P) *)
Lemma slash_amt_floor p x : 0 <= p -> 0 <= x ->
  P * slash_amt p x <= p * x /\ p * x < P * (slash_amt p x + 1).
Proof.
  intros. unfold slash_amt, dec_mul_int, dec_trunc_int. pose proof P_pos.
  rewrite quot_nonneg_div by nia.
  pose proof (Z.div_mod (p * x) P ltac:(lia)). pose proof (Z.mod_pos_bound (p * x) P ltac:(lia)). nia.
Qed.

Lemma slash_amt_full x : 0 <= x -> slash_amt P x = x.
Proof.
  intros. unfold slash_amt, dec_mul_int, dec_trunc_int. pose proof P_pos.
  rewrite Z.mul_comm. apply Z.quot_mul. lia.
Qed.

Lemma slash_amt_zero x : slash_amt 0 x = 0.
Proof. unfold slash_amt, dec_mul_int, dec_trunc_int. simpl. apply Z.quot_0_l. pose proof P_pos. lia. Qed.

Lemma slash_amt_mono p x y : 0 <= p -> 0 <= x -> x <= y -> slash_amt p x <= slash_amt p y.
Proof. intros. unfold slash_amt, dec_mul_int. apply dec_trunc_int_mono; nia. Qed.

Lemma dec_mul_of_int k f : 0 <= k -> 0 <= f -> dec_mul (dec_of_int k) f = k * f.
Proof.
  intros. unfold dec_mul, dec_of_int. pose proof P_pos.
  replace (k * P * f) with ((k * f) * P) by ring.
  rewrite chop_round_nonneg_eq by nia. apply chop_round_nn_exact. nia.
Qed.

Lemma proportion_le_one power f value : proportion power f value <= P.
Proof. unfold proportion. apply Z.le_min_l. Qed.

Lemma proportion_nonneg power f value : 0 <= power -> 0 <= f -> 0 < value -> 0 <= proportion power f value.
Proof.
  intros. unfold proportion. pose proof P_pos. apply Z.min_glb; [lia|]. apply dec_quo_nonneg; nia.
Qed.

(* when the slashed value reaches or exceeds what is left, everything goes *)
Lemma proportion_capped power f value : 0 < value -> value <= power * f -> proportion power f value = P.
Proof.
  intros. unfold proportion. apply Z.min_l.
  rewrite <- (dec_quo_self value) by lia. apply dec_quo_mono_l; lia.
Qed.

Lemma proportion_zero power f value : 0 < value -> power * f = 0 -> proportion power f value = 0.
Proof.
  intros Hv H0. unfold proportion. rewrite H0. unfold dec_quo. simpl. rewrite Z.quot_0_l by lia.
  pose proof P_pos. apply Z.min_r. unfold chop_round, chop_round_nn. simpl. lia.
Qed.

Lemma proportion_mono power f f' value : 0 <= power -> 0 <= f -> f <= f' -> 0 < value ->
  proportion power f value <= proportion power f' value.
Proof.
  intros. unfold proportion. apply Z.min_le_compat_l. apply dec_quo_mono_l; nia.
Qed.

Lemma usd_nonneg amount price dec pdec : 0 <= amount -> 0 <= price -> 0 <= dec -> 0 <= pdec ->
  0 <= usd amount price dec pdec.
Proof.
  intros. unfold usd, dec_quo_int, dec_of_int. pose proof P_pos.
  assert (0 < 10 ^ (dec + pdec)) by (apply Z.pow_pos_nonneg; lia).
  apply Z.quot_pos; nia.
Qed.

(* ------------------------------------------------------------------ reflexivity of the comparisons ---- *)

Lemma pool_eqb_refl x : pool_eqb x x = true.
Proof. unfold pool_eqb. rewrite !Z.eqb_refl. reflexivity. Qed.
Lemma rec_eqb_refl x : rec_eqb x x = true.
Proof. unfold rec_eqb. rewrite !Z.eqb_refl. reflexivity. Qed.
Lemma deleg_eqb_refl x : deleg_eqb x x = true.
Proof. unfold deleg_eqb. rewrite !Z.eqb_refl. reflexivity. Qed.
Lemma slist_eqb_refl x : slist_eqb x x = true.
Proof. unfold slist_eqb. rewrite !Z.eqb_refl, list_eqb_refl by apply Z.eqb_refl. reflexivity. Qed.
Lemma z3_eqb_refl x : z3_eqb x x = true.
Proof. destruct x as [[a b] c]. simpl. rewrite !Z.eqb_refl. reflexivity. Qed.
Lemma z2_eqb_refl x : z2_eqb x x = true.
Proof. unfold z2_eqb. rewrite !Z.eqb_refl. reflexivity. Qed.
Lemma exec_eqb_refl x : exec_eqb x x = true.
Proof.
  unfold exec_eqb. rewrite !Z.eqb_refl, (list_eqb_refl z3_eqb) by apply z3_eqb_refl.
  rewrite (list_eqb_refl z2_eqb) by apply z2_eqb_refl. reflexivity.
Qed.
Lemma sid_eqb_refl x : sid_eqb x x = true.
Proof. destruct x; simpl; rewrite ?Z.eqb_refl; reflexivity. Qed.
Lemma sinfo_eqb_refl x : sinfo_eqb x x = true.
Proof. unfold sinfo_eqb. rewrite !Z.eqb_refl, sid_eqb_refl, exec_eqb_refl, Bool.eqb_reflx. reflexivity. Qed.

Lemma sinfos_sub_refl l : sinfos_sub l l = true.
Proof.
  unfold sinfos_sub. apply forallb_forall. intros x Hx. apply existsb_exists. exists x. split; [assumption|apply sinfo_eqb_refl].
Qed.
Lemma sinfos_eqb_refl l : sinfos_eqb l l = true.
Proof. unfold sinfos_eqb. rewrite Nat.eqb_refl, sinfos_sub_refl. reflexivity. Qed.

Lemma st_eqb_refl s : st_eqb s s = true.
Proof.
  unfold st_eqb. rewrite (list_eqb_refl pool_eqb) by apply pool_eqb_refl.
  rewrite (list_eqb_refl rec_eqb) by apply rec_eqb_refl.
  rewrite (list_eqb_refl deleg_eqb) by apply deleg_eqb_refl.
  rewrite (list_eqb_refl slist_eqb) by apply slist_eqb_refl.
  rewrite sinfos_eqb_refl. reflexivity.
Qed.

(* ------------------------------------------------------------------ list helpers ---- *)

Lemma forall2b_map {A} (f : A -> A -> bool) (g : A -> A) l :
  forall2b f l (map g l) = forallb (fun x => f x (g x)) l.
Proof. induction l as [|a r IH]; simpl; [reflexivity|]. rewrite IH. reflexivity. Qed.

Lemma forall2b_same {A} (f : A -> A -> bool) l : forall2b f l l = forallb (fun x => f x x) l.
Proof. induction l as [|a r IH]; simpl; [reflexivity|]. rewrite IH. reflexivity. Qed.

Lemma forallb_impl {A} (f g : A -> bool) l :
  (forall x, In x l -> f x = true -> g x = true) -> forallb f l = true -> forallb g l = true.
Proof.
  intros H Hf. apply forallb_forall. intros x Hx. apply H; [assumption|].
  rewrite forallb_forall in Hf. apply Hf. assumption.
Qed.

(* ------------------------------------------------------------------ the walks, characterised ---- *)

Definition pool_step (p op : Z) (sl : list slist) (x : pool) : pool :=
  if p_op x =? op then slash_pool p op sl x else x.

Lemma walk_pools_fst p op sl ps : fst (walk_pools p op sl ps) = map (pool_step p op sl) ps.
Proof.
  induction ps as [|x t IH]; simpl; [reflexivity|].
  destruct (walk_pools p op sl t) as [t' ex]. simpl in IH. unfold pool_step at 1.
  destruct (p_op x =? op); simpl; rewrite IH; reflexivity.
Qed.

Lemma walk_pools_snd p op sl ps :
  snd (walk_pools p op sl ps) =
  map (fun x => (p_asset x, slash_amt p (p_total x))) (filter (fun x => p_op x =? op) ps).
Proof.
  induction ps as [|x t IH]; simpl; [reflexivity|].
  destruct (walk_pools p op sl t) as [t' ex]. simpl in IH.
  destruct (p_op x =? op); simpl; rewrite IH; reflexivity.
Qed.

Definition rec_step (p op event : Z) (r : urec) : urec :=
  if (u_op r =? op) && negb (u_height r <? event) then fst (slash_from_undel p r) else r.

Lemma walk_recs_fst p op event rs : fst (walk_recs p op event rs) = map (rec_step p op event) rs.
Proof.
  induction rs as [|r t IH]; simpl; [reflexivity|].
  destruct (walk_recs p op event t) as [t' ex]. simpl in IH. unfold rec_step at 1.
  destruct ((u_op r =? op) && negb (u_height r <? event)).
  - destruct (slash_from_undel p r) as [r' e]. simpl. rewrite IH. reflexivity.
  - simpl. rewrite IH. reflexivity.
Qed.

Lemma slash_pool_total p op sl x : p_total (slash_pool p op sl x) = p_total x - slash_amt p (p_total x).
Proof. unfold slash_pool. destruct (pool_cleared p op sl x); reflexivity. Qed.
Lemma slash_pool_op p op sl x : p_op (slash_pool p op sl x) = p_op x.
Proof. unfold slash_pool. destruct (pool_cleared p op sl x); reflexivity. Qed.
Lemma slash_pool_asset p op sl x : p_asset (slash_pool p op sl x) = p_asset x.
Proof. unfold slash_pool. destruct (pool_cleared p op sl x); reflexivity. Qed.

Lemma at_risk_eq op event r : at_risk op event r = (u_op r =? op) && negb (u_height r <? event).
Proof.
  unfold at_risk. f_equal. destruct (Z.ltb_spec (u_height r) event), (Z.leb_spec event (u_height r)); simpl; try reflexivity; lia.
Qed.

(* ------------------------------------------------------------------ pointwise facts ---- *)

Lemma pool_ok_step p op sl x : pool_ok p op sl x (pool_step p op sl x) = true.
Proof.
  unfold pool_ok, pool_step. destruct (p_op x =? op) eqn:Eop; [|apply pool_eqb_refl].
  unfold slash_pool, pool_cleared. rewrite Eop. simpl.
  destruct ((p_total x - slash_amt p (p_total x) =? 0) && has_list sl op (p_asset x)) eqn:E; simpl;
    rewrite !Z.eqb_refl; simpl; rewrite E; rewrite ?Z.eqb_refl; reflexivity.
Qed.

Lemma rec_eqb_fields a b :
  u_id a = u_id b -> u_op a = u_op b -> u_height a = u_height b -> u_staker a = u_staker b ->
  u_asset a = u_asset b -> u_amount a = u_amount b -> u_actual a = u_actual b -> u_fp a = u_fp b ->
  rec_eqb a b = true.
Proof. intros. unfold rec_eqb. repeat (rewrite (proj2 (Z.eqb_eq _ _)) by assumption). reflexivity. Qed.

Lemma rec_ok_step p op event r : 0 <= p -> 0 <= u_amount r -> 0 <= u_actual r ->
  rec_ok p op event r (rec_step p op event r) = true.
Proof.
  intros Hp Ha Hact. unfold rec_ok, rec_step. rewrite at_risk_eq.
  destruct ((u_op r =? op) && negb (u_height r <? event)); [|apply rec_eqb_refl].
  pose proof (slash_amt_nonneg p (u_amount r) Hp Ha) as Hamt.
  unfold slash_from_undel. destruct (Z.eqb_spec (u_actual r) 0) as [E0|E0]; simpl.
  - apply rec_eqb_fields; simpl; try reflexivity. rewrite E0. lia.
  - destruct (Z.geb_spec (slash_amt p (u_amount r)) (u_actual r)); simpl; apply rec_eqb_fields; simpl; try reflexivity; lia.
Qed.

Lemma rec_ok_same p op event r : 0 <= p -> 0 <= u_amount r ->
  (at_risk op event r = false \/ u_actual r = 0) -> rec_ok p op event r r = true.
Proof.
  intros Hp Ha [H|H]; unfold rec_ok.
  - rewrite H. apply rec_eqb_refl.
  - destruct (at_risk op event r); [|apply rec_eqb_refl].
    pose proof (slash_amt_nonneg p (u_amount r) Hp Ha).
    apply rec_eqb_fields; simpl; try reflexivity. rewrite H. lia.
Qed.

Lemma zmem_stakers_has_list sl op a x : zmem x (stakers_of sl op a) = true -> has_list sl op a = true.
Proof. unfold stakers_of, has_list. destruct (find_list sl op a); simpl; [reflexivity|discriminate]. Qed.

Lemma cleared_emptied p op sl ps a : has_list sl op a = true ->
  cleared_asset p op sl ps a = emptied op a (map (pool_step p op sl) ps).
Proof.
  intros Hl. unfold cleared_asset, emptied. induction ps as [|x t IH]; simpl; [reflexivity|].
  rewrite IH. f_equal. unfold pool_step, pool_cleared.
  destruct (p_op x =? op) eqn:Eop; simpl.
  - rewrite slash_pool_op, slash_pool_asset, slash_pool_total, Eop. simpl.
    destruct (Z.eqb_spec (p_asset x) a) as [Ea|Ea]; simpl.
    + rewrite Ea, Hl. rewrite !andb_true_r. reflexivity.
    + rewrite !andb_false_r. reflexivity.
  - rewrite Eop. reflexivity.
Qed.

Lemma deleg_ok_step p op sl ps d :
  deleg_ok op sl (map (pool_step p op sl) ps) d (clear_deleg p op sl ps d) = true.
Proof.
  unfold deleg_ok, clear_deleg.
  destruct (zmem (d_staker d) (stakers_of sl op (d_asset d))) eqn:Em.
  - rewrite <- (cleared_emptied p op sl ps (d_asset d)) by (eapply zmem_stakers_has_list; eassumption).
    destruct ((d_op d =? op) && cleared_asset p op sl ps (d_asset d) && true); apply deleg_eqb_refl.
  - rewrite !andb_false_r. apply deleg_eqb_refl.
Qed.

Lemma find_list_in sl op a l : In l sl -> sl_op l = op -> sl_asset l = a -> has_list sl op a = true.
Proof.
  intros Hin Ho Ha. unfold has_list, find_list.
  destruct (find (fun l0 => (sl_op l0 =? op) && (sl_asset l0 =? a)) sl) eqn:E; [reflexivity|].
  eapply find_none in E; [|eassumption]. simpl in E. rewrite Ho, Ha, !Z.eqb_refl in E. discriminate.
Qed.

Lemma slists_filter p op sl ps :
  filter (list_kept op (map (pool_step p op sl) ps)) sl = filter (keep_list p op sl ps) sl.
Proof.
  apply filter_ext_in. intros l Hl. unfold list_kept, keep_list.
  destruct (Z.eqb_spec (sl_op l) op) as [Eo|Eo]; simpl; [|reflexivity].
  rewrite (cleared_emptied p op sl ps (sl_asset l)); [reflexivity|].
  eapply find_list_in; eauto.
Qed.

Lemma observed_pool_cuts_step p op sl ps :
  observed_pool_cuts op ps (map (pool_step p op sl) ps) =
  map (fun x => (p_asset x, slash_amt p (p_total x))) (filter (fun x => p_op x =? op) ps).
Proof.
  induction ps as [|x t IH]; simpl; [reflexivity|].
  destruct (p_op x =? op) eqn:Eop; simpl; rewrite IH; [|reflexivity].
  f_equal. unfold pool_step. rewrite Eop, slash_pool_total. f_equal. lia.
Qed.

Lemma observed_rec_cuts_step p op event rs :
  observed_rec_cuts op event rs (map (rec_step p op event) rs) = snd (walk_recs p op event rs).
Proof.
  induction rs as [|r t IH]; simpl; [reflexivity|].
  destruct (walk_recs p op event t) as [t' ex] eqn:Ew. simpl in IH.
  rewrite at_risk_eq. unfold rec_step at 1.
  destruct ((u_op r =? op) && negb (u_height r <? event)); simpl.
  - unfold slash_from_undel. destruct (Z.eqb_spec (u_actual r) 0) as [E0|E0]; simpl; [exact IH|].
    destruct (Z.geb_spec (slash_amt p (u_amount r)) (u_actual r)); simpl; rewrite IH; f_equal; f_equal; lia.
  - exact IH.
Qed.

Lemma observed_rec_cuts_same op event rs :
  forallb (fun r => negb (at_risk op event r) || (u_actual r =? 0)) rs = true ->
  observed_rec_cuts op event rs rs = [].
Proof.
  induction rs as [|r t IH]; simpl; [reflexivity|]. intros H. apply andb_prop in H. destruct H as [H1 H2].
  destruct (at_risk op event r); simpl in *; [|auto]. rewrite H1. simpl. auto.
Qed.

(* ------------------------------------------------------------------ value ---- *)

Lemma value_of_cons assets op x t :
  value_of_pool assets op (x :: t) =
  (if p_op x =? op then match pool_usd assets x with Some v => v | None => 0 end else 0) + value_of_pool assets op t.
Proof. reflexivity. Qed.

Lemma priced_cons assets op x t :
  priced assets op (x :: t) =
  (negb (p_op x =? op) || match pool_usd assets x with Some _ => true | None => false end) && priced assets op t.
Proof. reflexivity. Qed.

Lemma op_value_spec assets op ps v : op_value assets op ps = Ok v ->
  priced assets op ps = true /\ value_of_pool assets op ps = v.
Proof.
  revert v. induction ps as [|x t IH]; intros v H.
  - simpl in H. inversion H. split; reflexivity.
  - rewrite value_of_cons, priced_cons. simpl in H.
    destruct (p_op x =? op) eqn:Eop.
    + unfold pool_usd. destruct (find_asset assets (p_asset x)) as [i|]; [|discriminate].
      destruct (a_pclass i); try discriminate; destruct (a_known i); simpl in H |- *; try discriminate;
        (destruct (op_value assets op t) as [v'| |]; try discriminate); inversion H; subst;
        destruct (IH v' eq_refl) as [Hp Hv]; rewrite Hp, Hv; split; reflexivity.
    + destruct (IH v H) as [Hp Hv]. rewrite Hp, Hv. split; [reflexivity|lia].
Qed.

Lemma op_value_no_panic assets op ps : op_value assets op ps <> Panic.
Proof.
  induction ps as [|x t IH]; simpl; [discriminate|].
  destruct (p_op x =? op); [|assumption].
  destruct (find_asset assets (p_asset x)) as [i|]; [|discriminate].
  destruct (a_pclass i); try discriminate; (destruct (a_known i); simpl; [|discriminate]);
    destruct (op_value assets op t); try discriminate; contradiction.
Qed.

Lemma value_of_nonneg assets op ps :
  forallb (fun i => (0 <? a_price i) && (0 <=? a_pdec i) && (0 <=? a_dec i)) assets = true ->
  forallb (fun x => (0 <=? p_total x) && (0 <=? p_pending x) && (0 <=? p_tshare x) && (0 <=? p_oshare x)) ps = true ->
  0 <= value_of_pool assets op ps.
Proof.
  intros Ha Hp. induction ps as [|x t IH]; [unfold value_of_pool; simpl; lia|]. rewrite value_of_cons.
  simpl in Hp. apply andb_prop in Hp. destruct Hp as [Hx Ht]. specialize (IH Ht).
  destruct (p_op x =? op); [|lia].
  unfold pool_usd. destruct (find_asset assets (p_asset x)) as [i|] eqn:Ef; [|lia].
  unfold find_asset in Ef. apply find_some in Ef. destruct Ef as [Hin _].
  rewrite forallb_forall in Ha. specialize (Ha i Hin).
  apply andb_prop in Ha. destruct Ha as [Ha Hd]. apply andb_prop in Ha. destruct Ha as [Hpr Hpd].
  apply andb_prop in Hx. destruct Hx as [Hx _]. apply andb_prop in Hx. destruct Hx as [Hx _]. apply andb_prop in Hx. destruct Hx as [Htot Hpen].
  apply Z.ltb_lt in Hpr. apply Z.leb_le in Hpd, Hd, Htot, Hpen.
  assert (0 <= usd (p_total x + p_pending x) (a_price i) (a_dec i) (a_pdec i)) by (apply usd_nonneg; lia).
  destruct (a_pclass i); try lia; destruct (a_known i); lia.
Qed.

(* ------------------------------------------------------------------ no increase ---- *)

Lemma pools_no_increase p op sl ps : 0 <= p ->
  forallb (fun x => (0 <=? p_total x) && (0 <=? p_pending x) && (0 <=? p_tshare x) && (0 <=? p_oshare x)) ps = true ->
  forall2b (fun x x' => (p_total x' <=? p_total x) && (p_pending x' <=? p_pending x) &&
                        (p_tshare x' <=? p_tshare x) && (p_oshare x' <=? p_oshare x)) ps (map (pool_step p op sl) ps) = true.
Proof.
  intros Hp. rewrite forall2b_map. apply forallb_impl. intros x _ Hx.
  apply andb_prop in Hx. destruct Hx as [Hx Ho]. apply andb_prop in Hx. destruct Hx as [Hx Ht]. apply andb_prop in Hx. destruct Hx as [Htot Hpen].
  apply Z.leb_le in Htot, Hpen, Ht, Ho.
  unfold pool_step. destruct (p_op x =? op).
  - pose proof (slash_amt_nonneg p (p_total x) Hp Htot).
    unfold slash_pool. destruct (pool_cleared p op sl x); simpl;
      repeat (apply andb_true_intro; split); apply Z.leb_le; lia.
  - repeat (apply andb_true_intro; split); apply Z.leb_le; lia.
Qed.

Lemma recs_no_increase p op event rs : 0 <= p ->
  forallb (fun r => (0 <=? u_actual r) && (0 <=? u_amount r)) rs = true ->
  forall2b (fun r r' => (u_actual r' <=? u_actual r) && (0 <=? u_actual r')) rs (map (rec_step p op event) rs) = true.
Proof.
  intros Hp. rewrite forall2b_map. apply forallb_impl. intros r _ Hr.
  apply andb_prop in Hr. destruct Hr as [Hact Ham]. apply Z.leb_le in Hact, Ham.
  pose proof (slash_amt_nonneg p (u_amount r) Hp Ham).
  unfold rec_step. destruct ((u_op r =? op) && negb (u_height r <? event)).
  - unfold slash_from_undel. destruct (Z.eqb_spec (u_actual r) 0); simpl.
    + apply andb_true_intro; split; apply Z.leb_le; lia.
    + destruct (Z.geb_spec (slash_amt p (u_amount r)) (u_actual r)); simpl;
        apply andb_true_intro; split; apply Z.leb_le; lia.
  - apply andb_true_intro; split; apply Z.leb_le; lia.
Qed.

Lemma recs_no_increase_same rs :
  forallb (fun r => (0 <=? u_actual r) && (0 <=? u_amount r)) rs = true ->
  forall2b (fun r r' => (u_actual r' <=? u_actual r) && (0 <=? u_actual r')) rs rs = true.
Proof.
  rewrite forall2b_same. apply forallb_impl. intros r _ Hr.
  apply andb_prop in Hr. destruct Hr as [Hact _]. rewrite Hact, Z.leb_refl. reflexivity.
Qed.

Lemma delegs_no_increase p op sl ps dl :
  forallb (fun d => (0 <=? d_share d) && (0 <=? d_wait d)) dl = true ->
  forall2b (fun d d' => (d_share d' <=? d_share d) && (d_wait d' <=? d_wait d)) dl (map (clear_deleg p op sl ps) dl) = true.
Proof.
  rewrite forall2b_map. apply forallb_impl. intros d _ Hd.
  apply andb_prop in Hd. destruct Hd as [Hs Hw]. apply Z.leb_le in Hs, Hw.
  unfold clear_deleg.
  destruct ((d_op d =? op) && cleared_asset p op sl ps (d_asset d) && zmem (d_staker d) (stakers_of sl op (d_asset d)));
    simpl; apply andb_true_intro; split; apply Z.leb_le; lia.
Qed.

(* ------------------------------------------------------------------ Keeper.Slash ---- *)

Lemma slash_not_ok s e q : snd (slash s e q) <> ROk -> fst (slash s e q) = s.
Proof.
  unfold slash. destruct (negb (check_param (v_height e) q)); [reflexivity|].
  destruct (q_factor q) as [f|]; [|reflexivity].
  destruct (slash_assets s e q f) as [[s1 ex]| |]; try reflexivity.
  destruct (store_sinfo s1 e q f ex); simpl; try reflexivity. intros H. exfalso. apply H. reflexivity.
Qed.

Definition the_p (s : st) (e : env) (q : sprm) (f : Z) : Z :=
  proportion (q_power q) f (value_of_pool (v_assets e) (q_op q) (s_pools s)).

Lemma slash_assets_sinfos_m s e q f :
  match slash_assets s e q f with Ok (s1, _) => s_sinfos s1 = s_sinfos s | _ => True end.
Proof.
  unfold slash_assets. destruct (op_value (v_assets e) (q_op q) (s_pools s)) as [total| |]; try exact I.
  destruct (negb (0 <? total)); [exact I|].
  destruct (if q_event q <=? v_height e then _ else _) as [recs' exu].
  destruct (walk_pools _ _ _ _) as [pools' exp]. reflexivity.
Qed.

Lemma slash_assets_sinfos s e q f s1 ex : slash_assets s e q f = Ok (s1, ex) -> s_sinfos s1 = s_sinfos s.
Proof. intros H. pose proof (slash_assets_sinfos_m s e q f) as K. rewrite H in K. exact K. Qed.

Lemma slash_dup s e q : has_sinfo (s_sinfos s) (q_op q) (q_avs q) (q_id q) = true ->
  fst (slash s e q) = s /\ snd (slash s e q) <> ROk.
Proof.
  intros Hd. unfold slash. destruct (negb (check_param (v_height e) q)); [split; [reflexivity|discriminate]|].
  destruct (q_factor q) as [f|]; [|split; [reflexivity|discriminate]].
  destruct (slash_assets s e q f) as [[s1 ex]| |] eqn:Ea; try (split; [reflexivity|discriminate]).
  unfold store_sinfo. rewrite (slash_assets_sinfos _ _ _ _ _ _ Ea), Hd. split; [reflexivity|discriminate].
Qed.

Lemma slash_assets_no_panic s e q f : slash_assets s e q f <> Panic.
Proof.
  unfold slash_assets.
  destruct (op_value (v_assets e) (q_op q) (s_pools s)) as [total| |] eqn:Ev; try discriminate.
  - destruct (negb (0 <? total)); [discriminate|].
    destruct (if q_event q <=? v_height e then _ else _) as [recs' exu].
    destruct (walk_pools _ _ _ _) as [pools' exp]. discriminate.
  - exfalso. eapply op_value_no_panic. eassumption.
Qed.

(* the model of Keeper.Slash has no panic outcome left *)
Lemma slash_never_panics s e q : snd (slash s e q) <> RPanic.
Proof.
  unfold slash. destruct (negb (check_param (v_height e) q)); [discriminate|].
  destruct (q_factor q) as [f|]; [|discriminate].
  pose proof (slash_assets_no_panic s e q f) as K.
  destruct (slash_assets s e q f) as [[s1 ex]| |]; try discriminate; [|contradiction].
  destruct (store_sinfo s1 e q f ex); discriminate.
Qed.

(* an operator whose staking + unbonding value is not positive: error, nothing changes *)
Lemma slash_zero_value s e q : priced (v_assets e) (q_op q) (s_pools s) = true ->
  value_of_pool (v_assets e) (q_op q) (s_pools s) <= 0 ->
  fst (slash s e q) = s /\ snd (slash s e q) = RErr.
Proof.
  intros Hpr Hv. unfold slash. destruct (negb (check_param (v_height e) q)); [split; reflexivity|].
  destruct (q_factor q) as [f|]; [|split; reflexivity].
  unfold slash_assets.
  destruct (op_value (v_assets e) (q_op q) (s_pools s)) as [total| |] eqn:Ev; try (split; reflexivity).
  - destruct (op_value_spec _ _ _ _ Ev) as [_ Hval]. rewrite Hval in Hv.
    destruct (Z.ltb_spec 0 total); [lia|]. split; reflexivity.
  - exfalso. eapply op_value_no_panic. eassumption.
Qed.

(* what SlashAssets does, field by field *)
Lemma slash_assets_spec s e q f :
  st_nonneg s = true -> env_sane e = true -> q_event q <= v_height e -> 0 <= f -> 0 <= q_power q ->
  match slash_assets s e q f with
  | Ok (s1, ex) =>
      priced (v_assets e) (q_op q) (s_pools s) = true /\
      0 < value_of_pool (v_assets e) (q_op q) (s_pools s) /\
      s_pools s1 = map (pool_step (the_p s e q f) (q_op q) (s_slists s)) (s_pools s) /\
      forall2b (rec_ok (the_p s e q f) (q_op q) (q_event q)) (s_recs s) (s_recs s1) = true /\
      forall2b (fun r r' => (u_actual r' <=? u_actual r) && (0 <=? u_actual r')) (s_recs s) (s_recs s1) = true /\
      s_delegs s1 = map (clear_deleg (the_p s e q f) (q_op q) (s_slists s) (s_pools s)) (s_delegs s) /\
      s_slists s1 = filter (keep_list (the_p s e q f) (q_op q) (s_slists s) (s_pools s)) (s_slists s) /\
      s_sinfos s1 = s_sinfos s /\
      ex = mkExec (the_p s e q f) (q_power q * f)
                  (observed_rec_cuts (q_op q) (q_event q) (s_recs s) (s_recs s1))
                  (observed_pool_cuts (q_op q) (s_pools s) (s_pools s1))
  | _ => True
  end.
Proof.
  intros Hnn Hsane Hq Hf0 Hpw. unfold slash_assets.
  destruct (op_value (v_assets e) (q_op q) (s_pools s)) as [total| |] eqn:Ev; try exact I.
  destruct (Z.ltb_spec 0 total) as [E0|E0]; cbn [negb]; [|exact I].
  destruct (op_value_spec _ _ _ _ Ev) as [Hpr Hval].
  unfold st_nonneg in Hnn. apply andb_prop in Hnn. destruct Hnn as [Hnn Hnd]. apply andb_prop in Hnn. destruct Hnn as [Hnp Hnr].
  pose proof (value_of_nonneg (v_assets e) (q_op q) (s_pools s) Hsane Hnp) as Hv0.
  assert (HP1 : dec_of_int 1 = P) by (unfold dec_of_int; lia).
  rewrite (dec_mul_of_int (q_power q) f Hpw Hf0), HP1.
  assert (Hpe : Z.min P (dec_quo (q_power q * f) total) = the_p s e q f).
  { unfold the_p, proportion. rewrite Hval. reflexivity. }
  rewrite Hpe. clear Hpe.
  assert (Hvpos : 0 < value_of_pool (v_assets e) (q_op q) (s_pools s)) by lia.
  assert (Hp0 : 0 <= the_p s e q f) by (apply proportion_nonneg; assumption).
  generalize dependent (the_p s e q f). intros p Hp0.
  pose proof (walk_pools_fst p (q_op q) (s_slists s) (s_pools s)) as Wp1.
  pose proof (walk_pools_snd p (q_op q) (s_slists s) (s_pools s)) as Wp2.
  destruct (walk_pools p (q_op q) (s_slists s) (s_pools s)) as [pools' exp]. simpl in Wp1, Wp2.
  destruct (q_event q <=? v_height e) eqn:Elt.
  - pose proof (walk_recs_fst p (q_op q) (q_event q) (s_recs s)) as W1.
    destruct (walk_recs p (q_op q) (q_event q) (s_recs s)) as [recs' exu] eqn:Ew. simpl in W1.
    cbn [s_pools s_recs s_delegs s_slists s_sinfos]. subst recs' pools'.
    repeat split; try assumption.
    + rewrite forall2b_map. eapply forallb_impl; [|exact Hnr]. intros r _ Hr.
      apply andb_prop in Hr. destruct Hr as [Hr1 Hr2]. apply Z.leb_le in Hr1, Hr2. apply rec_ok_step; assumption.
    + apply recs_no_increase; assumption.
    + rewrite observed_rec_cuts_step, Ew, observed_pool_cuts_step, Wp2. reflexivity.
  - apply Z.leb_gt in Elt. lia.
Qed.

(* when the pool figures agree with the live records, the statement's value is the value the code computes *)
Lemma value_of_agree assets op s : pending_agrees s = true ->
  value_of assets op (s_pools s) (s_recs s) = value_of_pool assets op (s_pools s).
Proof.
  intros H. unfold value_of, value_of_pool, pending_agrees in *. f_equal. apply map_ext_in. intros x Hx.
  rewrite forallb_forall in H. specialize (H x Hx). apply Z.eqb_eq in H.
  unfold pool_usd_live, pool_usd. rewrite H. reflexivity.
Qed.

Lemma slash_executed s e q :
  st_nonneg s = true -> env_sane e = true -> pending_agrees s = true ->
  snd (slash s e q) = ROk ->
  exists f, q_factor q = Some f /\ in_domain e q = true /\ executed_ok s e q f (fst (slash s e q)) = true.
Proof.
  intros Hnn Hsane Hpa. unfold slash.
  destruct (check_param (v_height e) q) eqn:Ecp; simpl; [|discriminate].
  unfold check_param in Ecp.
  destruct (q_factor q) as [f|] eqn:Ef; [|discriminate].
  apply andb_prop in Ecp. destruct Ecp as [Ecp Hpow]. apply andb_prop in Ecp. destruct Ecp as [Hf0 Hev].
  apply negb_true_iff in Hf0, Hev. apply Z.ltb_ge in Hf0. rewrite Z.gtb_ltb in Hev. apply Z.ltb_ge in Hev.
  assert (Hpw : 0 <= q_power q).
  { destruct (q_dogfood q).
    - apply negb_true_iff in Hpow. apply Z.leb_gt in Hpow. lia.
    - apply Z.eqb_eq in Hpow. lia. }
  pose proof (slash_assets_spec s e q f Hnn Hsane Hev Hf0 Hpw) as Spec.
  destruct (slash_assets s e q f) as [[s1 ex]| |]; simpl; try discriminate.
  destruct Spec as [Hpr [Hvpos [Epools [Hrok [Hrni [Edel [Esl [Esi Eex]]]]]]]].
  unfold store_sinfo. rewrite Esi.
  destruct (has_sinfo (s_sinfos s) (q_op q) (q_avs q) (q_id q)) eqn:Edup; [discriminate|].
  destruct (avs_contract e (q_avs q)) as [c|]; [|discriminate].
  destruct (negb (c =? q_contract q)); [discriminate|].
  destruct (q_event q >? v_height e); [discriminate|].
  destruct ((f <? 0) || (f >? dec_of_int 1)) eqn:Ef1; [discriminate|].
  apply orb_false_iff in Ef1. destruct Ef1 as [_ Ef1]. rewrite Z.gtb_ltb in Ef1. apply Z.ltb_ge in Ef1.
  assert (HP1 : dec_of_int 1 = P) by (unfold dec_of_int; lia). rewrite HP1 in Ef1.
  intros _. exists f. split; [reflexivity|]. split.
  { unfold in_domain. rewrite Ef. repeat (apply andb_true_intro; split); apply Z.leb_le; lia. }
  cbn [fst].
  unfold executed_ok. rewrite (value_of_agree (v_assets e) (q_op q) s Hpa). cbn [s_pools s_recs s_delegs s_slists s_sinfos].
  fold (the_p s e q f).
  assert (Hp0 : 0 <= the_p s e q f) by (apply proportion_nonneg; assumption).
  assert (HpP : the_p s e q f <= P) by apply proportion_le_one.
  unfold st_nonneg in Hnn. apply andb_prop in Hnn. destruct Hnn as [Hnn Hnd]. apply andb_prop in Hnn. destruct Hnn as [Hnp Hnr].
  rewrite Hpr, (proj2 (Z.ltb_lt _ _) Hvpos), (proj2 (Z.leb_le _ _) Hp0), (proj2 (Z.leb_le _ _) HpP).
  rewrite Edup, Hrok. unfold no_increase. cbn [s_pools s_recs s_delegs s_slists s_sinfos]. rewrite Hrni.
  rewrite Eex, Epools, Edel, Esl.
  rewrite forall2b_map, (proj2 (forallb_forall _ _) (fun x _ => pool_ok_step (the_p s e q f) (q_op q) (s_slists s) x)).
  rewrite forall2b_map, (proj2 (forallb_forall _ _) (fun d _ => deleg_ok_step (the_p s e q f) (q_op q) (s_slists s) (s_pools s) d)).
  rewrite slists_filter, (list_eqb_refl slist_eqb) by apply slist_eqb_refl.
  rewrite pools_no_increase, delegs_no_increase by assumption.
  rewrite sinfos_eqb_refl. reflexivity.
Qed.

(* ------------------------------------------------------------------ every entry point ---- *)

Lemma step_ok_slash_direct s e q :
  st_nonneg s = true -> env_sane e = true -> pending_agrees s = true ->
  step_ok s e (CSlash q) (fst (slash s e q)) (snd (slash s e q)) = true.
Proof.
  intros Hnn Hs Hpa. unfold step_ok. simpl.
  destruct (has_sinfo (s_sinfos s) (q_op q) (q_avs q) (q_id q)) eqn:Ed.
  - destruct (slash_dup s e q Ed) as [H1 H2]. rewrite H1, st_eqb_refl. simpl.
    destruct (snd (slash s e q)); try reflexivity. contradiction.
  - destruct (snd (slash s e q)) eqn:Er.
    + destruct (slash_executed s e q Hnn Hs Hpa Er) as [f [Hf [Hd He]]]. rewrite Hf, Hd, He. reflexivity.
    + rewrite slash_not_ok by (rewrite Er; discriminate). apply st_eqb_refl.
    + exfalso. exact (slash_never_panics s e q Er).
    + exfalso. unfold slash in Er. destruct (negb (check_param (v_height e) q)); [discriminate|].
      destruct (q_factor q); [|discriminate]. destruct (slash_assets s e q z) as [[s1 ex]| |]; try discriminate.
      destruct (store_sinfo s1 e q z ex); discriminate.
Qed.

Lemma step_ok_reason s e c q :
  st_nonneg s = true -> env_sane e = true -> pending_agrees s = true ->
  (match c with CSlash _ => False | _ => True end) ->
  call_prm e c = Some q -> (exists f, q_factor q = Some f) ->
  let r := snd (slash s e q) in
  step_ok s e c (fst (slash s e q)) (match r with RPanic => RPanic | _ => RZero end) = true.
Proof.
  intros Hnn Hs Hpa Hc Hprm [f Hf] r. unfold step_ok. rewrite Hprm.
  destruct (has_sinfo (s_sinfos s) (q_op q) (q_avs q) (q_id q)) eqn:Ed.
  - destruct (slash_dup s e q Ed) as [H1 H2]. rewrite H1, st_eqb_refl. simpl. subst r.
    destruct (snd (slash s e q)); reflexivity.
  - subst r. destruct (snd (slash s e q)) eqn:Er.
    + destruct (slash_executed s e q Hnn Hs Hpa Er) as [f' [Hf' [Hd He]]]. rewrite Hf', Hd, He.
      destruct c; try contradiction; rewrite orb_true_r; reflexivity.
    + rewrite slash_not_ok by (rewrite Er; discriminate). rewrite st_eqb_refl, Hf. destruct c; try contradiction; reflexivity.
    + exfalso. exact (slash_never_panics s e q Er).
    + rewrite slash_not_ok by (rewrite Er; discriminate). rewrite st_eqb_refl, Hf. destruct c; try contradiction; reflexivity.
Qed.

Lemma step_meets_statement s e c :
  st_nonneg s = true -> env_sane e = true -> pending_agrees s = true ->
  step_ok s e c (fst (step s e c)) (snd (step s e c)) = true.
Proof.
  intros Hnn Hs Hpa. destruct c as [q|op ev pw f inf|fd ev pw f inf].
  - simpl in *. apply step_ok_slash_direct; assumption.
  - simpl in *. destruct (v_dog_avs e) as [avs|] eqn:Ea.
    + pose proof (step_ok_reason s e (COpReason op ev pw f inf) (reason_prm avs op ev pw f inf) Hnn Hs Hpa I) as H.
      simpl in H. rewrite Ea in H. specialize (H eq_refl (ex_intro _ f eq_refl)).
      destruct (slash s e (reason_prm avs op ev pw f inf)) as [s' r]. exact H.
    + unfold step_ok. simpl. rewrite Ea, st_eqb_refl. reflexivity.
  - destruct fd as [op|].
    + simpl in *. destruct (v_dog_avs e) as [avs|] eqn:Ea.
      * pose proof (step_ok_reason s e (CDogReason (Some op) ev pw f inf) (reason_prm avs op ev pw f inf) Hnn Hs Hpa I) as H.
        simpl in H. rewrite Ea in H. specialize (H eq_refl (ex_intro _ f eq_refl)).
        destruct (slash s e (reason_prm avs op ev pw f inf)) as [s' r]. exact H.
      * unfold step_ok. simpl. rewrite Ea, st_eqb_refl. reflexivity.
    + unfold step_ok. simpl. rewrite st_eqb_refl. reflexivity.
Qed.

(* ------------------------------------------------------------------ once per identifier, over histories ---- *)

Lemma has_sinfo_app l1 l2 o a i : has_sinfo (l1 ++ l2) o a i = has_sinfo l1 o a i || has_sinfo l2 o a i.
Proof. unfold has_sinfo. apply existsb_app. Qed.

Lemma slash_keeps_sinfo s e q o a i : has_sinfo (s_sinfos s) o a i = true ->
  has_sinfo (s_sinfos (fst (slash s e q))) o a i = true.
Proof.
  intros H. unfold slash. destruct (negb (check_param (v_height e) q)); [assumption|].
  destruct (q_factor q) as [f|]; [|assumption].
  destruct (slash_assets s e q f) as [[s1 ex]| |] eqn:Ea; try assumption.
  unfold store_sinfo. rewrite (slash_assets_sinfos _ _ _ _ _ _ Ea).
  destruct (has_sinfo (s_sinfos s) (q_op q) (q_avs q) (q_id q)); [assumption|].
  destruct (avs_contract e (q_avs q)); [|assumption].
  destruct (negb (z =? q_contract q)); [assumption|].
  destruct (q_event q >? v_height e); [assumption|].
  destruct ((f <? 0) || (f >? dec_of_int 1)); [assumption|]. simpl.
  rewrite has_sinfo_app, H. reflexivity.
Qed.

Lemma step_keeps_sinfo s e c o a i : has_sinfo (s_sinfos s) o a i = true ->
  has_sinfo (s_sinfos (fst (step s e c))) o a i = true.
Proof.
  intros H. destruct c as [q|op ev pw f inf|fd ev pw f inf]; simpl.
  - apply slash_keeps_sinfo. assumption.
  - destruct (v_dog_avs e) as [avs|]; [|assumption].
    pose proof (slash_keeps_sinfo s e (reason_prm avs op ev pw f inf) o a i H) as K.
    destruct (slash s e (reason_prm avs op ev pw f inf)). exact K.
  - destruct fd as [op|]; [|assumption]. destruct (v_dog_avs e) as [avs|]; [|assumption].
    pose proof (slash_keeps_sinfo s e (reason_prm avs op ev pw f inf) o a i H) as K.
    destruct (slash s e (reason_prm avs op ev pw f inf)). exact K.
Qed.

Definition run (s : st) (h : list (env * call)) : st := fold_left (fun s ec => fst (step s (fst ec) (snd ec))) h s.

Lemma run_keeps_sinfo h : forall s o a i, has_sinfo (s_sinfos s) o a i = true ->
  has_sinfo (s_sinfos (run s h)) o a i = true.
Proof.
  induction h as [|[e c] t IH]; intros s o a i H; simpl; [assumption|].
  apply IH. apply step_keeps_sinfo. assumption.
Qed.

Lemma slash_records_id s e q : snd (slash s e q) = ROk ->
  has_sinfo (s_sinfos (fst (slash s e q))) (q_op q) (q_avs q) (q_id q) = true.
Proof.
  unfold slash. destruct (negb (check_param (v_height e) q)); [discriminate|].
  destruct (q_factor q) as [f|]; [|discriminate].
  destruct (slash_assets s e q f) as [[s1 ex]| |] eqn:Ea; try discriminate.
  unfold store_sinfo.
  destruct (has_sinfo (s_sinfos s1) (q_op q) (q_avs q) (q_id q)); [discriminate|].
  destruct (avs_contract e (q_avs q)); [|discriminate].
  destruct (negb (z =? q_contract q)); [discriminate|].
  destruct (q_event q >? v_height e); [discriminate|].
  destruct ((f <? 0) || (f >? dec_of_int 1)); [discriminate|]. simpl. intros _.
  rewrite has_sinfo_app. apply orb_true_iff. right. simpl.
  rewrite !Z.eqb_refl, sid_eqb_refl. reflexivity.
Qed.

(* after an executed slash, whatever happens next (any calls, any heights, any prices), presenting the same
   identifier for the same operator and AVS again leaves the state exactly as it is *)
Lemma slash_once s e q h e' q' :
  snd (slash s e q) = ROk ->
  q_op q' = q_op q -> q_avs q' = q_avs q -> q_id q' = q_id q ->
  let s1 := run (fst (slash s e q)) h in
  fst (slash s1 e' q') = s1 /\ snd (slash s1 e' q') <> ROk.
Proof.
  intros Hok Ho Ha Hi s1. apply slash_dup. rewrite Ho, Ha, Hi. subst s1.
  apply run_keeps_sinfo. apply slash_records_id. assumption.
Qed.

(* ------------------------------------------------------------------ non-negativity is preserved ---- *)

Lemma pools_nonneg_step p op sl ps : 0 <= p -> p <= P ->
  forallb (fun x => (0 <=? p_total x) && (0 <=? p_pending x) && (0 <=? p_tshare x) && (0 <=? p_oshare x)) ps = true ->
  forallb (fun x => (0 <=? p_total x) && (0 <=? p_pending x) && (0 <=? p_tshare x) && (0 <=? p_oshare x)) (map (pool_step p op sl) ps) = true.
Proof.
  intros Hp HpP H. rewrite forallb_forall in H. apply forallb_forall. intros y Hy.
  apply in_map_iff in Hy. destruct Hy as [x [Hx Hin]]. specialize (H x Hin). subst y.
  unfold pool_step. destruct (p_op x =? op); [|assumption].
  apply andb_prop in H. destruct H as [H Ho]. apply andb_prop in H. destruct H as [H Ht]. apply andb_prop in H. destruct H as [Htot Hpen].
  apply Z.leb_le in Htot. pose proof (slash_amt_le p (p_total x) Hp HpP Htot).
  unfold slash_pool. destruct (pool_cleared p op sl x); simpl; rewrite ?Hpen, ?Ht, ?Ho;
    rewrite (proj2 (Z.leb_le 0 (p_total x - slash_amt p (p_total x)))) by lia; reflexivity.
Qed.

Lemma recs_nonneg_step p op event rs : 0 <= p ->
  forallb (fun r => (0 <=? u_actual r) && (0 <=? u_amount r)) rs = true ->
  forallb (fun r => (0 <=? u_actual r) && (0 <=? u_amount r)) (map (rec_step p op event) rs) = true.
Proof.
  intros Hp H. rewrite forallb_forall in H. apply forallb_forall. intros y Hy.
  apply in_map_iff in Hy. destruct Hy as [r [Hr Hin]]. specialize (H r Hin). subst y.
  unfold rec_step. destruct ((u_op r =? op) && negb (u_height r <? event)); [|assumption].
  apply andb_prop in H. destruct H as [Hact Ham]. apply Z.leb_le in Hact.
  unfold slash_from_undel. destruct (Z.eqb_spec (u_actual r) 0); simpl.
  - rewrite Ham. rewrite (proj2 (Z.leb_le 0 (u_actual r))) by lia. reflexivity.
  - destruct (Z.geb_spec (slash_amt p (u_amount r)) (u_actual r)); simpl; rewrite Ham; [reflexivity|].
    rewrite (proj2 (Z.leb_le 0 (u_actual r - slash_amt p (u_amount r)))) by lia. reflexivity.
Qed.

Lemma delegs_nonneg_step p op sl ps dl :
  forallb (fun d => (0 <=? d_share d) && (0 <=? d_wait d)) dl = true ->
  forallb (fun d => (0 <=? d_share d) && (0 <=? d_wait d)) (map (clear_deleg p op sl ps) dl) = true.
Proof.
  intros H. rewrite forallb_forall in H. apply forallb_forall. intros y Hy.
  apply in_map_iff in Hy. destruct Hy as [d [Hd Hin]]. specialize (H d Hin). subst y.
  unfold clear_deleg. destruct (_ && _ && _); [|assumption].
  apply andb_prop in H. destruct H as [_ Hw]. simpl. exact Hw.
Qed.

Lemma slash_assets_nonneg s e q f : st_nonneg s = true -> env_sane e = true -> 0 <= f -> 0 <= q_power q ->
  match slash_assets s e q f with Ok (s1, _) => st_nonneg s1 = true | _ => True end.
Proof.
  intros Hnn Hsane Hf0 Hpw. unfold slash_assets.
  destruct (op_value (v_assets e) (q_op q) (s_pools s)) as [total| |] eqn:Ev; try exact I.
  destruct (Z.ltb_spec 0 total) as [E0|E0]; cbn [negb]; [|exact I].
  destruct (op_value_spec _ _ _ _ Ev) as [Hpr Hval].
  unfold st_nonneg in Hnn. apply andb_prop in Hnn. destruct Hnn as [Hnn Hnd]. apply andb_prop in Hnn. destruct Hnn as [Hnp Hnr].
  pose proof (value_of_nonneg (v_assets e) (q_op q) (s_pools s) Hsane Hnp) as Hv0.
  assert (HP1 : dec_of_int 1 = P) by (unfold dec_of_int; lia).
  rewrite (dec_mul_of_int (q_power q) f Hpw Hf0), HP1.
  fold (proportion (q_power q * 1) f total). 
  assert (Hp0 : 0 <= Z.min P (dec_quo (q_power q * f) total)).
  { apply (proportion_nonneg (q_power q) f total); lia. }
  assert (HpP : Z.min P (dec_quo (q_power q * f) total) <= P) by apply Z.le_min_l.
  generalize dependent (Z.min P (dec_quo (q_power q * f) total)). intros p Hp0 HpP.
  pose proof (walk_pools_fst p (q_op q) (s_slists s) (s_pools s)) as Wp1.
  destruct (walk_pools p (q_op q) (s_slists s) (s_pools s)) as [pools' exp]. simpl in Wp1.
  destruct (q_event q <=? v_height e).
  - pose proof (walk_recs_fst p (q_op q) (q_event q) (s_recs s)) as W1.
    destruct (walk_recs p (q_op q) (q_event q) (s_recs s)) as [recs' exu]. simpl in W1.
    unfold st_nonneg. cbn [s_pools s_recs s_delegs]. subst.
    rewrite pools_nonneg_step, recs_nonneg_step, delegs_nonneg_step by assumption. reflexivity.
  - unfold st_nonneg. cbn [s_pools s_recs s_delegs]. subst.
    rewrite pools_nonneg_step, Hnr, delegs_nonneg_step by assumption. reflexivity.
Qed.

Lemma slash_nonneg s e q : st_nonneg s = true -> env_sane e = true -> st_nonneg (fst (slash s e q)) = true.
Proof.
  intros Hnn Hsane. unfold slash.
  destruct (check_param (v_height e) q) eqn:Ecp; simpl; [|assumption].
  unfold check_param in Ecp. destruct (q_factor q) as [f|]; [|assumption].
  apply andb_prop in Ecp. destruct Ecp as [Ecp Hpow]. apply andb_prop in Ecp. destruct Ecp as [Hf0 _].
  apply negb_true_iff in Hf0. apply Z.ltb_ge in Hf0.
  assert (Hpw : 0 <= q_power q).
  { destruct (q_dogfood q).
    - apply negb_true_iff in Hpow. apply Z.leb_gt in Hpow. lia.
    - apply Z.eqb_eq in Hpow. lia. }
  pose proof (slash_assets_nonneg s e q f Hnn Hsane Hf0 Hpw) as K.
  destruct (slash_assets s e q f) as [[s1 ex]| |]; simpl; try assumption.
  unfold store_sinfo.
  destruct (has_sinfo _ _ _ _); [assumption|].
  destruct (avs_contract e (q_avs q)); [|assumption].
  destruct (negb (z =? q_contract q)); [assumption|].
  destruct (q_event q >? v_height e); [assumption|].
  destruct ((f <? 0) || (f >? dec_of_int 1)); [assumption|]. simpl. exact K.
Qed.

Lemma step_nonneg s e c : st_nonneg s = true -> env_sane e = true -> st_nonneg (fst (step s e c)) = true.
Proof.
  intros Hnn Hs. destruct c as [q|op ev pw f inf|fd ev pw f inf]; simpl.
  - apply slash_nonneg; assumption.
  - destruct (v_dog_avs e) as [avs|]; [|assumption].
    pose proof (slash_nonneg s e (reason_prm avs op ev pw f inf) Hnn Hs) as K.
    destruct (slash s e (reason_prm avs op ev pw f inf)). exact K.
  - destruct fd as [op|]; [|assumption]. destruct (v_dog_avs e) as [avs|]; [|assumption].
    pose proof (slash_nonneg s e (reason_prm avs op ev pw f inf) Hnn Hs) as K.
    destruct (slash s e (reason_prm avs op ev pw f inf)). exact K.
Qed.

(* ------------------------------------------------------------------ scalar form for the kernel tie (Gen/KernelsTie.v) ---- *)

Lemma slash_from_undel_scalar p r :
  let k := slash_from_undel_k (u_amount r) (u_actual r) p in
  u_actual (fst (slash_from_undel p r)) = snd k /\
  rec_eqb (fst (slash_from_undel p r)) (set_actual r (snd k)) = true /\
  snd (slash_from_undel p r) = match fst k with Some a => [(u_staker r, u_asset r, a)] | None => [] end.
Proof.
  unfold slash_from_undel, slash_from_undel_k.
  destruct (Z.eqb_spec (u_actual r) 0) as [E|E]; simpl.
  - split; [reflexivity|]. split; [|reflexivity]. apply rec_eqb_fields; reflexivity.
  - destruct (slash_amt p (u_amount r) >=? u_actual r); simpl; (split; [reflexivity|]); (split; [apply rec_eqb_refl|reflexivity]).
Qed.

(* ------------------------------------------------------------------ the pool figure keeps agreeing with the live records ---- *)

Lemma live_pending_rec_step p op event rs o a :
  live_pending (map (rec_step p op event) rs) o a = live_pending rs o a.
Proof.
  unfold live_pending. f_equal. rewrite map_map. apply map_ext. intros r. unfold rec_step.
  destruct ((u_op r =? op) && negb (u_height r <? event)); [|reflexivity].
  unfold slash_from_undel. destruct (u_actual r =? 0); [reflexivity|].
  destruct (slash_amt p (u_amount r) >=? u_actual r); reflexivity.
Qed.

Lemma pending_agrees_step_lists p op sl event ps rs :
  forallb (fun x => p_pending x =? live_pending rs (p_op x) (p_asset x)) ps = true ->
  forallb (fun x => p_pending x =? live_pending (map (rec_step p op event) rs) (p_op x) (p_asset x)) (map (pool_step p op sl) ps) = true.
Proof.
  intros H. rewrite forallb_forall in H. apply forallb_forall. intros y Hy.
  apply in_map_iff in Hy. destruct Hy as [x [Hx Hin]]. specialize (H x Hin). subst y.
  rewrite live_pending_rec_step. unfold pool_step. destruct (p_op x =? op); [|assumption].
  unfold slash_pool. destruct (pool_cleared p op sl x); exact H.
Qed.

Lemma pending_agrees_pools_only p op sl ps rs :
  forallb (fun x => p_pending x =? live_pending rs (p_op x) (p_asset x)) ps = true ->
  forallb (fun x => p_pending x =? live_pending rs (p_op x) (p_asset x)) (map (pool_step p op sl) ps) = true.
Proof.
  intros H. rewrite forallb_forall in H. apply forallb_forall. intros y Hy.
  apply in_map_iff in Hy. destruct Hy as [x [Hx Hin]]. specialize (H x Hin). subst y.
  unfold pool_step. destruct (p_op x =? op); [|assumption].
  unfold slash_pool. destruct (pool_cleared p op sl x); exact H.
Qed.

Lemma slash_assets_pending s e q f : pending_agrees s = true ->
  match slash_assets s e q f with Ok (s1, _) => pending_agrees s1 = true | _ => True end.
Proof.
  intros Hpa. unfold slash_assets.
  destruct (op_value (v_assets e) (q_op q) (s_pools s)) as [total| |]; try exact I.
  destruct (negb (0 <? total)); [exact I|].
  generalize (Z.min (dec_of_int 1) (dec_quo (dec_mul (dec_of_int (q_power q)) f) total)). intros p.
  pose proof (walk_pools_fst p (q_op q) (s_slists s) (s_pools s)) as Wp1.
  destruct (walk_pools p (q_op q) (s_slists s) (s_pools s)) as [pools' exp]. simpl in Wp1.
  destruct (q_event q <=? v_height e).
  - pose proof (walk_recs_fst p (q_op q) (q_event q) (s_recs s)) as W1.
    destruct (walk_recs p (q_op q) (q_event q) (s_recs s)) as [recs' exu]. simpl in W1.
    unfold pending_agrees in *. cbn [s_pools s_recs]. subst. apply pending_agrees_step_lists. assumption.
  - unfold pending_agrees in *. cbn [s_pools s_recs]. subst. apply pending_agrees_pools_only. assumption.
Qed.

Lemma slash_pending s e q : pending_agrees s = true -> pending_agrees (fst (slash s e q)) = true.
Proof.
  intros Hpa. unfold slash.
  destruct (negb (check_param (v_height e) q)); [assumption|].
  destruct (q_factor q) as [f|]; [|assumption].
  pose proof (slash_assets_pending s e q f Hpa) as K.
  destruct (slash_assets s e q f) as [[s1 ex]| |]; simpl; try assumption.
  unfold store_sinfo.
  destruct (has_sinfo _ _ _ _); [assumption|].
  destruct (avs_contract e (q_avs q)); [|assumption].
  destruct (negb (z =? q_contract q)); [assumption|].
  destruct (q_event q >? v_height e); [assumption|].
  destruct ((f <? 0) || (f >? dec_of_int 1)); [assumption|]. simpl. exact K.
Qed.

Lemma step_pending s e c : pending_agrees s = true -> pending_agrees (fst (step s e c)) = true.
Proof.
  intros Hpa. destruct c as [q|op ev pw f inf|fd ev pw f inf]; simpl.
  - apply slash_pending; assumption.
  - destruct (v_dog_avs e) as [avs|]; [|assumption].
    pose proof (slash_pending s e (reason_prm avs op ev pw f inf) Hpa) as K.
    destruct (slash s e (reason_prm avs op ev pw f inf)). exact K.
  - destruct fd as [op|]; [|assumption]. destruct (v_dog_avs e) as [avs|]; [|assumption].
    pose proof (slash_pending s e (reason_prm avs op ev pw f inf) Hpa) as K.
    destruct (slash s e (reason_prm avs op ev pw f inf)). exact K.
Qed.

(* ------------------------------------------------------------------ the basis (Amount) of every record is never touched ---- *)

Lemma rec_step_amount p op event r : u_amount (rec_step p op event r) = u_amount r /\ u_id (rec_step p op event r) = u_id r.
Proof.
  unfold rec_step. destruct ((u_op r =? op) && negb (u_height r <? event)); [|split; reflexivity].
  unfold slash_from_undel. destruct (u_actual r =? 0); [split; reflexivity|].
  destruct (slash_amt p (u_amount r) >=? u_actual r); split; reflexivity.
Qed.

Lemma slash_assets_basis s e q f :
  match slash_assets s e q f with
  | Ok (s1, _) => map (fun r => (u_id r, u_amount r)) (s_recs s1) = map (fun r => (u_id r, u_amount r)) (s_recs s)
  | _ => True
  end.
Proof.
  unfold slash_assets.
  destruct (op_value (v_assets e) (q_op q) (s_pools s)) as [total| |]; try exact I.
  destruct (negb (0 <? total)); [exact I|].
  generalize (Z.min (dec_of_int 1) (dec_quo (dec_mul (dec_of_int (q_power q)) f) total)). intros p.
  destruct (walk_pools p (q_op q) (s_slists s) (s_pools s)) as [pools' exp].
  destruct (q_event q <=? v_height e); [|reflexivity].
  pose proof (walk_recs_fst p (q_op q) (q_event q) (s_recs s)) as W1.
  destruct (walk_recs p (q_op q) (q_event q) (s_recs s)) as [recs' exu]. simpl in W1. cbn [s_recs]. subst.
  rewrite map_map. apply map_ext. intros r. destruct (rec_step_amount p (q_op q) (q_event q) r) as [H1 H2]. rewrite H1, H2. reflexivity.
Qed.

Lemma slash_basis s e q :
  map (fun r => (u_id r, u_amount r)) (s_recs (fst (slash s e q))) = map (fun r => (u_id r, u_amount r)) (s_recs s).
Proof.
  unfold slash. destruct (negb (check_param (v_height e) q)); [reflexivity|].
  destruct (q_factor q) as [f|]; [|reflexivity].
  pose proof (slash_assets_basis s e q f) as K.
  destruct (slash_assets s e q f) as [[s1 ex]| |]; simpl; try reflexivity.
  unfold store_sinfo.
  destruct (has_sinfo _ _ _ _); [reflexivity|].
  destruct (avs_contract e (q_avs q)); [|reflexivity].
  destruct (negb (z =? q_contract q)); [reflexivity|].
  destruct (q_event q >? v_height e); [reflexivity|].
  destruct ((f <? 0) || (f >? dec_of_int 1)); [reflexivity|]. simpl. exact K.
Qed.

Lemma step_basis s e c :
  map (fun r => (u_id r, u_amount r)) (s_recs (fst (step s e c))) = map (fun r => (u_id r, u_amount r)) (s_recs s).
Proof.
  destruct c as [q|op ev pw f inf|fd ev pw f inf]; simpl.
  - apply slash_basis.
  - destruct (v_dog_avs e) as [avs|]; [|reflexivity].
    pose proof (slash_basis s e (reason_prm avs op ev pw f inf)) as K.
    destruct (slash s e (reason_prm avs op ev pw f inf)). exact K.
  - destruct fd as [op|]; [|reflexivity]. destruct (v_dog_avs e) as [avs|]; [|reflexivity].
    pose proof (slash_basis s e (reason_prm avs op ev pw f inf)) as K.
    destruct (slash s e (reason_prm avs op ev pw f inf)). exact K.
Qed.
