(* C04/Model.v — executable model of the slash execution path (x/operator/keeper/slash.go:
   the slash-input check, SlashAssets, SlashFromUndelegation, Slash, SlashWithInfractionReason;
   x/operator/keeper/usd_value.go CalculateUSDValueForOperator(isForSlash=true) + common_func.go
   CalculateUSDValue; x/operator/keeper/operator_slash_state.go UpdateOperatorSlashInfo;
   x/dogfood/keeper/impl_sdk.go SlashWithInfractionReason).  Definitions only, no proofs.

   Identities (operators, assets, stakers, AVSs, contracts, undelegation-record keys) are small integers
   assigned by the harness; only equality of identities matters to the code that is modelled.  Lists are in
   store (key) order as dumped by the harness.  LegacyDec values are Z scaled by P = 10^18 (Base/IntDec.v). *)
From Coq Require Import List ZArith Bool Lia.
From Exo Require Import Base.IntDec Base.Util.
Import ListNotations.
Local Open Scope Z_scope.

(* ---------------------------------------------------------------- observations / state ---- *)

(* result class of oracleKeeper.GetSpecifiedAssetsPrice *)
Inductive price_class := PcOk | PcDefault (* ErrGetPriceRoundNotFound: price 1, ignored *) | PcMissing (* hard error *).

Record ainfo := mkAI {
  a_id : Z; a_pclass : price_class; a_price : Z; a_pdec : Z;
  a_known : bool (* GetStakingAssetInfo succeeds *); a_dec : Z }.

Record pool := mkPool { p_op : Z; p_asset : Z; p_total : Z; p_pending : Z; p_tshare : Z; p_oshare : Z }.

(* undelegation record; u_height is the block height in the record KEY; u_fp fingerprints every other field *)
Record urec := mkRec { u_id : Z; u_op : Z; u_height : Z; u_staker : Z; u_asset : Z;
                       u_amount : Z; u_actual : Z; u_fp : Z }.

Record deleg := mkDeleg { d_staker : Z; d_asset : Z; d_op : Z; d_share : Z; d_wait : Z }.

Record slist := mkSL { sl_op : Z; sl_asset : Z; sl_stakers : list Z }.

Record exec_info := mkExec { e_prop : Z; e_value : Z; e_undels : list (Z * Z * Z); e_pools : list (Z * Z) }.

(* slash identifier: the dogfood path builds hex(infraction)_hex(height); anything else is opaque *)
Inductive sid := SidDog (infraction height : Z) | SidRaw (n : Z).

Record sinfo := mkSI { si_op : Z; si_avs : Z; si_id : sid; si_type : Z; si_contract : Z;
                       si_submitted : Z; si_event : Z; si_vetoed : bool; si_factor : Z; si_exec : exec_info }.

Record st := mkSt { s_pools : list pool; s_recs : list urec; s_delegs : list deleg;
                    s_slists : list slist; s_sinfos : list sinfo }.

(* SlashInputInfo *)
Record sprm := mkPrm { q_op : Z; q_avs : Z; q_id : sid; q_dogfood : bool; q_power : Z; q_type : Z;
                       q_contract : Z; q_event : Z; q_factor : option Z (* None = nil Dec *) }.

(* what the step sees of the rest of the chain *)
Record env := mkEnv {
  v_height : Z;
  v_assets : list ainfo;
  v_avs_contract : list (Z * Z)   (* AVS id -> slash contract id, for AVSs known to the AVS keeper *);
  v_dog_avs : option Z            (* IsAVSByChainID(ctx.ChainID()) *) }.

Inductive call :=
| CSlash (q : sprm)                                           (* OperatorKeeper.Slash *)
| COpReason (op event power factor infraction : Z)            (* OperatorKeeper.SlashWithInfractionReason *)
| CDogReason (found : option Z) (event power factor infraction : Z). (* dogfood, by consensus address *)

Inductive res := ROk | RErr | RPanic | RZero.

Inductive outcome (A : Type) := Ok (a : A) | Err | Panic.
Arguments Ok {A} a. Arguments Err {A}. Arguments Panic {A}.

(* ---------------------------------------------------------------- equality helpers ---- *)

Definition pool_eqb (a b : pool) : bool :=
  (p_op a =? p_op b) && (p_asset a =? p_asset b) && (p_total a =? p_total b) && (p_pending a =? p_pending b) &&
  (p_tshare a =? p_tshare b) && (p_oshare a =? p_oshare b).
Definition rec_eqb (a b : urec) : bool :=
  (u_id a =? u_id b) && (u_op a =? u_op b) && (u_height a =? u_height b) && (u_staker a =? u_staker b) &&
  (u_asset a =? u_asset b) && (u_amount a =? u_amount b) && (u_actual a =? u_actual b) && (u_fp a =? u_fp b).
Definition deleg_eqb (a b : deleg) : bool :=
  (d_staker a =? d_staker b) && (d_asset a =? d_asset b) && (d_op a =? d_op b) && (d_share a =? d_share b) &&
  (d_wait a =? d_wait b).
Definition slist_eqb (a b : slist) : bool :=
  (sl_op a =? sl_op b) && (sl_asset a =? sl_asset b) && list_eqb Z.eqb (sl_stakers a) (sl_stakers b).
Definition z3_eqb (a b : Z * Z * Z) : bool :=
  let '(a1, a2, a3) := a in let '(b1, b2, b3) := b in (a1 =? b1) && (a2 =? b2) && (a3 =? b3).
Definition z2_eqb (a b : Z * Z) : bool := (fst a =? fst b) && (snd a =? snd b).
Definition exec_eqb (a b : exec_info) : bool :=
  (e_prop a =? e_prop b) && (e_value a =? e_value b) && list_eqb z3_eqb (e_undels a) (e_undels b) &&
  list_eqb z2_eqb (e_pools a) (e_pools b).
Definition sid_eqb (a b : sid) : bool :=
  match a, b with
  | SidDog i h, SidDog i' h' => (i =? i') && (h =? h')
  | SidRaw n, SidRaw n' => n =? n'
  | _, _ => false
  end.
Definition sinfo_eqb (a b : sinfo) : bool :=
  (si_op a =? si_op b) && (si_avs a =? si_avs b) && sid_eqb (si_id a) (si_id b) && (si_type a =? si_type b) &&
  (si_contract a =? si_contract b) && (si_submitted a =? si_submitted b) && (si_event a =? si_event b) &&
  Bool.eqb (si_vetoed a) (si_vetoed b) && (si_factor a =? si_factor b) && exec_eqb (si_exec a) (si_exec b).

(* the slash-info store is compared as a set of rows (its key order depends on identifier strings) *)
Definition sinfos_sub (a b : list sinfo) : bool := forallb (fun x => existsb (sinfo_eqb x) b) a.
Definition sinfos_eqb (a b : list sinfo) : bool :=
  Nat.eqb (List.length a) (List.length b) && sinfos_sub a b && sinfos_sub b a.

Definition st_eqb (a b : st) : bool :=
  list_eqb pool_eqb (s_pools a) (s_pools b) && list_eqb rec_eqb (s_recs a) (s_recs b) &&
  list_eqb deleg_eqb (s_delegs a) (s_delegs b) && list_eqb slist_eqb (s_slists a) (s_slists b) &&
  sinfos_eqb (s_sinfos a) (s_sinfos b).

Definition res_eqb (a b : res) : bool :=
  match a, b with ROk, ROk | RErr, RErr | RPanic, RPanic | RZero, RZero => true | _, _ => false end.

(* ---------------------------------------------------------------- arithmetic ---- *)

(* CalculateUSDValue: NewDecFromBigInt(amount*price).QuoInt(10^(decimals+priceDecimals)) *)
Definition usd (amount price dec pdec : Z) : Z :=
  dec_quo_int (dec_of_int (amount * price)) (10 ^ (dec + pdec)).

(* proportion.MulInt(x).TruncateInt() *)
Definition slash_amt (p x : Z) : Z := dec_trunc_int (dec_mul_int p x).

Definition find_asset (l : list ainfo) (a : Z) : option ainfo := find (fun i => a_id i =? a) l.

(* CalculateUSDValueForOperator(isForSlash = true): walk over the operator's pools in key order *)
Fixpoint op_value (assets : list ainfo) (op : Z) (ps : list pool) : outcome Z :=
  match ps with
  | [] => Ok 0
  | x :: t =>
      if p_op x =? op then
        match find_asset assets (p_asset x) with
        | None => Err
        | Some i =>
            match a_pclass i with
            | PcMissing => Err
            | _ =>
                if negb (a_known i) then Err
                else match op_value assets op t with
                     | Ok v => Ok (usd (p_total x + p_pending x) (a_price i) (a_dec i) (a_pdec i) + v)
                     | o => o
                     end
            end
        end
      else op_value assets op t
  end.

(* SlashFromUndelegation *)
Definition set_actual (r : urec) (v : Z) : urec :=
  mkRec (u_id r) (u_op r) (u_height r) (u_staker r) (u_asset r) (u_amount r) v (u_fp r).

Definition slash_from_undel (p : Z) (r : urec) : urec * list (Z * Z * Z) :=
  if u_actual r =? 0 then (r, [])
  else
    let amt := slash_amt p (u_amount r) in
    if amt >=? u_actual r then (set_actual r 0, [(u_staker r, u_asset r, u_actual r)])
    else (set_actual r (u_actual r - amt), [(u_staker r, u_asset r, amt)]).

(* The same function on scalars, in the argument order of the Go-derived kernel Gen.Kernels.SlashFromUndelegation
   (undelegation.Amount, undelegation.ActualCompletedAmount, slashProportion): result = (recorded slash amount if a
   SlashFromUndelegation entry is produced, new ActualCompletedAmount).  Proofs.slash_from_undel_scalar ties it to
   [slash_from_undel]. *)
Definition slash_from_undel_k (amount actual p : Z) : option Z * Z :=
  if actual =? 0 then (None, actual)
  else
    let amt := slash_amt p amount in
    if amt >=? actual then (Some actual, 0) else (Some amt, actual - amt).

(* IterateUndelegationsByOperator(operator, &heightFilter, isUpdate = true, opFunc) *)
Fixpoint walk_recs (p op event : Z) (rs : list urec) : list urec * list (Z * Z * Z) :=
  match rs with
  | [] => ([], [])
  | r :: t =>
      let '(t', ex) := walk_recs p op event t in
      if (u_op r =? op) && negb (u_height r <? event) then
        let '(r', e) := slash_from_undel p r in (r' :: t', e ++ ex)
      else (r :: t', ex)
  end.

(* staker-list lookups (delegation keeper HasStakerList / GetStakersByOperator).  Every (operator, asset)
   pool is a distinct KV key and is visited once, so the lookups made while walking the pools see, for the
   asset at hand, the lists as they were when the slash started. *)
Definition find_list (sl : list slist) (op a : Z) : option slist :=
  find (fun l => (sl_op l =? op) && (sl_asset l =? a)) sl.
Definition has_list (sl : list slist) (op a : Z) : bool :=
  match find_list sl op a with Some _ => true | None => false end.
Definition stakers_of (sl : list slist) (op a : Z) : list Z :=
  match find_list sl op a with Some l => sl_stakers l | None => [] end.
Definition zmem (x : Z) (l : list Z) : bool := existsb (Z.eqb x) l.

Definition pool_cleared (p op : Z) (sl : list slist) (x : pool) : bool :=
  (p_op x =? op) && (p_total x - slash_amt p (p_total x) =? 0) && has_list sl op (p_asset x).

(* opFuncToIterateAssets on one pool of the operator *)
Definition slash_pool (p op : Z) (sl : list slist) (x : pool) : pool :=
  let rem := p_total x - slash_amt p (p_total x) in
  if pool_cleared p op sl x then mkPool (p_op x) (p_asset x) rem (p_pending x) 0 0
  else mkPool (p_op x) (p_asset x) rem (p_pending x) (p_tshare x) (p_oshare x).

(* IterateAssetsForOperator(isUpdate = true, operator, nil, opFuncToIterateAssets) *)
Fixpoint walk_pools (p op : Z) (sl : list slist) (ps : list pool) : list pool * list (Z * Z) :=
  match ps with
  | [] => ([], [])
  | x :: t =>
      let '(t', ex) := walk_pools p op sl t in
      if p_op x =? op then (slash_pool p op sl x :: t', (p_asset x, slash_amt p (p_total x)) :: ex)
      else (x :: t', ex)
  end.

Definition cleared_asset (p op : Z) (sl : list slist) (ps : list pool) (a : Z) : bool :=
  existsb (fun x => pool_cleared p op sl x && (p_asset x =? a)) ps.

(* SetStakerShareToZero for the cleared (operator, asset) pools *)
Definition clear_deleg (p op : Z) (sl : list slist) (ps : list pool) (d : deleg) : deleg :=
  if (d_op d =? op) && cleared_asset p op sl ps (d_asset d) && zmem (d_staker d) (stakers_of sl op (d_asset d))
  then mkDeleg (d_staker d) (d_asset d) (d_op d) 0 (d_wait d) else d.

(* DeleteStakersListForOperator for the cleared pools *)
Definition keep_list (p op : Z) (sl0 : list slist) (ps : list pool) (l : slist) : bool :=
  negb ((sl_op l =? op) && cleared_asset p op sl0 ps (sl_asset l)).

(* the input check at the top of Keeper.Slash (Check Slash P-a-r-a-m-e-t-e-r in slash.go) *)
Definition check_param (height : Z) (q : sprm) : bool :=
  match q_factor q with
  | None => false
  | Some f =>
      negb (f <? 0) && negb (q_event q >? height) &&
      (if q_dogfood q then negb (q_power q <=? 0) else q_power q =? 0)
  end.

(* SlashAssets *)
Definition slash_assets (s : st) (e : env) (q : sprm) (f : Z) : outcome (st * exec_info) :=
  let value_usd := dec_mul (dec_of_int (q_power q)) f in
  match op_value (v_assets e) (q_op q) (s_pools s) with
  | Err => Err
  | Panic => Panic
  | Ok total =>
      (* `if !stakingInfo.StakingAndWaitUnbonding.IsPositive() { return nil, ErrValueIsNilOrZero }` (repaired: the code used
         to divide by zero here) *)
      if negb (0 <? total) then Err
      else
        let p := Z.min (dec_of_int 1) (dec_quo value_usd total) in
        let '(recs', exu) :=
          (* `if parameter.SlashEventHeight <= ctx.BlockHeight()` (repaired: was `<`) *)
          if q_event q <=? v_height e then walk_recs p (q_op q) (q_event q) (s_recs s) else (s_recs s, []) in
        let '(pools', exp) := walk_pools p (q_op q) (s_slists s) (s_pools s) in
        let delegs' := map (clear_deleg p (q_op q) (s_slists s) (s_pools s)) (s_delegs s) in
        let slists' := filter (keep_list p (q_op q) (s_slists s) (s_pools s)) (s_slists s) in
        Ok (mkSt pools' recs' delegs' slists' (s_sinfos s), mkExec p value_usd exu exp)
  end.

Definition has_sinfo (l : list sinfo) (op avs : Z) (id : sid) : bool :=
  existsb (fun i => (si_op i =? op) && (si_avs i =? avs) && sid_eqb (si_id i) id) l.

Definition avs_contract (e : env) (avs : Z) : option Z :=
  match find (fun kv => fst kv =? avs) (v_avs_contract e) with Some kv => Some (snd kv) | None => None end.

(* UpdateOperatorSlashInfo, executed in the same cache context as SlashAssets *)
Definition store_sinfo (s : st) (e : env) (q : sprm) (f : Z) (ex : exec_info) : outcome st :=
  if has_sinfo (s_sinfos s) (q_op q) (q_avs q) (q_id q) then Err
  else match avs_contract e (q_avs q) with
       | None => Err
       | Some c =>
           if negb (c =? q_contract q) then Err
           else if q_event q >? v_height e then Err
           else if (f <? 0) || (f >? dec_of_int 1) then Err
           else Ok (mkSt (s_pools s) (s_recs s) (s_delegs s) (s_slists s)
                         (s_sinfos s ++ [mkSI (q_op q) (q_avs q) (q_id q) (q_type q) (q_contract q)
                                              (v_height e) (q_event q) false f ex]))
       end.

(* Keeper.Slash: any error discards the cache context, i.e. leaves the state as it was *)
Definition slash (s : st) (e : env) (q : sprm) : st * res :=
  if negb (check_param (v_height e) q) then (s, RErr)
  else match q_factor q with
       | None => (s, RErr)
       | Some f =>
           match slash_assets s e q f with
           | Err => (s, RErr)
           | Panic => (s, RPanic)
           | Ok (s1, ex) =>
               match store_sinfo s1 e q f ex with
               | Ok s2 => (s2, ROk)
               | _ => (s, RErr)
               end
           end
       end.

(* OperatorKeeper.SlashWithInfractionReason: builds the inputs, swallows errors, returns 0 *)
Definition reason_prm (avs op event power factor infraction : Z) : sprm :=
  mkPrm op avs (SidDog infraction event) true power infraction 0 event (Some factor).

Definition step (s : st) (e : env) (c : call) : st * res :=
  match c with
  | CSlash q => slash s e q
  | COpReason op event power factor infraction =>
      match v_dog_avs e with
      | None => (s, RZero)
      | Some avs =>
          let '(s', r) := slash s e (reason_prm avs op event power factor infraction) in
          (s', match r with RPanic => RPanic | _ => RZero end)
      end
  | CDogReason None _ _ _ _ => (s, RZero)
  | CDogReason (Some op) event power factor infraction =>
      match v_dog_avs e with
      | None => (s, RZero)
      | Some avs =>
          let '(s', r) := slash s e (reason_prm avs op event power factor infraction) in
          (s', match r with RPanic => RPanic | _ => RZero end)
      end
  end.

(* the inputs a call hands to Keeper.Slash, if it gets that far *)
Definition call_prm (e : env) (c : call) : option sprm :=
  match c with
  | CSlash q => Some q
  | COpReason op event power factor infraction =>
      match v_dog_avs e with Some avs => Some (reason_prm avs op event power factor infraction) | None => None end
  | CDogReason (Some op) event power factor infraction =>
      match v_dog_avs e with Some avs => Some (reason_prm avs op event power factor infraction) | None => None end
  | CDogReason None _ _ _ _ => None
  end.

(* ---------------------------------------------------------------- the property, as a boolean ---- *)
(* Everything below looks only at an observed (before, after, result) triple: no model transition is used. *)

(* value of the operator's stake incl. unbonding, written as a sum *)
Definition pool_usd (assets : list ainfo) (x : pool) : option Z :=
  match find_asset assets (p_asset x) with
  | Some i => match a_pclass i with
              | PcMissing => None
              | _ => if a_known i then Some (usd (p_total x + p_pending x) (a_price i) (a_dec i) (a_pdec i)) else None
              end
  | None => None
  end.

Definition priced (assets : list ainfo) (op : Z) (ps : list pool) : bool :=
  forallb (fun x => negb (p_op x =? op) || match pool_usd assets x with Some _ => true | None => false end) ps.

(* what the code sums: pool amount + the pool's PendingUndelegationAmount FIGURE *)
Definition value_of_pool (assets : list ainfo) (op : Z) (ps : list pool) : Z :=
  zsum (map (fun x => if p_op x =? op then match pool_usd assets x with Some v => v | None => 0 end else 0) ps).

(* what the statement means by "including unbonding stake": the operator's LIVE pending undelegation records of that asset
   (sum of their Amount, the basis the slash is measured on), not a stored figure that may have drifted *)
Definition live_pending (rs : list urec) (op a : Z) : Z :=
  zsum (map (fun r => if (u_op r =? op) && (u_asset r =? a) then u_amount r else 0) rs).

Definition pool_usd_live (assets : list ainfo) (rs : list urec) (x : pool) : option Z :=
  match find_asset assets (p_asset x) with
  | Some i => match a_pclass i with
              | PcMissing => None
              | _ => if a_known i
                     then Some (usd (p_total x + live_pending rs (p_op x) (p_asset x)) (a_price i) (a_dec i) (a_pdec i))
                     else None
              end
  | None => None
  end.

Definition value_of (assets : list ainfo) (op : Z) (ps : list pool) (rs : list urec) : Z :=
  zsum (map (fun x => if p_op x =? op then match pool_usd_live assets rs x with Some v => v | None => 0 end else 0) ps).

(* the pool figure agrees with the live records (the aggregate invariant of C03) *)
Definition pending_agrees (s : st) : bool :=
  forallb (fun x => p_pending x =? live_pending (s_recs s) (p_op x) (p_asset x)) (s_pools s).

(* the proportion of the statement: power * factor / current value, capped at 1 *)
Definition proportion (power f value : Z) : Z := Z.min P (dec_quo (power * f) value).

(* pointwise boolean over two lists of equal length *)
Fixpoint forall2b {A} (f : A -> A -> bool) (l1 l2 : list A) : bool :=
  match l1, l2 with
  | [], [] => true
  | a :: r1, b :: r2 => f a b && forall2b f r1 r2
  | _, _ => false
  end.

Definition at_risk (op event : Z) (r : urec) : bool := (u_op r =? op) && (event <=? u_height r).

(* one pool across the slash *)
Definition pool_ok (p op : Z) (sl : list slist) (x x' : pool) : bool :=
  if p_op x =? op then
    (p_op x' =? p_op x) && (p_asset x' =? p_asset x) && (p_pending x' =? p_pending x) &&
    (p_total x' =? p_total x - slash_amt p (p_total x)) &&
    (if (p_total x' =? 0) && has_list sl op (p_asset x)
     then (p_tshare x' =? 0) && (p_oshare x' =? 0)
     else (p_tshare x' =? p_tshare x) && (p_oshare x' =? p_oshare x))
  else pool_eqb x x'.

(* one undelegation record across the slash *)
Definition rec_ok (p op event : Z) (r r' : urec) : bool :=
  if at_risk op event r then
    rec_eqb (set_actual r (u_actual r - Z.min (slash_amt p (u_amount r)) (u_actual r))) r'
  else rec_eqb r r'.

(* a pool of the operator whose amount was observed to reach zero *)
Definition emptied (op a : Z) (ps' : list pool) : bool :=
  existsb (fun x' => (p_op x' =? op) && (p_asset x' =? a) && (p_total x' =? 0)) ps'.

Definition deleg_ok (op : Z) (sl : list slist) (ps' : list pool) (d d' : deleg) : bool :=
  if (d_op d =? op) && emptied op (d_asset d) ps' && zmem (d_staker d) (stakers_of sl op (d_asset d))
  then deleg_eqb (mkDeleg (d_staker d) (d_asset d) (d_op d) 0 (d_wait d)) d'
  else deleg_eqb d d'.

Definition list_kept (op : Z) (ps' : list pool) (l : slist) : bool :=
  negb ((sl_op l =? op) && emptied op (sl_asset l) ps').

(* reductions actually observed, in walk order *)
Fixpoint observed_pool_cuts (op : Z) (ps ps' : list pool) : list (Z * Z) :=
  match ps, ps' with
  | x :: t, x' :: t' =>
      if p_op x =? op then (p_asset x, p_total x - p_total x') :: observed_pool_cuts op t t'
      else observed_pool_cuts op t t'
  | _, _ => []
  end.

Fixpoint observed_rec_cuts (op event : Z) (rs rs' : list urec) : list (Z * Z * Z) :=
  match rs, rs' with
  | r :: t, r' :: t' =>
      if at_risk op event r && negb (u_actual r =? 0)
      then (u_staker r, u_asset r, u_actual r - u_actual r') :: observed_rec_cuts op event t t'
      else observed_rec_cuts op event t t'
  | _, _ => []
  end.

(* no quantity went up anywhere *)
Definition no_increase (a b : st) : bool :=
  forall2b (fun x x' => (p_total x' <=? p_total x) && (p_pending x' <=? p_pending x) &&
                        (p_tshare x' <=? p_tshare x) && (p_oshare x' <=? p_oshare x)) (s_pools a) (s_pools b) &&
  forall2b (fun r r' => (u_actual r' <=? u_actual r) && (0 <=? u_actual r')) (s_recs a) (s_recs b) &&
  forall2b (fun d d' => (d_share d' <=? d_share d) && (d_wait d' <=? d_wait d)) (s_delegs a) (s_delegs b).

(* amounts/shares of a dumped state are non-negative, actual <= amount *)
Definition st_nonneg (s : st) : bool :=
  forallb (fun x => (0 <=? p_total x) && (0 <=? p_pending x) && (0 <=? p_tshare x) && (0 <=? p_oshare x)) (s_pools s) &&
  forallb (fun r => (0 <=? u_actual r) && (0 <=? u_amount r)) (s_recs s) &&
  forallb (fun d => (0 <=? d_share d) && (0 <=? d_wait d)) (s_delegs s).

(* every asset of the environment has sane decimals and a positive price *)
Definition env_sane (e : env) : bool :=
  forallb (fun i => (0 <? a_price i) && (0 <=? a_pdec i) && (0 <=? a_dec i)) (v_assets e).

(* the executed-slash clause of the statement *)
Definition executed_ok (s : st) (e : env) (q : sprm) (f : Z) (s' : st) : bool :=
  let op := q_op q in
  let value := value_of (v_assets e) op (s_pools s) (s_recs s) in
  let p := proportion (q_power q) f value in
  priced (v_assets e) op (s_pools s) && (0 <? value) && (0 <=? p) && (p <=? P) &&
  forall2b (pool_ok p op (s_slists s)) (s_pools s) (s_pools s') &&
  forall2b (rec_ok p op (q_event q)) (s_recs s) (s_recs s') &&
  forall2b (deleg_ok op (s_slists s) (s_pools s')) (s_delegs s) (s_delegs s') &&
  list_eqb slist_eqb (filter (list_kept op (s_pools s')) (s_slists s)) (s_slists s') &&
  no_increase s s' &&
  (* the audit record: exactly one new row, and it lists exactly the observed reductions *)
  negb (has_sinfo (s_sinfos s) op (q_avs q) (q_id q)) &&
  sinfos_eqb (s_sinfos s ++
              [mkSI op (q_avs q) (q_id q) (q_type q) (q_contract q) (v_height e) (q_event q) false f
                    (mkExec p (q_power q * f)
                            (observed_rec_cuts op (q_event q) (s_recs s) (s_recs s'))
                            (observed_pool_cuts op (s_pools s) (s_pools s')))])
             (s_sinfos s').

(* inputs on which the statement applies: factor in [0,1], infraction not in the future *)
Definition in_domain (e : env) (q : sprm) : bool :=
  match q_factor q with
  | Some f => (0 <=? f) && (f <=? P) && (q_event q <=? v_height e) && (0 <=? q_power q)
  | None => false
  end.

(* The statement of C04 for one call, on observations only:
   - a call that reports an error (or is swallowed without reaching Slash) changes nothing;
   - an identifier that is already recorded for (operator, AVS) changes nothing (idempotence);
   - an executed slash satisfies executed_ok;
   - a panic is never accepted (an operator without value makes Slash return an error). *)
Definition step_ok (s : st) (e : env) (c : call) (s' : st) (r : res) : bool :=
  match call_prm e c with
  | None => st_eqb s s' && res_eqb r RZero
  | Some q =>
      if has_sinfo (s_sinfos s) (q_op q) (q_avs q) (q_id q) then st_eqb s s' && negb (res_eqb r ROk)
      else match r with
           | RErr => st_eqb s s'
           | RPanic => false   (* a panic is never acceptable: the slash runs in BeginBlock *)
           | ROk => match c, q_factor q with
                    | CSlash _, Some f => in_domain e q && executed_ok s e q f s'
                    | _, _ => false
                    end
           | RZero =>
               match c, q_factor q with
               | CSlash _, _ => false
               | _, Some f =>
                   (* the entry point hides the error: either nothing happened or a slash in the domain was executed *)
                   st_eqb s s' || (in_domain e q && executed_ok s e q f s')
               | _, None => false
               end
           end
  end.

(* ---------------------------------------------------------------- cases written by the harness ---- *)

(* t_other = number of key/value pairs outside the five dumped prefixes, over all stores, that changed *)
(* t_orig = ghost: (record id, Amount the record had when it was first observed, i.e. right after it was created) *)
Record cstep := mkStep { t_env : env; t_before : st; t_call : call; t_after : st; t_res : res; t_other : Z;
                         t_orig : list (Z * Z) }.

(* "measured on its original amount": the basis of a pending record must still be the amount it was created with, before and
   after the call (nothing - no balance adjustment, no slash - may shrink it while the record is pending) *)
Definition basis_ok (orig : list (Z * Z)) (rs : list urec) : bool :=
  forallb (fun r => match find (fun kv => fst kv =? u_id r) orig with
                    | Some kv => u_amount r =? snd kv
                    | None => true
                    end) rs.
Record case := mkCase { c_steps : list cstep }.

(* pool / record / delegation / staker-list keys are distinct in a KV store *)
Fixpoint nodupb {A} (eqb : A -> A -> bool) (l : list A) : bool :=
  match l with [] => true | a :: t => negb (existsb (eqb a) t) && nodupb eqb t end.
Definition keys_unique (s : st) : bool :=
  nodupb z2_eqb (map (fun x => (p_op x, p_asset x)) (s_pools s)) &&
  nodupb Z.eqb (map u_id (s_recs s)) &&
  nodupb z3_eqb (map (fun d => (d_staker d, d_asset d, d_op d)) (s_delegs s)) &&
  nodupb z2_eqb (map (fun l => (sl_op l, sl_asset l)) (s_slists s)).

Fixpoint check_steps (ts : list cstep) (i : nat) : option nat :=
  match ts with
  | [] => None
  | t :: r =>
      let '(s', res') := step (t_before t) (t_env t) (t_call t) in
      if keys_unique (t_before t) && st_eqb s' (t_after t) && res_eqb res' (t_res t) && (t_other t =? 0)
      then check_steps r (S i) else Some i
  end.
Definition check_case (c : case) : option nat := check_steps (c_steps c) 0.

Fixpoint monitor_steps (ts : list cstep) (i : nat) : option nat :=
  match ts with
  | [] => None
  | t :: r =>
      if step_ok (t_before t) (t_env t) (t_call t) (t_after t) (t_res t) && (t_other t =? 0) &&
         basis_ok (t_orig t) (s_recs (t_before t)) && basis_ok (t_orig t) (s_recs (t_after t))
      then monitor_steps r (S i) else Some i
  end.
Definition monitor_case (c : case) : option nat := monitor_steps (c_steps c) 0.
