(* C04/Props.v — property theorems only. *)
From Coq Require Import List ZArith Bool.
From Exo Require Import Base.IntDec Base.Util C04.Model C04.Proofs.
Import ListNotations.
Local Open Scope Z_scope.

(* The statement of C04 ([step_ok]: same proportion removed from every pool of the operator and from every
   at-risk undelegation, rounded down and bounded by what is left; records started before the infraction, other
   operators, staker rows, lists untouched except for the share clearing of emptied pools; nothing increases;
   the stored execution record lists exactly the observed reductions; a recorded identifier or a failed call
   changes nothing) holds of the model of Slash / SlashWithInfractionReason / dogfood SlashWithInfractionReason
   for EVERY state, environment (heights, prices, decimals) and call, including an infraction in the current block
   (repaired: SlashAssets now walks the undelegations when SlashEventHeight <= BlockHeight). *)
Theorem C04_step_meets_statement : forall s e c,
  st_nonneg s = true -> env_sane e = true -> pending_agrees s = true ->
  step_ok s e c (fst (step s e c)) (snd (step s e c)) = true.
Proof. exact step_meets_statement. Qed.
Print Assumptions C04_step_meets_statement.

(* ... and over whole histories: from any non-negative ledger, along any run of calls whose environments are sane
   (positive prices, non-negative decimals), the statement holds at every step (non-negativity of the ledger is preserved by every call: C04_nonneg_preserved) *)
Fixpoint hist_wf (s : st) (h : list (env * call)) : bool :=
  match h with
  | [] => true
  | (e, c) :: t => env_sane e && hist_wf (fst (step s e c)) t
  end.
Fixpoint all_steps_ok (s : st) (h : list (env * call)) : bool :=
  match h with
  | [] => true
  | (e, c) :: t => step_ok s e c (fst (step s e c)) (snd (step s e c)) && all_steps_ok (fst (step s e c)) t
  end.

Theorem C04_nonneg_preserved : forall s e c, st_nonneg s = true -> env_sane e = true -> st_nonneg (fst (step s e c)) = true.
Proof. exact step_nonneg. Qed.
Print Assumptions C04_nonneg_preserved.

(* the pool's pending figure keeps agreeing with the live records across every slash call (the C03 aggregate is not disturbed) *)
Theorem C04_pending_agreement_preserved : forall s e c, pending_agrees s = true -> pending_agrees (fst (step s e c)) = true.
Proof. exact step_pending. Qed.
Print Assumptions C04_pending_agreement_preserved.

(* no slash call ever changes the basis (Amount) of an undelegation record: cuts are always measured on the original amount *)
Theorem C04_amount_basis_preserved : forall s e c,
  map (fun r => (u_id r, u_amount r)) (s_recs (fst (step s e c))) = map (fun r => (u_id r, u_amount r)) (s_recs s).
Proof. exact step_basis. Qed.
Print Assumptions C04_amount_basis_preserved.

Theorem C04_run_meets_statement : forall h s, st_nonneg s = true -> pending_agrees s = true -> hist_wf s h = true -> all_steps_ok s h = true.
Proof.
  induction h as [|[e c] t IH]; intros s Hnn Hpa H; simpl in *; [reflexivity|].
  apply andb_prop in H. destruct H as [H1 Ht].
  rewrite step_meets_statement by assumption. apply IH; [apply step_nonneg; assumption|apply step_pending; assumption|assumption].
Qed.
Print Assumptions C04_run_meets_statement.

Theorem C04_proportion_bounds : forall power f value, 0 <= power -> 0 <= f -> 0 < value ->
  0 <= proportion power f value <= P.
Proof. intros. split; [apply proportion_nonneg; assumption|apply proportion_le_one]. Qed.
Print Assumptions C04_proportion_bounds.

(* operator value shrunk to (or below) the slashed value: everything is taken, never more *)
Theorem C04_proportion_capped : forall power f value, 0 < value -> value <= power * f ->
  proportion power f value = P /\ forall x, 0 <= x -> slash_amt (proportion power f value) x = x.
Proof. intros. rewrite proportion_capped by assumption. split; [reflexivity|apply slash_amt_full]. Qed.
Print Assumptions C04_proportion_capped.

Theorem C04_proportion_monotone : forall power f f' value, 0 <= power -> 0 <= f -> f <= f' -> 0 < value ->
  proportion power f value <= proportion power f' value.
Proof. exact proportion_mono. Qed.
Print Assumptions C04_proportion_monotone.

(* per item: rounded down, never negative, never more than the item *)
Theorem C04_amount_rounded_down : forall p x, 0 <= p -> p <= P -> 0 <= x ->
  0 <= slash_amt p x <= x /\ P * slash_amt p x <= p * x < P * (slash_amt p x + 1).
Proof.
  intros. split; [split; [apply slash_amt_nonneg; assumption|apply slash_amt_le; assumption]|apply slash_amt_floor; assumption].
Qed.
Print Assumptions C04_amount_rounded_down.

(* no panic outcome is left in Keeper.Slash, and an operator without (positive) value gets an error and no change *)
Theorem C04_never_panics : forall s e c, snd (step s e c) <> RPanic.
Proof.
  intros s e c. destruct c as [q|op ev pw f inf|fd ev pw f inf]; simpl.
  - apply slash_never_panics.
  - destruct (v_dog_avs e) as [avs|]; [|discriminate].
    pose proof (slash_never_panics s e (reason_prm avs op ev pw f inf)) as K.
    destruct (slash s e (reason_prm avs op ev pw f inf)) as [s' r]. simpl in K. destruct r; try discriminate. contradiction.
  - destruct fd as [op|]; [|discriminate]. destruct (v_dog_avs e) as [avs|]; [|discriminate].
    pose proof (slash_never_panics s e (reason_prm avs op ev pw f inf)) as K.
    destruct (slash s e (reason_prm avs op ev pw f inf)) as [s' r]. simpl in K. destruct r; try discriminate. contradiction.
Qed.
Print Assumptions C04_never_panics.

Theorem C04_zero_value_is_an_error : forall s e q, priced (v_assets e) (q_op q) (s_pools s) = true ->
  value_of_pool (v_assets e) (q_op q) (s_pools s) <= 0 -> fst (slash s e q) = s /\ snd (slash s e q) = RErr.
Proof. exact slash_zero_value. Qed.
Print Assumptions C04_zero_value_is_an_error.

Theorem C04_failed_call_changes_nothing : forall s e q, snd (slash s e q) <> ROk -> fst (slash s e q) = s.
Proof. exact slash_not_ok. Qed.
Print Assumptions C04_failed_call_changes_nothing.

(* once per identifier: after an executed slash and ANY later history (other slashes, other heights, other prices),
   the same (operator, AVS, identifier) has no further effect *)
Theorem C04_idempotent : forall s e q h e' q',
  snd (slash s e q) = ROk -> q_op q' = q_op q -> q_avs q' = q_avs q -> q_id q' = q_id q ->
  let s1 := run (fst (slash s e q)) h in
  fst (slash s1 e' q') = s1 /\ snd (slash s1 e' q') <> ROk.
Proof. exact slash_once. Qed.
Print Assumptions C04_idempotent.

(* ---- witnesses ---- *)
Definition ex_assets := [mkAI 0 PcOk 1 0 true 0; mkAI 1 PcOk 25 1 true 2].
Definition ex_env (h : Z) := mkEnv h ex_assets [(1, 0)] (Some 1).
Definition ex_state := mkSt
  [mkPool 0 0 100 50 (100 * P) (40 * P); mkPool 0 1 1000 0 (1000 * P) 0; mkPool 5 0 77 5 (77 * P) (77 * P)]
  [mkRec 1 0 8 7 0 30 30 11; mkRec 2 0 10 7 0 20 20 12; mkRec 3 5 10 9 0 5 5 13]
  [mkDeleg 7 0 0 (60 * P) 50; mkDeleg 8 1 0 (1000 * P) 0; mkDeleg 9 0 5 (77 * P) 5]
  [mkSL 0 0 [7]; mkSL 0 1 [8]; mkSL 5 0 [9]]
  [].
Definition ex_call (event : Z) := CSlash (mkPrm 0 1 (SidRaw 42) true 100 1 0 event (Some (P / 2))).

(* hypotheses of the main theorem are satisfiable, the slash executes and changes the state *)
Example C04_witness_executes :
  st_nonneg ex_state = true /\ env_sane (ex_env 12) = true /\ pending_agrees ex_state = true /\
  snd (step ex_state (ex_env 12) (ex_call 10)) = ROk /\
  st_eqb ex_state (fst (step ex_state (ex_env 12) (ex_call 10))) = false /\
  step_ok ex_state (ex_env 12) (ex_call 10) (fst (step ex_state (ex_env 12) (ex_call 10))) ROk = true.
Proof. vm_compute. repeat split; reflexivity. Qed.

Example C04_witness_history :
  st_nonneg ex_state = true /\ pending_agrees ex_state = true /\ hist_wf ex_state [(ex_env 12, ex_call 10); (ex_env 12, ex_call 10); (ex_env 13, COpReason 0 9 40 (P / 10) 2);
                    (ex_env 14, CDogReason (Some 0) 9 40 (P / 10) 2); (ex_env 15, CDogReason None 9 40 (P / 10) 2)] = true.
Proof. vm_compute. repeat split; reflexivity. Qed.

(* full slash: pools emptied, shares of the listed stakers cleared, lists deleted *)
Example C04_witness_full_slash :
  let c := CSlash (mkPrm 0 1 (SidRaw 43) true 100000 1 0 10 (Some P)) in
  let s' := fst (step ex_state (ex_env 12) c) in
  snd (step ex_state (ex_env 12) c) = ROk /\
  map p_total (s_pools s') = [0; 0; 77] /\ map d_share (s_delegs s') = [0; 0; 77 * P] /\
  List.length (s_slists s') = 1%nat /\ map u_actual (s_recs s') = [30; 0; 5].
Proof. vm_compute. repeat split; reflexivity. Qed.

(* regression for the repaired defect (SlashAssets used `SlashEventHeight < BlockHeight`): infraction in the current block,
   the undelegation started in that block (record 2, height 10) is slashed like every other at-risk record, the one started
   before (record 1, height 8) is not, and the statement holds. This was the witness of the former refutation. *)
Example C04_same_block_undelegation_regression :
  let s' := fst (step ex_state (ex_env 10) (ex_call 10)) in
  st_nonneg ex_state = true /\ env_sane (ex_env 10) = true /\ snd (step ex_state (ex_env 10) (ex_call 10)) = ROk /\
  map u_actual (s_recs s') = [30; 15; 5] /\
  step_ok ex_state (ex_env 10) (ex_call 10) s' ROk = true.
Proof. vm_compute. repeat split; reflexivity. Qed.

(* regression for the repaired division by zero (SlashAssets now returns ErrValueIsNilOrZero when the operator's staking +
   unbonding value is not positive): the call errs and the state is identical, through every entry point *)
(* a phantom pending figure (pool says 50 unbonding, but only 20 are in live records — e.g. a completed undelegation whose
   figure was not fully released): the code's proportion is computed over the inflated value, so the executed slash does NOT
   satisfy the statement, whose value counts the live records *)
Example C04_phantom_pending_breaks_statement :
  let s := mkSt [mkPool 0 0 100 50 (100 * P) (40 * P)] [mkRec 2 0 10 7 0 20 20 12] [] [] [] in
  pending_agrees s = false /\ snd (step s (ex_env 12) (ex_call 10)) = ROk /\
  step_ok s (ex_env 12) (ex_call 10) (fst (step s (ex_env 12) (ex_call 10))) ROk = false.
Proof. vm_compute. repeat split; reflexivity. Qed.

Example C04_zero_value_errs :
  let s0 := mkSt [mkPool 0 0 0 0 0 0] [mkRec 1 0 11 7 0 5 0 3] [] [] [] in
  step s0 (ex_env 12) (ex_call 10) = (s0, RErr) /\
  step s0 (ex_env 12) (COpReason 0 10 100 (P / 2) 1) = (s0, RZero) /\
  step_ok s0 (ex_env 12) (ex_call 10) s0 RErr = true /\
  step_ok s0 (ex_env 12) (ex_call 10) s0 RPanic = false.
Proof. vm_compute. repeat split; reflexivity. Qed.
