(* Dogfood/Proofs.v — the global invariant of the shared model and its preservation by every operation. *)
From Coq Require Import List Bool ZArith Lia.
From Exo Require Import Base.Util Dogfood.Model.
Import ListNotations.
Local Open Scope Z_scope.
Local Open Scope list_scope.

(* ---------- basic facts ---------- *)
Ltac zeq :=
  repeat match goal with
         | |- context [?a =? ?b] => let E := fresh "E" in destruct (Z.eqb_spec a b) as [E|E]; try subst
         | H : context [?a =? ?b] |- _ => let E := fresh "E" in destruct (Z.eqb_spec a b) as [E|E]; try subst
         end.

Lemma zmem_In x l : zmem x l = true <-> In x l.
Proof.
  unfold zmem. rewrite existsb_exists. split.
  - intros [y [H1 H2]]. apply Z.eqb_eq in H2. subst. assumption.
  - intro H. exists x. split; [assumption | apply Z.eqb_refl].
Qed.

Lemma zcount_nil x : zcount x [] = 0.
Proof. reflexivity. Qed.

Lemma zcount_app x l1 l2 : zcount x (l1 ++ l2) = zcount x l1 + zcount x l2.
Proof. unfold zcount. rewrite filter_app, app_length, Nat2Z.inj_add. reflexivity. Qed.

Lemma zcount_cons x y l : zcount x (y :: l) = (if x =? y then 1 else 0) + zcount x l.
Proof. unfold zcount. simpl. destruct (x =? y); simpl length; lia. Qed.

Lemma zcount_nonneg x l : 0 <= zcount x l.
Proof. unfold zcount. lia. Qed.

Lemma zcount_pos_In x l : 0 < zcount x l -> In x l.
Proof.
  induction l as [|y r IH]; [rewrite zcount_nil; lia|].
  rewrite zcount_cons. destruct (Z.eqb_spec x y); [subst; left; reflexivity|]. intro H. right. apply IH. lia.
Qed.

(* queues *)
Lemma In_qappend q e x p : In p (qappend q e x) <-> In p q \/ p = (e, x).
Proof. unfold qappend. rewrite in_app_iff. simpl. intuition. Qed.

Lemma map_snd_qappend q e x : map snd (qappend q e x) = map snd q ++ [x].
Proof. unfold qappend. rewrite map_app. reflexivity. Qed.

Lemma In_qclear q e p : In p (qclear q e) <-> In p q /\ fst p <> e.
Proof.
  unfold qclear. rewrite filter_In. split; intros [H1 H2]; split; try assumption.
  - intro E. rewrite E, Z.eqb_refl in H2. discriminate.
  - apply negb_true_iff. apply Z.eqb_neq. assumption.
Qed.

Lemma In_qget q e x : In x (qget q e) <-> In (e, x) q.
Proof.
  unfold qget. rewrite in_map_iff. split.
  - intros [[f y] [H1 H2]]. simpl in H1. subst. apply filter_In in H2. destruct H2 as [H2 H3]. simpl in H3.
    apply Z.eqb_eq in H3. subst. assumption.
  - intro H. exists (e, x). split; [reflexivity|]. apply filter_In. split; [assumption|]. simpl. apply Z.eqb_refl.
Qed.

Lemma zcount_split x q e :
  zcount x (map snd q) = zcount x (map snd (qclear q e)) + zcount x (qget q e).
Proof.
  unfold qclear, qget. induction q as [|[f y] r IH]; [reflexivity|].
  simpl. destruct (Z.eqb_spec f e); simpl; rewrite !zcount_cons; lia.
Qed.

Lemma NoDup_split q e l :
  NoDup (map snd q ++ l) -> NoDup (map snd (qclear q e) ++ qget q e ++ l).
Proof.
  unfold qclear, qget. induction q as [|[f y] r IH]; simpl; [tauto|].
  intro H. inversion H as [|a b Hn Hd]; subst.
  assert (Hn' : ~ In y (map snd (filter (fun p => negb (fst p =? e)) r) ++ map snd (filter (fun p => fst p =? e) r) ++ l)).
  { intro Hin. apply Hn. rewrite !in_app_iff in Hin. rewrite in_app_iff.
    destruct Hin as [Hin|[Hin|Hin]]; [left|left|right; assumption];
      apply in_map_iff in Hin; destruct Hin as [p [Hp1 Hp2]]; apply filter_In in Hp2; apply in_map_iff; exists p; tauto. }
  destruct (Z.eqb_spec f e); simpl.
  - apply (proj2 (NoDup_Add (Add_app y _ _))). split; [apply IH; assumption | assumption].
  - constructor; [assumption | apply IH; assumption].
Qed.

Lemma NoDup_app_l {A} (l1 l2 : list A) : NoDup (l1 ++ l2) -> NoDup l1.
Proof.
  induction l1 as [|a r IH]; simpl; intro H; [constructor|]. inversion H as [|x y Hn Hd]; subst.
  constructor; [intro Hin; apply Hn; apply in_app_iff; left; assumption | apply IH; assumption].
Qed.

(* maps *)
Lemma fold_mdel_spec l : forall m x, fold_left mdel l m x = if zmem x l then None else m x.
Proof.
  induction l as [|a r IH]; intros m x; simpl; [reflexivity|].
  rewrite IH. unfold mdel, zmem. simpl. destruct (x =? a); simpl; destruct (existsb (Z.eqb x) r); reflexivity.
Qed.

(* ---------- the invariant ---------- *)
Record Core (s : st) : Prop := {
  i_unb : 0 <= unb s;
  i_agree : forall o, k_op s o = k_ch s o;
  i_fwd : forall o k, k_op s o = Some k -> k_rev s k = Some o;
  i_rm : forall o, k_rm s o = true ->
         opted s o = false /\ k_op s o <> None /\ (In o (p_opt s) \/ exists f, fin s o = Some f);
  i_fin : forall o f, fin s o = Some f -> In (f, o) (q_opt s);
  i_qopt : forall f o, In (f, o) (q_opt s) -> k_rm s o = true /\ fin s o = Some f;
  i_prune : forall c, In c (map snd (q_prune s) ++ p_prune s) ->
            k_rev s c <> None /\ forall o, k_op s o <> Some c;
  i_nodup : NoDup (map snd (q_prune s) ++ p_prune s);
  i_str_opt : forall p, In p (q_opt s) -> cur s <= fst p;
  i_str_prune : forall p, In p (q_prune s) -> cur s <= fst p;
  i_str_und : forall p, In p (q_und s) -> cur s <= fst p;
  i_holds : forall r, holds s r = zcount r (map snd (q_und s)) + zcount r (p_und s)
}.

Record Inv (s : st) : Prop := {
  i_core : Core s;
  i_vs : forall c, vs s c = true -> k_rev s c <> None;
  i_popt : forall o, In o (p_opt s) -> k_rm s o = true /\ forall f, ~ In (f, o) (q_opt s);
  i_pend : ep_end s = false -> p_opt s = [] /\ p_prune s = [] /\ p_und s = [];
  i_prev : forall o pk, k_prev s o = Some pk -> vs s pk = true -> k_rev s pk = Some o;
  i_own : forall c o, vs s c = true -> k_rev s c = Some o -> k_op s o = Some c \/ k_prev s o = Some c;
  i_fresh : forall o pk k, k_prev s o = Some pk -> k_op s o = Some k -> vs s k = false
}.

Ltac simp :=
  cbn [opted k_op k_ch k_rev k_prev k_rm vs q_opt q_prune q_und fin mat p_opt p_prune p_und ep_end cur unb holds jailed info
       with_opted with_keys with_rev with_prev with_rm with_vs with_qopt with_qprune with_und with_unb with_jail with_cur
       register_und completion_epoch] in *.

Lemma fwd_inj s o1 o2 k : Core s -> k_op s o1 = Some k -> k_op s o2 = Some k -> o1 = o2.
Proof. intros C H1 H2. apply (i_fwd s C) in H1. apply (i_fwd s C) in H2. congruence. Qed.

Lemma fwd_del s o k : Core s -> k_op s o = Some k -> forall o' k',
  mdel (k_op s) o o' = Some k' -> mdel (k_rev s) k k' = Some o'.
Proof.
  intros C Hop o' k' H. unfold mdel in *. destruct (Z.eqb_spec o' o) as [Eo|Eo]; [discriminate|].
  destruct (Z.eqb_spec k' k) as [Ek|Ek].
  - subst. exfalso. apply Eo. eapply fwd_inj; eauto.
  - apply (i_fwd s C). assumption.
Qed.

(* ---------- set_key ---------- *)
Definition write (s0 : st) (o k : Z) : st :=
  with_rev (with_keys s0 (mset (k_op s0) o k) (mset (k_ch s0) o k)) (mset (k_rev s0) k o).

Lemma inv_same s s' :
  opted s' = opted s -> k_op s' = k_op s -> k_ch s' = k_ch s -> k_rev s' = k_rev s -> k_prev s' = k_prev s ->
  k_rm s' = k_rm s -> vs s' = vs s -> q_opt s' = q_opt s -> q_prune s' = q_prune s -> q_und s' = q_und s ->
  fin s' = fin s -> mat s' = mat s -> p_opt s' = p_opt s -> p_prune s' = p_prune s -> p_und s' = p_und s ->
  ep_end s' = ep_end s -> cur s' = cur s -> unb s' = unb s -> holds s' = holds s -> Inv s -> Inv s'.
Proof.
  destruct s, s'; simpl; intros; subst.
  match goal with H : Inv _ |- _ => destruct H as [C V P E R W F] end.
  destruct C; constructor; [constructor|..]; simpl in *; assumption.
Qed.

(* write with a (possibly) updated previous-key map pv *)
Lemma writep_inv s o k pv : Inv s -> k_rm s o = false -> k_rev s k = None ->
  (forall o', o' <> o -> pv o' = k_prev s o') ->
  (forall c, k_op s o = Some c -> vs s c = true -> pv o = Some c) ->
  (forall pk, pv o = Some pk -> k_prev s o = Some pk \/ k_op s o = Some pk) ->
  (forall c, k_prev s o = Some c -> pv o = Some c) ->
  Inv (write (with_prev s pv) o k).
Proof.
  intros [C V P E R W F] Hrm Hrev Hp1 Hp2 Hp3 Hp4. unfold write. constructor; [constructor|..]; simp.
  - apply (i_unb s C).
  - intro o'. unfold mset. zeq; [reflexivity | apply (i_agree s C)].
  - intros o' k'. unfold mset. intro H. zeq; try congruence.
    + apply (i_fwd s C) in H. congruence.
    + apply (i_fwd s C). assumption.
  - intros o' H. destruct (i_rm s C o' H) as (H1 & H2 & H3). unfold mset. zeq; [congruence|]. tauto.
  - apply (i_fin s C).
  - apply (i_qopt s C).
  - intros c Hc. destruct (i_prune s C c Hc) as [H1 H2]. unfold mset. split.
    + zeq; congruence.
    + intro o'. zeq; [intro H; inversion H; subst; congruence | apply H2].
  - apply (i_nodup s C).
  - apply (i_str_opt s C).
  - apply (i_str_prune s C).
  - apply (i_str_und s C).
  - apply (i_holds s C).
  - intros c Hc. unfold mset. zeq; [discriminate | apply V; assumption].
  - assumption.
  - assumption.
  - (* i_prev *)
    intros o' pk H1 H2. assert (Hpk : pk <> k) by (intro; subst; apply (V k H2); assumption).
    unfold mset. destruct (Z.eqb_spec pk k) as [E0|_]; [contradiction|].
    destruct (Z.eq_dec o' o) as [Eo|Eo].
    + subst. destruct (Hp3 pk H1) as [H3|H3]; [apply R; assumption | apply (i_fwd s C); assumption].
    + rewrite (Hp1 o' Eo) in H1. apply R; assumption.
  - (* i_own *)
    intros c o' Hv. assert (Hck : c <> k) by (intro; subst; apply (V k Hv); assumption).
    unfold mset. destruct (Z.eqb_spec c k) as [E0|_]; [contradiction|]. intro Hr.
    destruct (W c o' Hv Hr) as [H1|H1]; destruct (Z.eqb_spec o' o) as [Eo|Eo].
    + subst. right. apply Hp2; assumption.
    + left. assumption.
    + subst. right. apply Hp4. assumption.
    + right. rewrite (Hp1 o' Eo). assumption.
  - (* i_fresh *)
    intros o' pk k' H1. unfold mset. destruct (Z.eqb_spec o' o) as [Eo|Eo].
    + intro H. inversion H. subst. destruct (vs s k') eqn:Hv; [|reflexivity]. exfalso. apply (V k' Hv). assumption.
    + rewrite (Hp1 o' Eo) in H1. apply (F o' pk k' H1).
Qed.

Lemma write_inv s o k : Inv s -> k_rm s o = false -> k_rev s k = None ->
  (forall c, k_op s o = Some c -> vs s c = true -> k_prev s o = Some c) -> Inv (write s o k).
Proof.
  intros I Hrm Hrev Hold.
  apply (inv_same (write (with_prev s (k_prev s)) o k)); try reflexivity.
  apply writep_inv; try assumption; auto.
Qed.

Lemma hook_replaced_inv t pk :
  Inv t -> (forall o, k_op t o <> Some pk) -> k_rev t pk <> None ->
  ~ In pk (map snd (q_prune t) ++ p_prune t) -> Inv (hook_replaced t pk).
Proof.
  intros [C V P E R W F] Hno Hrev Hnq. unfold hook_replaced.
  constructor; [constructor|..]; simp; try (destruct C; assumption).
  - intros c Hc. rewrite map_snd_qappend, <- app_assoc in Hc. apply in_app_iff in Hc. destruct Hc as [Hc|Hc].
    + apply (i_prune t C). apply in_app_iff. left. assumption.
    + simpl in Hc. destruct Hc as [Hc|Hc]; [subst; split; assumption|].
      apply (i_prune t C). apply in_app_iff. right. assumption.
  - rewrite map_snd_qappend, <- app_assoc. simpl.
    apply (proj2 (NoDup_Add (Add_app pk _ _))). split; [apply (i_nodup t C) | assumption].
  - intros p Hp. apply In_qappend in Hp. destruct Hp as [Hp|Hp]; [apply (i_str_prune t C); assumption|].
    subst. simpl. unfold completion_epoch. pose proof (i_unb t C). lia.
Qed.

Lemma set_key_inv s o k : Inv s -> Inv (fst (set_key s o k)).
Proof.
  intro I. unfold set_key. destruct (k_rm s o) eqn:Hrm; [assumption|].
  destruct (k_rev s k) eqn:Hrev; simpl; [assumption|].
  fold (write s o k). pose proof (i_core s I) as C.
  destruct (k_op s o) as [pk|] eqn:Hop; [|apply write_inv; try assumption; intros c Hc; congruence].
  destruct (Z.eqb_spec pk k) as [Epk|Epk]; [assumption|].
  destruct (k_prev s o) as [p0|] eqn:Hprev; simpl.
  { apply write_inv; try assumption. intros c Hc Hv.
    assert (Hf : vs s pk = false) by (eapply (i_fresh s I); eassumption). congruence. }
  change (with_rev (with_keys (with_prev s (mset (k_prev s) o pk)) (mset (k_op s) o k) (mset (k_ch s) o k)) (mset (k_rev s) k o))
    with (write (with_prev s (mset (k_prev s) o pk)) o k).
  apply hook_replaced_inv.
  - apply writep_inv; try assumption.
    + intros o' Ho. unfold mset. destruct (Z.eqb_spec o' o); [contradiction | reflexivity].
    + intros c Hc _. unfold mset. rewrite Z.eqb_refl. congruence.
    + intros pk'. unfold mset. rewrite Z.eqb_refl. intro H. right. congruence.
    + intros c Hc. congruence.
  - intro o'. unfold write. simp. unfold mset. zeq; [congruence|].
    intro H. apply E. symmetry. eapply fwd_inj; eauto.
  - unfold write. simp. unfold mset. zeq; [congruence|]. rewrite (i_fwd s C o pk Hop). discriminate.
  - unfold write. simp. intro Hin. destruct (i_prune s C pk Hin) as [_ H2]. apply (H2 o). assumption.
Qed.

Lemma opt_in_inv s o : Inv s -> Inv (fst (opt_in s o)).
Proof.
  intros I. unfold opt_in. destruct (opted s o) eqn:Ho; [assumption|]. destruct (k_rm s o) eqn:Hrm; [assumption|].
  simpl. destruct I as [C V P E R W F]. constructor; [constructor|..]; simp; try (destruct C; assumption).
  intros o' H. destruct (i_rm s C o' H) as (H1 & H2 & H3). unfold bset. zeq; [congruence | tauto].
Qed.

Lemma opt_in_res s o s' : opt_in s o = (s', ROk) -> k_rm s' o = false.
Proof.
  unfold opt_in. destruct (opted s o); [discriminate|]. destruct (k_rm s o) eqn:H; [discriminate|].
  intro E. inversion E. subst. simp. assumption.
Qed.

(* ---------- opt_out ---------- *)
Lemma opt_out_inv s o : Inv s -> Inv (fst (opt_out s o)).
Proof.
  intro I. pose proof (i_core s I) as C. unfold opt_out.
  destruct (active s o) eqn:Hact; simpl; [|assumption].
  assert (Hopt : opted s o = true) by (unfold active in Hact; apply andb_true_iff in Hact; tauto).
  assert (Hrm : k_rm s o = false).
  { destruct (k_rm s o) eqn:H; [|reflexivity]. destruct (i_rm s C o H) as [H1 _]. congruence. }
  destruct (k_op s o) as [k|] eqn:Hop; simpl.
  - (* scheduled *)
    destruct I as [_ V P E R W F]. constructor; [constructor|..]; simp; try (destruct C; assumption).
    + intros o' H. unfold bset in *. unfold mset. zeq.
      * split; [reflexivity|]. split; [congruence|]. right. eexists. reflexivity.
      * destruct (i_rm s C o' H) as (H1 & H2 & H3). tauto.
    + intros o' f. unfold mset. intro H. apply In_qappend. zeq.
      * inversion H. subst. right. reflexivity.
      * left. apply (i_fin s C). assumption.
    + intros f o' H. apply In_qappend in H. unfold bset, mset. destruct H as [H|H].
      * destruct (i_qopt s C f o' H) as [H1 H2]. zeq; [congruence | tauto].
      * inversion H. subst. rewrite !Z.eqb_refl. tauto.
    + intros p Hp. apply In_qappend in Hp. destruct Hp as [Hp|Hp]; [apply (i_str_opt s C); assumption|].
      subst. simpl. unfold completion_epoch. simp. pose proof (i_unb s C). lia.
    + intros o' Ho'. destruct (P o' Ho') as [H1 H2]. unfold bset. split.
      * zeq; [reflexivity | assumption].
      * intros f Hf. apply In_qappend in Hf. destruct Hf as [Hf|Hf]; [apply (H2 f Hf)|]. inversion Hf. subst. congruence.
  - (* no key: nothing to remove *)
    destruct I as [_ V P E R W F]. constructor; [constructor|..]; simp; try (destruct C; assumption).
    intros o' H. destruct (i_rm s C o' H) as (H1 & H2 & H3). unfold bset. zeq; [tauto | tauto].
Qed.

(* ---------- undelegate ---------- *)
Lemma register_und_inv s r e : Inv s -> cur s <= e -> Inv (register_und s r e).
Proof.
  intros [C V P E R W F] He. constructor; [constructor|..]; simp; try (destruct C; assumption).
  - intros p Hp. apply In_qappend in Hp. destruct Hp as [Hp|Hp]; [apply (i_str_und s C); assumption|]. subst. assumption.
  - intro r'. rewrite map_snd_qappend, zcount_app, zcount_cons, zcount_nil. unfold zadd. rewrite (i_holds s C r').
    rewrite (Z.eqb_sym r' r). destruct (r =? r'); lia.
Qed.

Lemma undelegate_inv s o r : Inv s -> Inv (fst (undelegate s o r)).
Proof.
  intro I. pose proof (i_core s I) as C. unfold undelegate. destruct (k_rm s o) eqn:Hrm.
  - destruct (fin s o) as [f|] eqn:Hf; simpl; [|assumption].
    apply register_und_inv; [assumption|]. apply (i_str_opt s C (f, o)). apply (i_fin s C). assumption.
  - destruct (validating s o); simpl; [|assumption].
    apply register_und_inv; [assumption|]. unfold completion_epoch. pose proof (i_unb s C). lia.
Qed.

(* ---------- epoch end ---------- *)
Lemma In_split_queue c q e : In c (map snd (qclear q e) ++ qget q e) -> In c (map snd q).
Proof.
  rewrite in_app_iff. intros [H|H].
  - apply in_map_iff in H. destruct H as [p [H1 H2]]. apply In_qclear in H2. apply in_map_iff. exists p. tauto.
  - apply In_qget in H. apply in_map_iff. exists (e, c). tauto.
Qed.

Lemma epoch_end_inv s : Inv s -> ep_end s = false -> Inv (epoch_end s).
Proof.
  intros [C V P E R W F] Hee. destruct (E Hee) as (Epo & Epp & Epu). unfold epoch_end.
  constructor; [constructor|..]; simp; try (destruct C; assumption).
  - intros o H. destruct (i_rm s C o H) as (H1 & H2 & H3). split; [assumption|]. split; [assumption|].
    destruct H3 as [H3|[f H3]]; [rewrite Epo in H3; contradiction|].
    pose proof (i_fin s C o f H3) as Hin.
    destruct (Z.eq_dec f (cur s)) as [Ef|Ef].
    + left. apply In_qget. subst. assumption.
    + right. exists f. rewrite fold_mdel_spec. destruct (zmem o (qget (q_opt s) (cur s))) eqn:Hz; [|assumption].
      apply zmem_In, In_qget in Hz. destruct (i_qopt s C _ _ Hz) as [_ Hz2]. congruence.
  - intros o f. rewrite fold_mdel_spec. destruct (zmem o (qget (q_opt s) (cur s))) eqn:Hz; [discriminate|].
    intro H. apply In_qclear. split; [apply (i_fin s C); assumption|]. simpl. intro Ef. subst.
    assert (Hin : In o (qget (q_opt s) (cur s))) by (apply In_qget; apply (i_fin s C); assumption).
    apply zmem_In in Hin. congruence.
  - intros f o H. apply In_qclear in H. destruct H as [H Hf]. simpl in Hf. destruct (i_qopt s C f o H) as [H1 H2].
    split; [assumption|]. rewrite fold_mdel_spec. destruct (zmem o (qget (q_opt s) (cur s))) eqn:Hz; [|assumption].
    apply zmem_In, In_qget in Hz. destruct (i_qopt s C _ _ Hz) as [_ Hz2]. congruence.
  - intros c Hc. apply (i_prune s C). apply in_app_iff. left. apply In_split_queue with (e := cur s). assumption.
  - pose proof (NoDup_split (q_prune s) (cur s) [] ) as H. rewrite !app_nil_r in H. apply H.
    pose proof (i_nodup s C) as Hn. rewrite Epp, app_nil_r in Hn. assumption.
  - intros p Hp. apply In_qclear in Hp. destruct Hp as [Hp Hne]. pose proof (i_str_opt s C p Hp). lia.
  - intros p Hp. apply In_qclear in Hp. destruct Hp as [Hp Hne]. pose proof (i_str_prune s C p Hp). lia.
  - intros p Hp. apply In_qclear in Hp. destruct Hp as [Hp Hne]. pose proof (i_str_und s C p Hp). lia.
  - intro r. rewrite (i_holds s C r), Epu, zcount_nil. rewrite (zcount_split r (q_und s) (cur s)). lia.
  - intros o Ho. apply In_qget in Ho. destruct (i_qopt s C _ _ Ho) as [H1 H2]. split; [assumption|].
    intros f Hf. apply In_qclear in Hf. destruct Hf as [Hf Hne]. simpl in Hne.
    destruct (i_qopt s C _ _ Hf) as [_ H3]. congruence.
  - discriminate.
Qed.

(* ---------- EndBlock ---------- *)
Lemma release_holds l : forall h m r, (forall x, zcount x l <= h x) ->
  fst (fold_left release_one l (h, m)) r = h r - zcount r l.
Proof.
  induction l as [|a l IH]; intros h m r Hle; simpl; [rewrite zcount_nil; lia|].
  assert (Ha : h a =? 0 = false).
  { apply Z.eqb_neq. pose proof (Hle a) as H. rewrite zcount_cons, Z.eqb_refl in H. pose proof (zcount_nonneg a l). lia. }
  rewrite Ha. rewrite IH.
  - rewrite zcount_cons. unfold zadd. rewrite (Z.eqb_sym r a). destruct (a =? r); lia.
  - intro x. pose proof (Hle x) as H. rewrite zcount_cons in H. unfold zadd. rewrite (Z.eqb_sym x a) in H.
    destruct (a =? x) eqn:E; [apply Z.eqb_eq in E; subst; rewrite Z.eqb_refl; lia | rewrite Z.eqb_sym, E; lia].
Qed.

Definition same_dog (s s' : st) : Prop :=
  q_opt s' = q_opt s /\ q_prune s' = q_prune s /\ q_und s' = q_und s /\ fin s' = fin s /\ mat s' = mat s /\
  p_opt s' = p_opt s /\ p_prune s' = p_prune s /\ p_und s' = p_und s /\ ep_end s' = ep_end s /\ cur s' = cur s /\
  unb s' = unb s /\ holds s' = holds s /\ opted s' = opted s /\ vs s' = vs s /\ k_prev s' = k_prev s /\
  jailed s' = jailed s /\ info s' = info s.

Lemma same_dog_refl s : same_dog s s.
Proof. unfold same_dog. tauto. Qed.

Lemma same_dog_trans a b c : same_dog a b -> same_dog b c -> same_dog a c.
Proof.
  unfold same_dog. intros H1 H2. decompose [and] H1. decompose [and] H2. repeat split; congruence.
Qed.

Lemma complete_removal_core s o :
  Core s -> (forall f, ~ In (f, o) (q_opt s)) ->
  exists s', complete_removal s o = Some s' /\ Core s' /\ same_dog s s' /\ k_rm s' o = false /\
             (forall x, k_rm s' x = true -> k_rm s x = true).
Proof.
  intros C Hnq. unfold complete_removal. destruct (k_rm s o) eqn:Hrm; simpl.
  2:{ exists s. split; [reflexivity|]. split; [assumption|]. split; [apply same_dog_refl|]. tauto. }
  destruct (i_rm s C o Hrm) as (H1 & H2 & H3). destruct (k_op s o) as [k|] eqn:Hop; [|congruence].
  eexists. split; [reflexivity|]. split; [|split; [|split]].
  - constructor; simp; try (destruct C; assumption).
    + intro o'. unfold mdel. zeq; [reflexivity | apply (i_agree s C)].
    + intros o' k'. apply fwd_del; assumption.
    + intros o'. unfold bset, mdel. zeq; [discriminate|]. intro H. apply (i_rm s C o' H).
    + intros f o' H. destruct (i_qopt s C f o' H) as [Ha Hb]. unfold bset. zeq; [exfalso; apply (Hnq f); assumption | tauto].
    + intros c Hc. destruct (i_prune s C c Hc) as [Ha Hb]. unfold mdel. split.
      * zeq; [exfalso; apply (Hb o); assumption | assumption].
      * intro o'. zeq; [discriminate | apply Hb].
  - unfold same_dog. simp. tauto.
  - simp. unfold bset. rewrite Z.eqb_refl. reflexivity.
  - intro x. simp. unfold bset. zeq; [discriminate | tauto].
Qed.

Lemma complete_all_core l : forall s,
  Core s -> (forall o, In o l -> forall f, ~ In (f, o) (q_opt s)) ->
  exists s', complete_all s l = Some s' /\ Core s' /\ same_dog s s' /\ (forall o, In o l -> k_rm s' o = false) /\
             (forall x, k_rm s' x = true -> k_rm s x = true).
Proof.
  induction l as [|a l IH]; intros s C Hnq; simpl.
  - exists s. split; [reflexivity|]. split; [assumption|]. split; [apply same_dog_refl|]. split; [contradiction | tauto].
  - destruct (complete_removal_core s a C (Hnq a (or_introl eq_refl))) as (s1 & E1 & C1 & D1 & R1 & M1).
    rewrite E1. assert (Hq : q_opt s1 = q_opt s) by apply D1.
    destruct (IH s1 C1) as (s2 & E2 & C2 & D2 & R2 & M2).
    { intros o Ho f. rewrite Hq. apply Hnq. right. assumption. }
    exists s2. split; [assumption|]. split; [assumption|]. split; [eapply same_dog_trans; eassumption|]. split.
    + intros o [Ho|Ho]; [subst|apply R2; assumption].
      destruct (k_rm s2 o) eqn:Hk; [|reflexivity]. apply M2 in Hk. congruence.
    + intros x Hx. apply M1, M2. assumption.
Qed.

Lemma end_block_inv s sel : Inv s -> Inv (fst (end_block s sel)) /\ ep_end (fst (end_block s sel)) = false.
Proof.
  intros I. unfold end_block. destruct (ep_end s) eqn:Hee; cbn [negb]; [|simpl; tauto].
  destruct I as [C V P E R W F].
  destruct (fold_left release_one (p_und s) (holds s, mat s)) as [h1 m1] eqn:Hrel.
  assert (Hh1 : forall r, h1 r = zcount r (map snd (q_und s))).
  { intro r. pose proof (release_holds (p_und s) (holds s) (mat s) r) as H. rewrite Hrel in H. simpl in H. rewrite H.
    - rewrite (i_holds s C r). lia.
    - intro x. rewrite (i_holds s C x). pose proof (zcount_nonneg x (map snd (q_und s))). lia. }
  set (s1 := mkSt (opted s) (k_op s) (k_ch s) (k_rev s) mempty (k_rm s) (vs s) (q_opt s) (q_prune s) (q_und s)
                  (fin s) m1 (p_opt s) (p_prune s) [] true (cur s) (unb s) h1 (jailed s) (info s)).
  assert (C1 : Core s1).
  { unfold s1. constructor; simp; try (destruct C; assumption). intro r. rewrite Hh1, zcount_nil. lia. }
  destruct (complete_all_core (p_opt s1) s1 C1) as (s2 & E2 & C2 & D2 & R2 & M2).
  { intros o Ho f. unfold s1 in *. simp. apply (proj2 (P o Ho)). }
  rewrite E2. cbv zeta. cbn [fst].
  destruct D2 as (Dqo & Dqp & Dqu & Dfin & Dmat & Dpo & Dpp & Dpu & Dee & Dcur & Dunb & Dh & Dop & Dvs & Dprev & Djl & Dinf).
  unfold s1 in Dqo, Dqp, Dqu, Dfin, Dmat, Dpo, Dpp, Dpu, Dee, Dcur, Dunb, Dh, Dop, Dvs, Dprev, Djl, Dinf. simp.
  split; [|reflexivity].
  assert (Hrev3 : forall c, fold_left mdel (p_prune s2) (k_rev s2) c = if zmem c (p_prune s) then None else k_rev s2 c).
  { intro c. rewrite fold_mdel_spec, Dpp. reflexivity. }
  constructor; [constructor|..]; simp; try (destruct C2; assumption).
  - intros o k H. rewrite Hrev3. destruct (zmem k (p_prune s)) eqn:Hz; [|apply (i_fwd s2 C2); assumption].
    apply zmem_In in Hz. exfalso. refine (proj2 (i_prune s2 C2 k _) o H). rewrite Dpp. apply in_app_iff. right. assumption.
  - intros o H. destruct (i_rm s2 C2 o H) as (H1 & H2 & H3). split; [assumption|]. split; [assumption|]. right.
    destruct H3 as [H3|H3]; [|assumption]. rewrite Dpo in H3. specialize (R2 o). unfold s1 in R2. simp. apply R2 in H3. congruence.
  - intros c Hc. rewrite app_nil_r in Hc. assert (Hc2 : In c (map snd (q_prune s2) ++ p_prune s2)) by (apply in_app_iff; left; assumption).
    destruct (i_prune s2 C2 c Hc2) as [H1 H2]. split; [|assumption]. rewrite Hrev3.
    destruct (zmem c (p_prune s)) eqn:Hz; [|assumption]. apply zmem_In in Hz. exfalso.
    pose proof (i_nodup s2 C2) as Hn. rewrite Dpp in Hn.
    apply in_split in Hc. destruct Hc as (l1 & l2 & El). rewrite El, <- app_assoc in Hn. simpl in Hn.
    apply NoDup_remove_2 in Hn. apply Hn. rewrite !in_app_iff. tauto.
  - rewrite app_nil_r. pose proof (i_nodup s2 C2) as Hn. apply NoDup_app_l in Hn. assumption.
  - intro r. rewrite (i_holds s2 C2 r), Dpu. unfold s1. simp. reflexivity.
  - intros c Hc. unfold new_valset in Hc. simp. apply existsb_exists in Hc. destruct Hc as (o & _ & Ho).
    apply andb_true_iff in Ho. destruct Ho as [_ Ho]. unfold oz_eqb, option_eqb in Ho.
    destruct (k_ch s2 o) as [k|] eqn:Hk; [|discriminate]. apply Z.eqb_eq in Ho. subst k.
    rewrite <- (i_agree s2 C2) in Hk. rewrite Hrev3. destruct (zmem c (p_prune s)) eqn:Hz.
    + apply zmem_In in Hz. exfalso. refine (proj2 (i_prune s2 C2 c _) o Hk). rewrite Dpp. apply in_app_iff. right. assumption.
    + rewrite (i_fwd s2 C2 o c Hk). discriminate.
  - contradiction.
  - tauto.
  - intros o pk H. rewrite Dprev in H. discriminate.
  - intros c o' Hc. unfold new_valset in Hc. simp. apply existsb_exists in Hc. destruct Hc as (o & _ & Ho).
    apply andb_true_iff in Ho. destruct Ho as [_ Ho]. unfold oz_eqb, option_eqb in Ho.
    destruct (k_ch s2 o) as [k|] eqn:Hk; [|discriminate]. apply Z.eqb_eq in Ho. subst k.
    rewrite <- (i_agree s2 C2) in Hk. rewrite Hrev3. destruct (zmem c (p_prune s)); [discriminate|].
    rewrite (i_fwd s2 C2 o c Hk). intro H. inversion H. subst. left. assumption.
  - intros o pk k H. rewrite Dprev in H. discriminate.
Qed.

(* ---------- jailing only touches the jailed flag ---------- *)
Lemma set_jailed_inv s c v : Inv s -> Inv (set_jailed s c v).
Proof.
  intro I. unfold set_jailed. destruct (k_rev s c) as [o|]; [|assumption]. destruct (info s o); [|assumption].
  eapply inv_same; [..|exact I]; reflexivity.
Qed.

(* ---------- every operation ---------- *)
Lemma step_tx_inv s a : Inv s -> is_tx a = true -> Inv (fst (step s a)).
Proof.
  intros I Ht. destruct a; simpl in Ht; try discriminate; simpl.
  - (* OptInKey *)
    destruct (opt_in s o) as [s1 r1] eqn:E1. destruct r1; try assumption.
    pose proof (opt_in_inv s o I) as I1. rewrite E1 in I1. simpl in I1.
    destruct (set_key s1 o k) as [s2 r2] eqn:E2. pose proof (set_key_inv s1 o k I1) as I2. rewrite E2 in I2.
    destruct r2; assumption.
  - apply opt_in_inv. assumption.
  - destruct (negb (active s o)); [assumption | apply set_key_inv; assumption].
  - apply opt_out_inv. assumption.
  - apply undelegate_inv. assumption.
  - destruct (Z.ltb_spec 0 n); simpl; [|assumption].
    destruct I as [C V P E R W F]. constructor; [destruct C; constructor|..]; simp; try assumption. lia.
  - apply set_key_inv. assumption.
  - (* Jail *) apply set_jailed_inv. assumption.
  - (* Unjail *) apply set_jailed_inv. assumption.
  - assumption.
  - (* SetClock *)
    unfold nothing_scheduled.
    destruct (q_opt s) eqn:Q1; [|assumption]. destruct (q_prune s) eqn:Q2; [|assumption].
    destruct (q_und s) eqn:Q3; [|assumption]. destruct (p_opt s) eqn:Q4; [|assumption].
    destruct (p_prune s) eqn:Q5; [|assumption]. destruct (p_und s) eqn:Q6; [|assumption]. simpl.
    destruct I as [C V P E R W F]. constructor; [destruct C; constructor|..]; simp; try assumption;
      try (rewrite Q1 in *); try (rewrite Q2 in *); try (rewrite Q3 in *); try assumption; try (intros p Hp; contradiction).
Qed.

Lemma hstep_inv s h : Inv s -> Inv (hstep s h).
Proof.
  intro I. destruct h as [a | sel tick]; simpl.
  - destruct (is_tx a) eqn:Ht; [apply step_tx_inv; assumption | assumption].
  - destruct (end_block_inv s sel I) as [I1 E1]. destruct tick; simpl; [|assumption]. apply epoch_end_inv; assumption.
Qed.

Theorem inv_hrun l : forall s, Inv s -> Inv (hrun s l).
Proof. induction l as [|h l IH]; intros s I; simpl; [assumption|]. apply IH. apply hstep_inv. assumption. Qed.

(* ---------- frame / effect of EndBlock ---------- *)
Lemma complete_all_rev_mono l : forall t s2 c o,
  complete_all t l = Some s2 -> k_rev s2 c = Some o -> k_rev t c = Some o.
Proof.
  induction l as [|a l IH]; intros t s2 c o E2 H; simpl in E2.
  - inversion E2. subst. assumption.
  - destruct (complete_removal t a) as [t1|] eqn:Ec; [|discriminate].
    apply (IH _ _ _ _ E2) in H. clear - Ec H. unfold complete_removal in Ec.
    destruct (k_rm t a); simpl in Ec; [|inversion Ec; subst; assumption].
    destruct (k_op t a) as [z|]; [|discriminate]. inversion Ec. subst. simp. unfold mdel in H.
    destruct (c =? z); [discriminate | assumption].
Qed.

Lemma end_block_effect s sel : Inv s ->
  let s' := fst (end_block s sel) in
  snd (end_block s sel) = ROk /\
  q_opt s' = q_opt s /\ q_prune s' = q_prune s /\ q_und s' = q_und s /\ cur s' = cur s /\ unb s' = unb s /\
  fin s' = fin s /\ opted s' = opted s /\
  (ep_end s = false -> s' = s) /\
  (ep_end s = true ->
     p_opt s' = [] /\ p_prune s' = [] /\ p_und s' = [] /\
     (forall r, holds s' r = holds s r - zcount r (p_und s)) /\
     (forall o, In o (p_opt s) -> k_rm s' o = false) /\
     (forall c, In c (p_prune s) -> k_rev s' c = None) /\
     (forall c o, k_rev s' c = Some o -> k_rev s c = Some o)).
Proof.
  intros I. unfold end_block. destruct (ep_end s) eqn:Hee; cbn [negb].
  2:{ simpl. repeat split; try reflexivity; congruence. }
  destruct I as [C V P E R W F].
  destruct (fold_left release_one (p_und s) (holds s, mat s)) as [h1 m1] eqn:Hrel.
  assert (Hh1 : forall r, h1 r = holds s r - zcount r (p_und s)).
  { intro r. pose proof (release_holds (p_und s) (holds s) (mat s) r) as H. rewrite Hrel in H. simpl in H. apply H.
    intro x. rewrite (i_holds s C x). pose proof (zcount_nonneg x (map snd (q_und s))). lia. }
  set (s1 := mkSt (opted s) (k_op s) (k_ch s) (k_rev s) mempty (k_rm s) (vs s) (q_opt s) (q_prune s) (q_und s)
                  (fin s) m1 (p_opt s) (p_prune s) [] true (cur s) (unb s) h1 (jailed s) (info s)).
  assert (C1 : Core s1).
  { unfold s1. constructor; simp; try (destruct C; assumption). intro r. rewrite Hh1, zcount_nil, (i_holds s C r). lia. }
  destruct (complete_all_core (p_opt s1) s1 C1) as (s2 & E2 & C2 & D2 & R2 & M2).
  { intros o Ho f. unfold s1 in *. simp. apply (proj2 (P o Ho)). }
  rewrite E2. cbv zeta. cbn [fst snd].
  destruct D2 as (Dqo & Dqp & Dqu & Dfin & Dmat & Dpo & Dpp & Dpu & Dee & Dcur & Dunb & Dh & Dop & Dvs & Dprev & Djl & Dinf).
  unfold s1 in Dqo, Dqp, Dqu, Dfin, Dmat, Dpo, Dpp, Dpu, Dee, Dcur, Dunb, Dh, Dop, Dvs, Dprev, Djl, Dinf. simp.
  split; [reflexivity|]. do 7 (split; [assumption|]). split; [discriminate|]. intros _.
  do 3 (split; [reflexivity|]).
  split; [intro r; rewrite Dh; apply Hh1|].
  split; [intros o Ho; apply R2; assumption|].
  split; [intros c Hc; rewrite fold_mdel_spec, Dpp; apply zmem_In in Hc; rewrite Hc; reflexivity|].
  - intros c o. rewrite fold_mdel_spec. destruct (zmem c (p_prune s2)); [discriminate|]. intro H.
    apply (complete_all_rev_mono _ _ _ _ _ E2 H).
Qed.

Lemma complete_all_op_mono l : forall t s2 o c,
  complete_all t l = Some s2 -> k_op s2 o = Some c -> k_op t o = Some c.
Proof.
  induction l as [|a l IH]; intros t s2 o c E2 H; simpl in E2.
  - inversion E2. subst. assumption.
  - destruct (complete_removal t a) as [t1|] eqn:Ec; [|discriminate].
    apply (IH _ _ _ _ E2) in H. clear - Ec H. unfold complete_removal in Ec.
    destruct (k_rm t a); simpl in Ec; [|inversion Ec; subst; assumption].
    destruct (k_op t a) as [z|]; [|discriminate]. inversion Ec. subst. simp. unfold mdel in H.
    destruct (o =? a); [discriminate | assumption].
Qed.

Lemma end_block_op_mono s sel o c : k_op (fst (end_block s sel)) o = Some c -> k_op s o = Some c.
Proof.
  unfold end_block. destruct (negb (ep_end s)); [simpl; tauto|].
  destruct (fold_left release_one (p_und s) (holds s, mat s)) as [h1 m1].
  match goal with |- context [complete_all ?t ?l] => destruct (complete_all t l) as [s2|] eqn:E2 end; [|simpl; tauto].
  cbv zeta. cbn [fst]. simp. intro H. apply (complete_all_op_mono _ _ _ _ _ E2) in H. exact H.
Qed.

(* setting a key for one operator leaves the forward index of every other operator alone *)
Lemma set_key_other t o0 k o c : o0 <> o -> k_op t o = Some c -> k_op (fst (set_key t o0 k)) o = Some c.
Proof.
  intros Ne H. unfold set_key. destruct (k_rm t o0); [assumption|]. destruct (is_some (k_rev t k)); [assumption|].
  destruct (k_op t o0) as [pk|]; [destruct (pk =? k); [assumption|]; destruct (is_some (k_prev t o0))|];
    simpl; unfold hook_replaced; simp; unfold mset; (destruct (Z.eqb_spec o o0); [congruence | assumption]).
Qed.

(* the validator set stored by the EndBlock that closes an epoch: current keys of selected ACTIVE operators only *)
Lemma end_block_vs s sel : Inv s -> ep_end s = true ->
  let s' := fst (end_block s sel) in
  forall c, vs s' c = true ->
    exists o, In o sel /\ opted s' o = true /\ jailed s' o = false /\ k_op s' o = Some c /\ k_rev s' c = Some o /\
              jailed s' = jailed s.
Proof.
  intros I Hee. pose proof (end_block_inv s sel I) as [I' _]. revert I'.
  unfold end_block. rewrite Hee. cbn [negb].
  destruct I as [C V P E R W F].
  destruct (fold_left release_one (p_und s) (holds s, mat s)) as [h1 m1] eqn:Hrel.
  assert (Hh1 : forall r, h1 r = holds s r - zcount r (p_und s)).
  { intro r. pose proof (release_holds (p_und s) (holds s) (mat s) r) as H. rewrite Hrel in H. simpl in H. apply H.
    intro x. rewrite (i_holds s C x). pose proof (zcount_nonneg x (map snd (q_und s))). lia. }
  set (s1 := mkSt (opted s) (k_op s) (k_ch s) (k_rev s) mempty (k_rm s) (vs s) (q_opt s) (q_prune s) (q_und s)
                  (fin s) m1 (p_opt s) (p_prune s) [] true (cur s) (unb s) h1 (jailed s) (info s)).
  assert (C1 : Core s1).
  { unfold s1. constructor; simp; try (destruct C; assumption). intro r. rewrite Hh1, zcount_nil, (i_holds s C r). lia. }
  destruct (complete_all_core (p_opt s1) s1 C1) as (s2 & E2 & C2 & D2 & R2 & M2).
  { intros o Ho f. unfold s1 in *. simp. apply (proj2 (P o Ho)). }
  rewrite E2. cbv zeta. cbn [fst].
  destruct D2 as (Dqo & Dqp & Dqu & Dfin & Dmat & Dpo & Dpp & Dpu & Dee & Dcur & Dunb & Dh & Dop & Dvs & Dprev & Djl & Dinf).
  unfold s1 in Djl. simp.
  intros I' c Hc. simp. unfold new_valset in Hc. apply existsb_exists in Hc. destruct Hc as (o & Hin & Ho).
  apply andb_true_iff in Ho. destruct Ho as [Ha Ho]. unfold active in Ha. simp. apply andb_true_iff in Ha.
  destruct Ha as [Ha1 Ha2]. apply negb_true_iff in Ha2.
  unfold oz_eqb, option_eqb in Ho. destruct (k_ch s2 o) as [k|] eqn:Hk; [|discriminate]. apply Z.eqb_eq in Ho. subst k.
  exists o. rewrite <- (i_agree s2 C2) in Hk.
  split; [assumption|]. split; [assumption|]. split; [assumption|]. split; [assumption|]. split; [|assumption].
  pose proof (i_fwd _ (i_core _ I') o c) as Hf. simp. apply Hf. assumption.
Qed.

(* ---------- what a transaction cannot do ---------- *)
Ltac split_ifs :=
  repeat match goal with
         | |- context [if ?b then _ else _] => destruct b eqn:?
         | |- context [match ?x with Some _ => _ | None => _ end] => destruct x eqn:?
         end.

Lemma tx_frame s a : is_tx a = true ->
  let s' := fst (step s a) in
  ep_end s' = ep_end s /\ p_opt s' = p_opt s /\ p_prune s' = p_prune s /\ p_und s' = p_und s /\
  vs s' = vs s /\
  (forall p, In p (q_opt s) -> In p (q_opt s')) /\ (forall p, In p (q_prune s) -> In p (q_prune s')) /\
  (forall p, In p (q_und s) -> In p (q_und s')).
Proof.
  intro Ht. destruct a; simpl in Ht; try discriminate; simpl.
  all: unfold opt_in, set_key, opt_out, undelegate, hook_replaced, set_jailed; split_ifs; simp;
    repeat split; auto; intros; repeat (apply In_qappend; auto).
Qed.

(* an entry stays in its queue until the epoch of its key closes *)
Lemma hstep_keeps s h : Inv s ->
  let s' := hstep s h in
  (forall p, In p (q_opt s) -> In p (q_opt s') \/ fst p < cur s') /\
  (forall p, In p (q_prune s) -> In p (q_prune s') \/ fst p < cur s') /\
  (forall p, In p (q_und s) -> In p (q_und s') \/ fst p < cur s').
Proof.
  intro I. destruct h as [a|sel tick]; simpl.
  - destruct (is_tx a) eqn:Ht; [|tauto]. destruct (tx_frame s a Ht) as (_ & _ & _ & _ & _ & H1 & H2 & H3).
    repeat split; intros p Hp; left; auto.
  - pose proof (end_block_effect s sel I) as H. cbv zeta in H.
    destruct H as (_ & Hqo & Hqp & Hqu & Hc & _).
    destruct tick; simpl.
    + unfold epoch_end. simp. rewrite Hqo, Hqp, Hqu, Hc.
      repeat split; intros p Hp; (destruct (Z.eq_dec (fst p) (cur s)) as [E|E]; [right; lia | left; apply In_qclear; tauto]).
    + rewrite Hqo, Hqp, Hqu. tauto.
Qed.

(* [all_states P s l]: P holds in s and in every state the history l passes through *)
Fixpoint all_states (P : st -> Prop) (s : st) (l : list hop) : Prop :=
  match l with
  | [] => P s
  | h :: r => P s /\ all_states P (hstep s h) r
  end.

Lemma all_states_head P s l : all_states P s l -> P s.
Proof. destruct l; simpl; tauto. Qed.

Lemma hrun_keeps l : forall s f, Inv s -> all_states (fun t => cur t <= f) s l ->
  let s' := hrun s l in
  (forall x, In (f, x) (q_opt s) -> In (f, x) (q_opt s')) /\
  (forall x, In (f, x) (q_prune s) -> In (f, x) (q_prune s')) /\
  (forall x, In (f, x) (q_und s) -> In (f, x) (q_und s')).
Proof.
  induction l as [|h l IH]; intros s f I Hall; simpl; [tauto|].
  simpl in Hall. destruct Hall as [_ Hall]. pose proof (all_states_head _ _ _ Hall) as Hc. simpl in Hc.
  pose proof (hstep_inv s h I) as I1. destruct (IH _ f I1 Hall) as (A1 & A2 & A3).
  destruct (hstep_keeps s h I) as (B1 & B2 & B3).
  repeat split; intros x Hx.
  - destruct (B1 (f, x) Hx) as [H|H]; [apply A1; assumption | simpl in H; lia].
  - destruct (B2 (f, x) Hx) as [H|H]; [apply A2; assumption | simpl in H; lia].
  - destruct (B3 (f, x) Hx) as [H|H]; [apply A3; assumption | simpl in H; lia].
Qed.

(* ---------- a concrete state satisfying the invariant (non-vacuity of every theorem's premise) ---------- *)
Definition ex_state : st :=
  mkSt (fun o => (o =? 0) || (o =? 1)) (mset (mset mempty 0 10) 1 11) (mset (mset mempty 0 10) 1 11)
       (mset (mset mempty 10 0) 11 1) mempty (fun _ => false) (fun c => (c =? 10) || (c =? 11))
       [] [] [] mempty mempty [] [] [] false 5 2 (fun _ => 0) (fun _ => false) (fun o => (o =? 0) || (o =? 1)).

Lemma ex_state_inv : Inv ex_state.
Proof.
  constructor; [constructor|..]; unfold ex_state; cbn -[Z.eqb].
  all: try tauto; try lia; try (constructor; fail); try discriminate.
  all: try (intros; contradiction).
  all: try (intros ? ? H; discriminate H).
  - intros o k. unfold mset, mempty. destruct (Z.eqb_spec o 1); [subst; intro H; inversion H; reflexivity|].
    destruct (Z.eqb_spec o 0); [subst; intro H; inversion H; reflexivity | discriminate].
  - intros c H. unfold mset, mempty. destruct (Z.eqb_spec c 11); [discriminate|].
    destruct (Z.eqb_spec c 10); [discriminate | discriminate].
  - intros c o H. unfold mset, mempty. destruct (Z.eqb_spec c 11); [subst; intro H1; inversion H1; left; reflexivity|].
    destruct (Z.eqb_spec c 10); [subst; intro H1; inversion H1; left; reflexivity | discriminate].
Qed.
