(* Dogfood/Model.v — shared executable model for C07 (consensus-key registry) and C16 (epoch-scheduled
   unbonding queues).  Transcribed from
     x/operator/keeper/consensus_keys.go  (setOperatorConsKeyForChainID, Initiate/CompleteOperatorKeyRemoval,
                                           ClearPreviousConsensusKeys, DeleteOperatorAddressForChainIDAndConsAddr,
                                           ValidatorByConsAddrForChainID)
     x/operator/keeper/opt.go, msg_server.go (OptIn, OptInWithConsKey, OptOut, SetConsKey)
     x/dogfood/keeper/impl_operator_hooks.go, opt_out.go, unbonding.go, pending.go, impl_epochs_hooks.go,
     impl_delegation_hooks.go, abci.go (EndBlock)
   for ONE chain (the dogfood chain).  Operators, consensus keys (= consensus addresses; the address is an
   injective function of the key as far as this model is concerned) and undelegation records are opaque
   integers.  The code modelled is the REPAIRED code (repo_patches/fix-dogfood-optout-before-activation.patch,
   fix-operator-optin-while-removing.patch,
   fix-dogfood-undelegation-in-completing-block.patch).
   No proofs here: the model must still run when a proof breaks. *)
From Coq Require Import List Bool ZArith Lia.
From Exo Require Import Base.Util.
Import ListNotations.
Local Open Scope Z_scope.
Local Open Scope list_scope.

(* ---- small maps: total functions Z -> option Z / bool / Z ---- *)
Definition zmap := Z -> option Z.
Definition mempty : zmap := fun _ => None.
Definition mset (m : zmap) (k v : Z) : zmap := fun x => if x =? k then Some v else m x.
Definition mdel (m : zmap) (k : Z) : zmap := fun x => if x =? k then None else m x.
Definition bset (m : Z -> bool) (k : Z) (v : bool) : Z -> bool := fun x => if x =? k then v else m x.
Definition zadd (m : Z -> Z) (k d : Z) : Z -> Z := fun x => if x =? k then m x + d else m x.
Definition is_some (o : option Z) : bool := match o with Some _ => true | None => false end.
Definition oz_eqb (a b : option Z) : bool := option_eqb Z.eqb a b.

(* ---- per-epoch queues: flat list of (epoch, entry) in insertion order.  The store keeps, per epoch
   key, the list of entries in append order; a key exists iff its list is non-empty (Append* creates it,
   Clear* deletes it), so the flat list is the same information. ---- *)
Definition queue := list (Z * Z).
Definition qget (q : queue) (e : Z) : list Z := map snd (filter (fun p => fst p =? e) q).
Definition qappend (q : queue) (e x : Z) : queue := q ++ [(e, x)].
Definition qclear (q : queue) (e : Z) : queue := filter (fun p => negb (fst p =? e)) q.
Definition zmem (x : Z) (l : list Z) : bool := existsb (Z.eqb x) l.
Definition zcount (x : Z) (l : list Z) : Z := Z.of_nat (List.length (filter (Z.eqb x) l)).

Record st := mkSt {
  (* x/operator *)
  opted : Z -> bool;     (* operator is opted in to the dogfood AVS (IsOptedIn; jailing is not modelled) *)
  k_op : zmap;           (* operator+chain -> key        (BytePrefixForOperatorAndChainIDToConsKey) *)
  k_ch : zmap;           (* chain+operator -> key        (BytePrefixForChainIDAndOperatorToConsKey) *)
  k_rev : zmap;          (* chain+consAddr -> operator   (BytePrefixForChainIDAndConsKeyToOperator) *)
  k_prev : zmap;         (* chain+operator -> previous key *)
  k_rm : Z -> bool;      (* key-removal marker *)
  (* x/dogfood *)
  vs : Z -> bool;        (* stored validator set, by consensus address *)
  q_opt : queue;         (* OptOutsToFinish(epoch) *)
  q_prune : queue;       (* ConsensusAddrsToPrune(epoch) *)
  q_und : queue;         (* UndelegationsToMature(epoch) *)
  fin : zmap;            (* OperatorOptOutFinishEpoch *)
  mat : zmap;            (* UndelegationMaturityEpoch *)
  p_opt : list Z; p_prune : list Z; p_und : list Z;   (* pending lists *)
  ep_end : bool;         (* epoch-end marker *)
  cur : Z;               (* current epoch of the dogfood epoch identifier *)
  unb : Z;               (* params.EpochsUntilUnbonded *)
  (* x/delegation *)
  holds : Z -> Z;        (* undelegation hold count per record *)
  (* x/operator opted info *)
  jailed : Z -> bool;    (* OptedInfo.Jailed *)
  info : Z -> bool       (* an OptedInfo record exists (the operator has opted in at least once) *)
}.

Inductive op :=
| OptInKey (o k : Z)      (* MsgServer.OptIntoAVS with a key: OptIn; SetOperatorConsKeyForChainID — atomic *)
| OptIn (o : Z)           (* Keeper.OptIn (no key; reachable through the AVS precompile) *)
| SetKey (o k : Z)        (* MsgServer.SetConsKey: IsActive check; SetOperatorConsKeyForChainID *)
| OptOut (o : Z)          (* MsgServer.OptOutOfAVS *)
| Undelegate (o r : Z)    (* DelegationKeeper.UndelegateFrom operator o creating record r: AfterUndelegationStarted *)
| SetUnb (n : Z)          (* dogfood UpdateParams: EpochsUntilUnbonded := n (n > 0) *)
| BeginBlock (tick : bool)    (* tick = the epochs module closes the current dogfood epoch in this block *)
| EndBlock (sel : list Z)     (* sel = operators with vote power >= 1 inside the top MaxValidators (external) *)
| SetKeyK (o k : Z)           (* Keeper.SetOperatorConsKeyForChainID called directly (no IsActive check) *)
| Jail (c : Z)                (* dogfood Keeper.Jail(consAddr): the call of the slashing / evidence modules *)
| Unjail (c : Z)              (* dogfood Keeper.Unjail(consAddr) *)
| SlashBy (c : Z)             (* dogfood Keeper.SlashWithInfractionReason(consAddr, ...) *)
| SetClock (c : Z).           (* dogfood UpdateParams: EpochIdentifier := another identifier whose current epoch is c *)

Inductive res := ROk | RErr | RPanic.

Definition res_eqb (a b : res) : bool :=
  match a, b with ROk, ROk | RErr, RErr | RPanic, RPanic => true | _, _ => false end.

(* ---- setters ---- *)
Definition with_opted s v := mkSt v (k_op s) (k_ch s) (k_rev s) (k_prev s) (k_rm s) (vs s) (q_opt s) (q_prune s) (q_und s) (fin s) (mat s) (p_opt s) (p_prune s) (p_und s) (ep_end s) (cur s) (unb s) (holds s) (jailed s) (info s).
Definition with_keys s a b := mkSt (opted s) a b (k_rev s) (k_prev s) (k_rm s) (vs s) (q_opt s) (q_prune s) (q_und s) (fin s) (mat s) (p_opt s) (p_prune s) (p_und s) (ep_end s) (cur s) (unb s) (holds s) (jailed s) (info s).
Definition with_rev s v := mkSt (opted s) (k_op s) (k_ch s) v (k_prev s) (k_rm s) (vs s) (q_opt s) (q_prune s) (q_und s) (fin s) (mat s) (p_opt s) (p_prune s) (p_und s) (ep_end s) (cur s) (unb s) (holds s) (jailed s) (info s).
Definition with_prev s v := mkSt (opted s) (k_op s) (k_ch s) (k_rev s) v (k_rm s) (vs s) (q_opt s) (q_prune s) (q_und s) (fin s) (mat s) (p_opt s) (p_prune s) (p_und s) (ep_end s) (cur s) (unb s) (holds s) (jailed s) (info s).
Definition with_rm s v := mkSt (opted s) (k_op s) (k_ch s) (k_rev s) (k_prev s) v (vs s) (q_opt s) (q_prune s) (q_und s) (fin s) (mat s) (p_opt s) (p_prune s) (p_und s) (ep_end s) (cur s) (unb s) (holds s) (jailed s) (info s).
Definition with_vs s v := mkSt (opted s) (k_op s) (k_ch s) (k_rev s) (k_prev s) (k_rm s) v (q_opt s) (q_prune s) (q_und s) (fin s) (mat s) (p_opt s) (p_prune s) (p_und s) (ep_end s) (cur s) (unb s) (holds s) (jailed s) (info s).
Definition with_qopt s q f := mkSt (opted s) (k_op s) (k_ch s) (k_rev s) (k_prev s) (k_rm s) (vs s) q (q_prune s) (q_und s) f (mat s) (p_opt s) (p_prune s) (p_und s) (ep_end s) (cur s) (unb s) (holds s) (jailed s) (info s).
Definition with_qprune s q := mkSt (opted s) (k_op s) (k_ch s) (k_rev s) (k_prev s) (k_rm s) (vs s) (q_opt s) q (q_und s) (fin s) (mat s) (p_opt s) (p_prune s) (p_und s) (ep_end s) (cur s) (unb s) (holds s) (jailed s) (info s).
Definition with_und s q m h := mkSt (opted s) (k_op s) (k_ch s) (k_rev s) (k_prev s) (k_rm s) (vs s) (q_opt s) (q_prune s) q (fin s) m (p_opt s) (p_prune s) (p_und s) (ep_end s) (cur s) (unb s) h (jailed s) (info s).
Definition with_jail s j i := mkSt (opted s) (k_op s) (k_ch s) (k_rev s) (k_prev s) (k_rm s) (vs s) (q_opt s) (q_prune s) (q_und s) (fin s) (mat s) (p_opt s) (p_prune s) (p_und s) (ep_end s) (cur s) (unb s) (holds s) j i.
Definition with_cur s c := mkSt (opted s) (k_op s) (k_ch s) (k_rev s) (k_prev s) (k_rm s) (vs s) (q_opt s) (q_prune s) (q_und s) (fin s) (mat s) (p_opt s) (p_prune s) (p_und s) (ep_end s) c (unb s) (holds s) (jailed s) (info s).
Definition with_unb s n := mkSt (opted s) (k_op s) (k_ch s) (k_rev s) (k_prev s) (k_rm s) (vs s) (q_opt s) (q_prune s) (q_und s) (fin s) (mat s) (p_opt s) (p_prune s) (p_und s) (ep_end s) (cur s) n (holds s) (jailed s) (info s).

(* IsActive: opted in and not jailed *)
Definition active (s : st) (o : Z) : bool := opted s o && negb (jailed s o).

(* GetUnbondingCompletionEpoch *)
Definition completion_epoch (s : st) : Z := cur s + unb s.

(* GetExocoreValidator found, for the current key or, failing that, the key replaced during this epoch *)
Definition validating (s : st) (o : Z) : bool :=
  match k_op s o with
  | None => false
  | Some k => vs s k || match k_prev s o with Some pk => vs s pk | None => false end
  end.

(* dogfood AfterOperatorKeyReplaced (repaired: the reverse lookup of EVERY replaced key is kept for the unbonding period) *)
Definition hook_replaced (s : st) (old : Z) : st :=
  with_qprune s (qappend (q_prune s) (completion_epoch s) old).

(* setOperatorConsKeyForChainID (genesis = false; the operator is not frozen) *)
Definition set_key (s : st) (o k : Z) : st * res :=
  if k_rm s o then (s, RErr)                        (* ErrAlreadyRemovingKey *)
  else if is_some (k_rev s k) then (s, RErr)        (* ErrConsKeyAlreadyInUse *)
  else
    let write (s0 : st) := with_rev (with_keys s0 (mset (k_op s0) o k) (mset (k_ch s0) o k)) (mset (k_rev s0) k o) in
    match k_op s o with
    | None => (write s, ROk)                        (* AfterOperatorKeySet: no-op *)
    | Some pk =>
        if pk =? k then (s, ROk)
        else if is_some (k_prev s o) then (write s, ROk)     (* already recorded this epoch: no hook *)
        else (hook_replaced (write (with_prev s (mset (k_prev s) o pk))) pk, ROk)
    end.

(* Keeper.OptIn (operator registered, AVS registered, self USD value sufficient, not frozen); a fresh OptedInfo
   record is written, so a jailed flag left from an earlier opt-in is gone *)
Definition opt_in (s : st) (o : Z) : st * res :=
  if opted s o then (s, RErr)                       (* ErrAlreadyOptedIn *)
  else if k_rm s o then (s, RErr)                   (* repaired: ErrAlreadyRemovingKey *)
  else (with_jail (with_opted s (bset (opted s) o true)) (bset (jailed s) o false) (bset (info s) o true), ROk).

(* CompleteOperatorKeyRemovalForChainID; None = nil dereference (marker set but no key) *)
Definition complete_removal (s : st) (o : Z) : option st :=
  if negb (k_rm s o) then Some s                    (* ErrOperatorNotRemovingKey, logged by the callers *)
  else match k_op s o with
       | None => None
       | Some k =>
           Some (with_rm (with_rev (with_keys s (mdel (k_op s) o) (mdel (k_ch s) o)) (mdel (k_rev s) k))
                         (bset (k_rm s) o false))
       end.

(* Keeper.OptOut incl. the deferred InitiateOperatorKeyRemovalForChainID and the dogfood hook
   AfterOperatorKeyRemovalInitiated (repaired: no key = nothing to remove; otherwise the removal always completes
   after the unbonding period) *)
Definition opt_out (s : st) (o : Z) : st * res :=
  if negb (active s o) then (s, RErr)               (* ErrNotOptedIn: not opted in, or jailed *)
  else
    let s0 := with_opted s (bset (opted s) o false) in
    match k_op s o with
    | None => (s0, ROk)
    | Some _ =>
        let s1 := with_rm s0 (bset (k_rm s) o true) in
        (with_qopt s1 (qappend (q_opt s1) (completion_epoch s1) o) (mset (fin s1) o (completion_epoch s1)), ROk)
    end.

(* dogfood AfterUndelegationStarted for a fresh record r *)
Definition register_und (s : st) (r e : Z) : st :=
  with_und s (qappend (q_und s) e r) (mset (mat s) r e) (zadd (holds s) r 1).

Definition undelegate (s : st) (o r : Z) : st * res :=
  if k_rm s o then
    match fin s o with
    | None => (s, ROk)             (* repaired: finish epoch -1 = the opt out completes in this very block: not tracked *)
    | Some f => (register_und s r f, ROk)
    end
  else if validating s o then (register_und s r (completion_epoch s), ROk)
  else (s, ROk).

(* dogfood AfterEpochEnd(cur) followed by the epoch counter moving on *)
Definition epoch_end (s : st) : st :=
  let e := cur s in
  let po := qget (q_opt s) e in
  mkSt (opted s) (k_op s) (k_ch s) (k_rev s) (k_prev s) (k_rm s) (vs s)
       (qclear (q_opt s) e) (qclear (q_prune s) e) (qclear (q_und s) e)
       (fold_left mdel po (fin s)) (mat s)
       po (qget (q_prune s) e) (qget (q_und s) e)
       true (e + 1) (unb s) (holds s) (jailed s) (info s).

(* DecrementUndelegationHoldCount (error when 0) + ClearUndelegationMaturityEpoch, for every pending record *)
Definition release_one (hm : (Z -> Z) * zmap) (r : Z) : (Z -> Z) * zmap :=
  let '(h, m) := hm in ((if h r =? 0 then h else zadd h r (-1)), mdel m r).

Fixpoint complete_all (s : st) (l : list Z) : option st :=
  match l with
  | [] => Some s
  | o :: r => match complete_removal s o with
              | Some s1 => complete_all s1 r
              | None => None
              end
  end.

Definition new_valset (s : st) (sel : list Z) : Z -> bool :=
  fun c => existsb (fun o => active s o && oz_eqb (k_ch s o) (Some c)) sel.

(* dogfood EndBlock *)
Definition end_block (s : st) (sel : list Z) : st * res :=
  if negb (ep_end s) then (s, ROk)
  else
    let '(h1, m1) := fold_left release_one (p_und s) (holds s, mat s) in
    let s1 := mkSt (opted s) (k_op s) (k_ch s) (k_rev s) mempty (k_rm s) (vs s) (q_opt s) (q_prune s) (q_und s)
                   (fin s) m1 (p_opt s) (p_prune s) [] (ep_end s) (cur s) (unb s) h1 (jailed s) (info s) in
    match complete_all s1 (p_opt s1) with
    | None => (s, RPanic)
    | Some s2 =>
        let rev3 := fold_left mdel (p_prune s2) (k_rev s2) in
        let s3 := mkSt (opted s2) (k_op s2) (k_ch s2) rev3 (k_prev s2) (k_rm s2) (vs s2) (q_opt s2) (q_prune s2)
                       (q_und s2) (fin s2) (mat s2) [] [] [] false (cur s2) (unb s2) (holds s2) (jailed s2) (info s2) in
        (with_vs s3 (new_valset s3 sel), ROk)
    end.

(* SetJailedState: resolve the address, then HandleOptedInfo (an error, logged, when no record exists) *)
Definition set_jailed (s : st) (c : Z) (v : bool) : st :=
  match k_rev s c with
  | Some o => if info s o then with_jail s (bset (jailed s) o v) (info s) else s
  | None => s
  end.

(* the operator that dogfood SlashWithInfractionReason(consAddr) hands to the operator module *)
Definition slash_target (s : st) (c : Z) : option Z := k_rev s c.

(* IsOperatorJailedForChainID / IsValidatorJailed *)
Definition jail_probe (s : st) (c : Z) : bool :=
  match k_rev s c with Some o => info s o && jailed s o | None => false end.

Definition nothing_scheduled (s : st) : bool :=
  match q_opt s, q_prune s, q_und s, p_opt s, p_prune s, p_und s with
  | [], [], [], [], [], [] => true
  | _, _, _, _, _, _ => false
  end.

Definition step (s : st) (a : op) : st * res :=
  match a with
  | OptInKey o k =>
      match opt_in s o with
      | (s1, ROk) => match set_key s1 o k with
                     | (s2, ROk) => (s2, ROk)
                     | (_, r) => (s, r)
                     end
      | (_, r) => (s, r)
      end
  | OptIn o => opt_in s o
  | SetKey o k => if negb (active s o) then (s, RErr) else set_key s o k
  | OptOut o => opt_out s o
  | Undelegate o r => undelegate s o r
  | SetUnb n => if 0 <? n then (with_unb s n, ROk) else (s, ROk)
  | BeginBlock tick => if tick then (epoch_end s, ROk) else (s, ROk)
  | EndBlock sel => end_block s sel
  | SetKeyK o k => set_key s o k
  | Jail c => (set_jailed s c true, ROk)
  | Unjail c => (set_jailed s c false, ROk)
  | SlashBy _ => (s, ROk)
  | SetClock c => if nothing_scheduled s then (with_cur s c, ROk) else (s, ROk)   (* repaired: identifier kept while anything is scheduled *)
  end.

Definition run (s : st) (ops : list op) : st := fold_left (fun s a => fst (step s a)) ops s.

(* ValidatorByConsAddrForChainID found (USD value computation assumed to succeed) *)
Definition probe (s : st) (c : Z) : bool :=
  match k_rev s c with Some o => is_some (k_op s o) | None => false end.

(* ================= observations written by the harness ================= *)
Record obs := mkObs {
  o_opted : list Z;
  o_kop : list (Z * Z); o_kch : list (Z * Z); o_rev : list (Z * Z); o_prev : list (Z * Z); o_rm : list Z;
  o_vs : list Z;
  o_qopt : list (Z * list Z); o_qprune : list (Z * list Z); o_qund : list (Z * list Z);
  o_fin : list (Z * Z); o_mat : list (Z * Z);
  o_popt : list Z; o_pprune : list Z; o_pund : list Z;
  o_epend : bool; o_cur : Z; o_unb : Z;
  o_holds : list (Z * Z);
  o_probe : list (Z * bool);
  o_jailed : list Z;             (* operators whose OptedInfo.Jailed is set *)
  o_info : list Z;               (* operators with an OptedInfo record *)
  o_jprobe : list (Z * bool);    (* IsValidatorJailed per key *)
  o_slashed : list Z             (* operators that received a slash record in this step *)
}.

Fixpoint assoc (l : list (Z * Z)) (k : Z) : option Z :=
  match l with
  | [] => None
  | (a, b) :: r => if a =? k then Some b else assoc r k
  end.

Definition flatten (g : list (Z * list Z)) : queue := flat_map (fun p => map (pair (fst p)) (snd p)) g.

Definition abs (b : obs) : st :=
  mkSt (fun o => zmem o (o_opted b)) (assoc (o_kop b)) (assoc (o_kch b)) (assoc (o_rev b)) (assoc (o_prev b))
       (fun o => zmem o (o_rm b)) (fun c => zmem c (o_vs b))
       (flatten (o_qopt b)) (flatten (o_qprune b)) (flatten (o_qund b))
       (assoc (o_fin b)) (assoc (o_mat b)) (o_popt b) (o_pprune b) (o_pund b)
       (o_epend b) (o_cur b) (o_unb b)
       (fun r => match assoc (o_holds b) r with Some n => n | None => 0 end)
       (fun o => zmem o (o_jailed b)) (fun o => zmem o (o_info b)).

(* finite universe of a case: operators, keys, records, epochs 0..maxep *)
Record univ := mkU { u_ops : list Z; u_keys : list Z; u_recs : list Z; u_eps : list Z }.

Definition lz_eqb := list_eqb Z.eqb.

Definition q_eq_on (U : univ) (q1 q2 : queue) : bool :=
  forallb (fun e => lz_eqb (qget q1 e) (qget q2 e)) (u_eps U) &&
  forallb (fun p => zmem (fst p) (u_eps U)) q1 && forallb (fun p => zmem (fst p) (u_eps U)) q2.

(* extensional equality of two states on the universe *)
Definition st_eq_on (U : univ) (a b : st) : bool :=
  forallb (fun o => Bool.eqb (opted a o) (opted b o) && oz_eqb (k_op a o) (k_op b o) && oz_eqb (k_ch a o) (k_ch b o) &&
                    oz_eqb (k_prev a o) (k_prev b o) && Bool.eqb (k_rm a o) (k_rm b o) && oz_eqb (fin a o) (fin b o) &&
                    Bool.eqb (jailed a o) (jailed b o) && Bool.eqb (info a o) (info b o)) (u_ops U) &&
  forallb (fun c => oz_eqb (k_rev a c) (k_rev b c) && Bool.eqb (vs a c) (vs b c)) (u_keys U) &&
  forallb (fun r => oz_eqb (mat a r) (mat b r) && (holds a r =? holds b r)) (u_recs U) &&
  q_eq_on U (q_opt a) (q_opt b) && q_eq_on U (q_prune a) (q_prune b) && q_eq_on U (q_und a) (q_und b) &&
  lz_eqb (p_opt a) (p_opt b) && lz_eqb (p_prune a) (p_prune b) && lz_eqb (p_und a) (p_und b) &&
  Bool.eqb (ep_end a) (ep_end b) && (cur a =? cur b) && (unb a =? unb b).

(* every identifier the implementation stores is inside the declared universe *)
Definition obs_in_univ (U : univ) (b : obs) : bool :=
  let ino o := zmem o (u_ops U) in let ink c := zmem c (u_keys U) in let inr r := zmem r (u_recs U) in
  forallb ino (o_opted b) && forallb (fun p => ino (fst p) && ink (snd p)) (o_kop b) &&
  forallb (fun p => ino (fst p) && ink (snd p)) (o_kch b) && forallb (fun p => ink (fst p) && ino (snd p)) (o_rev b) &&
  forallb (fun p => ino (fst p) && ink (snd p)) (o_prev b) && forallb ino (o_rm b) && forallb ink (o_vs b) &&
  forallb (fun p => forallb ino (snd p)) (o_qopt b) && forallb (fun p => forallb ink (snd p)) (o_qprune b) &&
  forallb (fun p => forallb inr (snd p)) (o_qund b) && forallb (fun p => ino (fst p)) (o_fin b) &&
  forallb (fun p => inr (fst p)) (o_mat b) && forallb ino (o_popt b) && forallb ink (o_pprune b) &&
  forallb inr (o_pund b) && forallb (fun p => inr (fst p)) (o_holds b) &&
  forallb ino (o_jailed b) && forallb ino (o_info b) && forallb ino (o_slashed b).

Definition probe_ok (s : st) (b : obs) : bool :=
  forallb (fun p => Bool.eqb (probe s (fst p)) (snd p)) (o_probe b) &&
  forallb (fun p => Bool.eqb (jail_probe s (fst p)) (snd p)) (o_jprobe b).

Record stepobs := mkStep { so_op : op; so_res : res; so_obs : obs }.
Record case := mkCase { c_univ : univ; c_init : obs; c_steps : list stepobs }.

(* ---- correspondence: model vs implementation, step by step ---- *)
Fixpoint check_steps (U : univ) (s : st) (l : list stepobs) (i : nat) : option nat :=
  match l with
  | [] => None
  | x :: r =>
      let '(s', rs) := step s (so_op x) in
      let slashed_ok :=
        match so_op x with
        | SlashBy c => lz_eqb (o_slashed (so_obs x)) (match slash_target s c with Some o => [o] | None => [] end)
        | _ => match o_slashed (so_obs x) with [] => true | _ => false end
        end in
      if res_eqb rs (so_res x) && obs_in_univ U (so_obs x) && st_eq_on U s' (abs (so_obs x)) && probe_ok s' (so_obs x) && slashed_ok
      then check_steps U s' r (S i) else Some i
  end.

Definition check_case (c : case) : option nat :=
  if negb (obs_in_univ (c_univ c) (c_init c) && probe_ok (abs (c_init c)) (c_init c)) then Some 0%nat
  else check_steps (c_univ c) (abs (c_init c)) (c_steps c) 1.

(* ---- histories: transactions inside a block, and block boundaries (EndBlock of the current block followed
   by BeginBlock of the next one, as the chain always runs them) ---- *)
Inductive hop := Tx (a : op) | NextBlock (sel : list Z) (tick : bool).

Definition is_tx (a : op) : bool := match a with BeginBlock _ | EndBlock _ => false | _ => true end.

Definition hstep (s : st) (h : hop) : st :=
  match h with
  | Tx a => if is_tx a then fst (step s a) else s
  | NextBlock sel tick => fst (step (fst (step s (EndBlock sel))) (BeginBlock tick))
  end.

Definition hrun (s : st) (l : list hop) : st := fold_left hstep l s.
