(* C15/Model.v — executable model of x/epochs: AddEpochInfo / InitGenesis / BeginBlocker / MultiEpochHooks.
   Transcribed from x/epochs/keeper/{abci.go,epoch_infos.go,genesis.go}, x/epochs/types/{genesis.go,hooks.go}.
   Times are Z nanoseconds since the Unix epoch (Go's zero time.Time is [zero_time]); durations are Z ns.
   No proofs here: the model must still run when a proof breaks. *)
From Coq Require Import List String Ascii Bool ZArith Lia.
From Exo Require Import Base.Store Base.Util.
Import ListNotations.
Local Open Scope Z_scope.
Local Open Scope list_scope.

Record epoch_info := mkEI {
  ei_id : string;
  ei_start : Z;         (* StartTime *)
  ei_dur : Z;           (* Duration *)
  ei_cur : Z;           (* CurrentEpoch *)
  ei_cur_start : Z;     (* CurrentEpochStartTime *)
  ei_started : bool;    (* EpochCountingStarted *)
  ei_cur_height : Z     (* CurrentEpochStartHeight *)
}.

Inductive ev_kind := EvEnd | EvStart.
Record event := mkEv { ev_k : ev_kind; ev_id : string; ev_num : Z; ev_sub : nat }.

(* time.Time{} : 0001-01-01T00:00:00Z *)
Definition zero_time : Z := -62135596800000000000.

(* EpochInfo.Validate *)
Definition validate (e : epoch_info) : bool :=
  negb (String.eqb (ei_id e) "") && (0 <? ei_dur e) && (0 <=? ei_cur e) && (0 <=? ei_cur_height e).

(* AddEpochInfo at block height h / block time t; InitGenesis ignores the error, so a rejected entry
   leaves the store unchanged. *)
Definition add_epoch_info (h t : Z) (st : store epoch_info) (e : epoch_info) : store epoch_info :=
  if negb (validate e) then st
  else match sget st (ei_id e) with
       | Some _ => st
       | None =>
           let s1 := if ei_start e =? zero_time then t else ei_start e in
           let h1 := if ei_cur_height e =? 0 then h else ei_cur_height e in
           sset st (ei_id e)
             (mkEI (ei_id e) s1 (ei_dur e) (ei_cur e) (ei_cur_start e) (ei_started e) h1)
       end.

Definition init_genesis (h t : Z) (l : list epoch_info) : store epoch_info :=
  fold_left (add_epoch_info h t) l [].

(* MultiEpochHooks: subscribers 0 .. n-1 in registration order *)
Definition fanout (nsubs : nat) (k : ev_kind) (id : string) (num : Z) : list event :=
  map (fun i => mkEv k id num i) (seq 0 nsubs).

(* the body of the closure in BeginBlocker, for one epoch info *)
Definition tick (nsubs : nat) (h t : Z) (e : epoch_info) : epoch_info * list event :=
  if negb (validate e) then (e, [])
  else if t <? ei_start e then (e, [])
  else
    let end_time := ei_cur_start e + ei_dur e in
    let first := negb (ei_started e) in
    let ending := end_time <? t in
    if negb (ending || first) then (e, [])
    else if first then
      (mkEI (ei_id e) (ei_start e) (ei_dur e) 1 (ei_start e) true h,
       fanout nsubs EvStart (ei_id e) 1)
    else
      (mkEI (ei_id e) (ei_start e) (ei_dur e) (ei_cur e + 1) end_time true h,
       fanout nsubs EvEnd (ei_id e) (ei_cur e) ++ fanout nsubs EvStart (ei_id e) (ei_cur e + 1)).

(* the two state changes a tick can make *)
Definition first_of (h : Z) (e : epoch_info) : epoch_info :=
  mkEI (ei_id e) (ei_start e) (ei_dur e) 1 (ei_start e) true h.
Definition next_of (h : Z) (e : epoch_info) : epoch_info :=
  mkEI (ei_id e) (ei_start e) (ei_dur e) (ei_cur e + 1) (ei_cur_start e + ei_dur e) true h.

(* BeginBlocker: walk the store in key order; every write goes to the key of the entry just read
   (setEpochInfoUnchecked keys by Identifier, and every stored entry is keyed by its Identifier). *)
Fixpoint begin_block (nsubs : nat) (h t : Z) (st : store epoch_info) : store epoch_info * list event :=
  match st with
  | [] => ([], [])
  | (k, e) :: r =>
      let '(e', ev) := tick nsubs h t e in
      let '(r', evs) := begin_block nsubs h t r in
      ((k, e') :: r', ev ++ evs)
  end.

(* the application's subscriber order (app/app.go, EpochsKeeper.SetHooks) *)
Definition subscribers : list string :=
  ["feedistribution"; "operator"; "dogfood"; "exomint"; "avs"]%string.

(* ---- run over a history of blocks ---- *)
Fixpoint run (nsubs : nat) (st : store epoch_info) (blocks : list (Z * Z)) : store epoch_info * list (list event) :=
  match blocks with
  | [] => (st, [])
  | (h, t) :: r =>
      let '(st', ev) := begin_block nsubs h t st in
      let '(st'', evs) := run nsubs st' r in
      (st'', ev :: evs)
  end.

(* ---- correspondence cases (written by the harness) ---- *)
Record blk := mkBlk { b_height : Z; b_time : Z; b_events : list event; b_infos : list epoch_info }.
(* [c_inject]: entries the harness wrote straight into the module store after InitGenesis (the only way an
   entry that fails Validate can get there); [c_after_gen] is observed after genesis + injection. *)
Record case := mkCase {
  c_subs : list string; c_gen_height : Z; c_gen_time : Z;
  c_genesis : list epoch_info; c_inject : list epoch_info; c_after_gen : list epoch_info; c_blocks : list blk }.

(* setEpochInfoUnchecked *)
Definition inject (st : store epoch_info) (e : epoch_info) : store epoch_info := sset st (ei_id e) e.

Definition ei_eqb (a b : epoch_info) : bool :=
  String.eqb (ei_id a) (ei_id b) && (ei_start a =? ei_start b) && (ei_dur a =? ei_dur b) &&
  (ei_cur a =? ei_cur b) && (ei_cur_start a =? ei_cur_start b) &&
  Bool.eqb (ei_started a) (ei_started b) && (ei_cur_height a =? ei_cur_height b).

Definition kind_eqb (a b : ev_kind) : bool :=
  match a, b with EvEnd, EvEnd | EvStart, EvStart => true | _, _ => false end.

Definition ev_eqb (a b : event) : bool :=
  kind_eqb (ev_k a) (ev_k b) && String.eqb (ev_id a) (ev_id b) && (ev_num a =? ev_num b) &&
  Nat.eqb (ev_sub a) (ev_sub b).

(* None = the implementation did what the model does; Some i = first disagreement at step i
   (0 = subscriber order, 1 = state after genesis, i+2 = block i) *)
Fixpoint check_blocks (nsubs : nat) (st : store epoch_info) (bs : list blk) (i : nat) : option nat :=
  match bs with
  | [] => None
  | b :: r =>
      let '(st', ev) := begin_block nsubs (b_height b) (b_time b) st in
      if list_eqb ev_eqb ev (b_events b) && list_eqb ei_eqb (map snd st') (b_infos b)
      then check_blocks nsubs st' r (S i) else Some i
  end.

Definition check_case (c : case) : option nat :=
  if negb (list_eqb String.eqb (c_subs c) subscribers) then Some 0%nat
  else
    let st := fold_left inject (c_inject c) (init_genesis (c_gen_height c) (c_gen_time c) (c_genesis c)) in
    if negb (list_eqb ei_eqb (map snd st) (c_after_gen c)) then Some 1%nat
    else check_blocks (List.length subscribers) st (c_blocks c) 2.

(* ---- property monitors evaluated on the IMPLEMENTATION's observed trace (no model state used) ---- *)

(* per-identifier observed step: info before, info after, events of that identifier, block time *)
Definition find_info (id : string) (l : list epoch_info) : option epoch_info :=
  find (fun e => String.eqb (ei_id e) id) l.

Definition events_of (id : string) (l : list event) : list event :=
  filter (fun e => String.eqb (ev_id e) id) l.

(* The statement of C15 for one identifier across one block, as a boolean on observations only. *)
Definition step_ok (nsubs : nat) (t : Z) (before after : epoch_info) (evs : list event) : bool :=
  if negb (validate before) then ei_eqb before after && list_eqb ev_eqb evs []
  else if negb (ei_started before) then
    if ei_start before <=? t then
      (ei_cur after =? 1) && ei_started after && (ei_cur_start after =? ei_start before) &&
      list_eqb ev_eqb evs (fanout nsubs EvStart (ei_id before) 1)
    else ei_eqb before after && list_eqb ev_eqb evs []
  else if (ei_start before <=? t) && (ei_cur_start before + ei_dur before <? t) then
    (ei_cur after =? ei_cur before + 1) && (ei_cur_start after =? ei_cur_start before + ei_dur before) &&
    list_eqb ev_eqb evs (fanout nsubs EvEnd (ei_id before) (ei_cur before) ++
                         fanout nsubs EvStart (ei_id before) (ei_cur before + 1))
  else ei_eqb before after && list_eqb ev_eqb evs [].

Fixpoint monitor_blocks (nsubs : nat) (prev : list epoch_info) (bs : list blk) (i : nat) : option nat :=
  match bs with
  | [] => None
  | b :: r =>
      let ok :=
        (Nat.eqb (List.length prev) (List.length (b_infos b))) &&
        forallb (fun before =>
                   match find_info (ei_id before) (b_infos b) with
                   | None => false
                   | Some after => step_ok nsubs (b_time b) before after (events_of (ei_id before) (b_events b))
                   end) prev &&
        (* no event for an unknown identifier *)
        forallb (fun e => match find_info (ev_id e) prev with Some _ => true | None => false end) (b_events b)
      in
      if ok then monitor_blocks nsubs (b_infos b) r (S i) else Some i
  end.

Definition monitor_case (c : case) : option nat :=
  if negb (list_eqb String.eqb (c_subs c) subscribers) then Some 0%nat
  else monitor_blocks (List.length (c_subs c)) (c_after_gen c) (c_blocks c) 2.

(* ================================================================================================
   Whole-history vocabulary (used by the theorems of Props.v and by the whole-history monitors)
   ================================================================================================ *)

(* the trajectory of ONE epoch info over a list of blocks (height, time) *)
Fixpoint run1 (nsubs : nat) (e : epoch_info) (blocks : list (Z * Z)) : epoch_info * list (list event) :=
  match blocks with
  | [] => (e, [])
  | (h, t) :: r =>
      let '(e', ev) := tick nsubs h t e in
      let '(e'', evs) := run1 nsubs e' r in
      (e'', ev :: evs)
  end.

Definition infos (st : store epoch_info) : list epoch_info := map snd st.
Definition ids (st : store epoch_info) : list string := map (fun p => ei_id (snd p)) st.

(* the entry of identifier [id] in a store *)
Definition entry (id : string) (st : store epoch_info) : option epoch_info := find_info id (infos st).

(* projection of a run on one identifier: its final entry and, per block, its notifications *)
Definition proj (id : string) (r : store epoch_info * list (list event)) : option epoch_info * list (list event) :=
  (entry id (fst r), map (events_of id) (snd r)).

(* the store with every other identifier removed *)
Definition only (id : string) (st : store epoch_info) : store epoch_info :=
  filter (fun p => String.eqb (ei_id (snd p)) id) st.

(* the whole notification log of one identifier over a history *)
Definition log_of (id : string) (evs : list (list event)) : list event := List.concat (map (events_of id) evs).

Fixpoint distinctb (l : list string) : bool :=
  match l with
  | [] => true
  | a :: r => negb (existsb (String.eqb a) r) && distinctb r
  end.

(* identifiers are pairwise distinct (every entry is stored under its identifier) *)
Definition store_ok (st : store epoch_info) : bool := distinctb (ids st).

(* block heights are non-negative (they are >= 1 on a chain) and block times do not decrease *)
Fixpoint times_ok (blocks : list (Z * Z)) : bool :=
  match blocks with
  | [] => true
  | (h, t) :: r =>
      (0 <=? h) && forallb (fun b => t <=? snd b) r && times_ok r
  end.

(* end(c) start(c+1) end(c+1) start(c+2) ... : k consecutive epoch changes starting from number c,
   every notification fanned out to subscribers 0..nsubs-1 in order *)
Fixpoint pairs (nsubs : nat) (id : string) (c : Z) (k : nat) : list event :=
  match k with
  | O => []
  | S k' => fanout nsubs EvEnd id c ++ fanout nsubs EvStart id (c + 1) ++ pairs nsubs id (c + 1) k'
  end.

(* the notification log an identifier must have produced between entry [e0] (before) and [ef] (after) *)
Definition expected_log (nsubs : nat) (e0 ef : epoch_info) : list event :=
  if ei_started e0 then pairs nsubs (ei_id e0) (ei_cur e0) (Z.to_nat (ei_cur ef - ei_cur e0))
  else if ei_started ef then
    fanout nsubs EvStart (ei_id e0) 1 ++ pairs nsubs (ei_id e0) 1 (Z.to_nat (ei_cur ef - 1))
  else [].

(* position of a notification in the per-identifier order: start(1) < end(1) < start(2) < end(2) < ...,
   and within one notification subscriber 0 < 1 < ... *)
Definition ev_rank (nsubs : nat) (e : event) : Z :=
  (2 * ev_num e + match ev_k e with EvStart => 0 | EvEnd => 1 end) * Z.of_nat nsubs + Z.of_nat (ev_sub e).

(* the start-time law and the shape of a started counter *)
Definition clock_inv (e : epoch_info) : Prop :=
  ei_started e = true -> 1 <= ei_cur e /\ ei_cur_start e = ei_start e + (ei_cur e - 1) * ei_dur e.

Definition clock_invb (e : epoch_info) : bool :=
  negb (ei_started e) || ((1 <=? ei_cur e) && (ei_cur_start e =? ei_start e + (ei_cur e - 1) * ei_dur e)).

(* ---- whole-history monitor: parses the OBSERVED log of one identifier ---- *)
Fixpoint strip_prefix (p l : list event) : option (list event) :=
  match p with
  | [] => Some l
  | a :: p' => match l with
               | [] => None
               | b :: l' => if ev_eqb a b then strip_prefix p' l' else None
               end
  end.

(* consumes end(c) start(c+1) end(c+1) start(c+2) ... and returns the last number started *)
Fixpoint pairs_ok (fuel : nat) (nsubs : nat) (id : string) (c : Z) (log : list event) : option Z :=
  match log with
  | [] => Some c
  | _ :: _ =>
      match fuel with
      | O => None
      | S f =>
          match strip_prefix (fanout nsubs EvEnd id c ++ fanout nsubs EvStart id (c + 1)) log with
          | Some rest => pairs_ok f nsubs id (c + 1) rest
          | None => None
          end
      end
  end.

(* The hook-sequence statement of C15 for one identifier over a whole history, as a boolean on
   observations only: [e0] = entry before the history, [ef] = entry after it, [log] = every notification
   of that identifier in delivery order. *)
Definition hook_hist_ok (nsubs : nat) (e0 ef : epoch_info) (log : list event) : bool :=
  if ei_started e0 then
    match pairs_ok (List.length log) nsubs (ei_id e0) (ei_cur e0) log with
    | Some c => (c =? ei_cur ef) && ei_started ef
    | None => false
    end
  else if ei_started ef then
    match strip_prefix (fanout nsubs EvStart (ei_id e0) 1) log with
    | Some rest =>
        match pairs_ok (List.length rest) nsubs (ei_id e0) 1 rest with
        | Some c => c =? ei_cur ef
        | None => false
        end
    | None => false
    end
  else match log with [] => ei_eqb e0 ef | _ :: _ => false end.

Fixpoint last_infos (d : list epoch_info) (bs : list blk) : list epoch_info :=
  match bs with
  | [] => d
  | b :: r => last_infos (b_infos b) r
  end.

(* observed per-identifier facts that only make sense over a whole history *)
Definition hist_ok (nsubs : nat) (init : list epoch_info) (bs : list blk) : bool :=
  let fin := last_infos init bs in
  let evs := map b_events bs in
  distinctb (map ei_id init) &&
  forallb (fun e0 =>
             match find_info (ei_id e0) fin with
             | None => false
             | Some ef =>
                 hook_hist_ok nsubs e0 ef (log_of (ei_id e0) evs) &&
                 (* configuration frozen *)
                 (ei_start ef =? ei_start e0) && (ei_dur ef =? ei_dur e0) &&
                 (* start-time law, for entries that satisfied it before the history *)
                 (negb (clock_invb e0) || clock_invb ef) &&
                 (* invalid entries are frozen *)
                 (validate e0 || ei_eqb e0 ef) &&
                 (* never decreases, at most one epoch per block (C15_monotone) *)
                 (if ei_started e0 || (ei_cur e0 =? 0)
                  then (ei_cur e0 <=? ei_cur ef) && (ei_cur ef <=? ei_cur e0 + Z.of_nat (List.length bs))
                  else true) &&
                 (negb (ei_started e0) || ei_started ef)
             end) init.

(* Some 1 = a whole-history statement is false; block-level failures are reported by monitor_case *)
Definition monitor_hist_case (c : case) : option nat :=
  if negb (list_eqb String.eqb (c_subs c) subscribers) then Some 0%nat
  else if hist_ok (List.length (c_subs c)) (c_after_gen c) (c_blocks c) then None else Some 1%nat.

(* ---- second suite: the REAL application's BeginBlock (all real hooks wired as in app.go) ----
   The harness observes AllEpochInfos before the segment and after every block. Hook invocations are
   observed on the REAL hooks: every element of the app's MultiEpochHooks slice is wrapped in place by a
   recorder that logs (kind, identifier, number, position) and then calls the real hook. [a_abci] holds, per
   block, the epoch_end / epoch_start ABCI events of BeginBlock (one per notification, recorded with
   ev_sub = 0). [a_subs] is the hook order read from the app by reflection before wrapping. *)
Record acase := mkACase { a_subs : list string; a_init : list epoch_info; a_blocks : list blk;
                          a_abci : list (list event) }.

Definition store_of (l : list epoch_info) : store epoch_info := map (fun e => (ei_id e, e)) l.

Definition sub0 (l : list event) : list event := filter (fun e => Nat.eqb (ev_sub e) 0) l.

(* the emitted ABCI events are what the model delivers to subscriber 0 *)
Fixpoint check_abci (nsubs : nat) (st : store epoch_info) (bs : list blk) (abci : list (list event)) (i : nat)
  : option nat :=
  match bs, abci with
  | [], [] => None
  | b :: r, a :: ar =>
      let '(st', ev) := begin_block nsubs (b_height b) (b_time b) st in
      if list_eqb ev_eqb (sub0 ev) a then check_abci nsubs st' r ar (S i) else Some i
  | _, _ => Some i
  end.

Definition check_acase (c : acase) : option nat :=
  if negb (list_eqb String.eqb (a_subs c) subscribers) then Some 0%nat
  else match check_blocks (List.length subscribers) (store_of (a_init c)) (a_blocks c) 2 with
       | Some i => Some i
       | None => check_abci (List.length subscribers) (store_of (a_init c)) (a_blocks c) (a_abci c) 2
       end.

(* observation-only: emitted events = notifications delivered to the first subscriber, block by block *)
Fixpoint abci_ok (bs : list blk) (abci : list (list event)) (i : nat) : option nat :=
  match bs, abci with
  | [], [] => None
  | b :: r, a :: ar => if list_eqb ev_eqb (sub0 (b_events b)) a then abci_ok r ar (S i) else Some i
  | _, _ => Some i
  end.

Definition monitor_acase (c : acase) : option nat :=
  if negb (list_eqb String.eqb (a_subs c) subscribers) then Some 0%nat
  else match monitor_blocks (List.length (a_subs c)) (a_init c) (a_blocks c) 2 with
       | Some i => Some i
       | None =>
           if hist_ok (List.length (a_subs c)) (a_init c) (a_blocks c)
           then abci_ok (a_blocks c) (a_abci c) 2 else Some 1%nat
       end.
