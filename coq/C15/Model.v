(* C15/Model.v — executable model of x/epochs: AddEpochInfo / InitGenesis / BeginBlocker / MultiEpochHooks.
   Transcribed from x/epochs/keeper/{abci.go,epoch_infos.go,genesis.go}, x/epochs/types/{genesis.go,hooks.go}.
   Times are Z nanoseconds since the Unix epoch (Go's zero time.Time is [zero_time]); durations are Z ns.
   No proofs here: the model must still run when a proof breaks. *)
From Coq Require Import List String Ascii Bool ZArith Lia.
From Exo Require Import Base.Store Base.Util.
Import ListNotations.
Local Open Scope Z_scope.
Local Open Scope list_scope.

Record epoch_info := mkEI {
  ei_id : string;
  ei_start : Z;         (* StartTime *)
  ei_dur : Z;           (* Duration *)
  ei_cur : Z;           (* CurrentEpoch *)
  ei_cur_start : Z;     (* CurrentEpochStartTime *)
  ei_started : bool;    (* EpochCountingStarted *)
  ei_cur_height : Z     (* CurrentEpochStartHeight *)
}.

Inductive ev_kind := EvEnd | EvStart.
Record event := mkEv { ev_k : ev_kind; ev_id : string; ev_num : Z; ev_sub : nat }.

(* time.Time{} : 0001-01-01T00:00:00Z *)
Definition zero_time : Z := -62135596800000000000.

(* EpochInfo.Validate *)
Definition validate (e : epoch_info) : bool :=
  negb (String.eqb (ei_id e) "") && (0 <? ei_dur e) && (0 <=? ei_cur e) && (0 <=? ei_cur_height e).

(* AddEpochInfo at block height h / block time t; InitGenesis ignores the error, so a rejected entry
   leaves the store unchanged. *)
Definition add_epoch_info (h t : Z) (st : store epoch_info) (e : epoch_info) : store epoch_info :=
  if negb (validate e) then st
  else match sget st (ei_id e) with
       | Some _ => st
       | None =>
           let s1 := if ei_start e =? zero_time then t else ei_start e in
           let h1 := if ei_cur_height e =? 0 then h else ei_cur_height e in
           sset st (ei_id e)
             (mkEI (ei_id e) s1 (ei_dur e) (ei_cur e) (ei_cur_start e) (ei_started e) h1)
       end.

Definition init_genesis (h t : Z) (l : list epoch_info) : store epoch_info :=
  fold_left (add_epoch_info h t) l [].

(* MultiEpochHooks: subscribers 0 .. n-1 in registration order *)
Definition fanout (nsubs : nat) (k : ev_kind) (id : string) (num : Z) : list event :=
  map (fun i => mkEv k id num i) (seq 0 nsubs).

(* the body of the closure in BeginBlocker, for one epoch info *)
Definition tick (nsubs : nat) (h t : Z) (e : epoch_info) : epoch_info * list event :=
  if negb (validate e) then (e, [])
  else if t <? ei_start e then (e, [])
  else
    let end_time := ei_cur_start e + ei_dur e in
    let first := negb (ei_started e) in
    let ending := end_time <? t in
    if negb (ending || first) then (e, [])
    else if first then
      (mkEI (ei_id e) (ei_start e) (ei_dur e) 1 (ei_start e) true h,
       fanout nsubs EvStart (ei_id e) 1)
    else
      (mkEI (ei_id e) (ei_start e) (ei_dur e) (ei_cur e + 1) end_time true h,
       fanout nsubs EvEnd (ei_id e) (ei_cur e) ++ fanout nsubs EvStart (ei_id e) (ei_cur e + 1)).

(* BeginBlocker: walk the store in key order; every write goes to the key of the entry just read
   (setEpochInfoUnchecked keys by Identifier, and every stored entry is keyed by its Identifier). *)
Fixpoint begin_block (nsubs : nat) (h t : Z) (st : store epoch_info) : store epoch_info * list event :=
  match st with
  | [] => ([], [])
  | (k, e) :: r =>
      let '(e', ev) := tick nsubs h t e in
      let '(r', evs) := begin_block nsubs h t r in
      ((k, e') :: r', ev ++ evs)
  end.

(* the application's subscriber order (app/app.go, EpochsKeeper.SetHooks) *)
Definition subscribers : list string :=
  ["feedistribution"; "operator"; "dogfood"; "exomint"; "avs"]%string.

(* ---- run over a history of blocks ---- *)
Fixpoint run (nsubs : nat) (st : store epoch_info) (blocks : list (Z * Z)) : store epoch_info * list (list event) :=
  match blocks with
  | [] => (st, [])
  | (h, t) :: r =>
      let '(st', ev) := begin_block nsubs h t st in
      let '(st'', evs) := run nsubs st' r in
      (st'', ev :: evs)
  end.

(* ---- correspondence cases (written by the harness) ---- *)
Record blk := mkBlk { b_height : Z; b_time : Z; b_events : list event; b_infos : list epoch_info }.
Record case := mkCase {
  c_subs : list string; c_gen_height : Z; c_gen_time : Z;
  c_genesis : list epoch_info; c_after_gen : list epoch_info; c_blocks : list blk }.

Definition ei_eqb (a b : epoch_info) : bool :=
  String.eqb (ei_id a) (ei_id b) && (ei_start a =? ei_start b) && (ei_dur a =? ei_dur b) &&
  (ei_cur a =? ei_cur b) && (ei_cur_start a =? ei_cur_start b) &&
  Bool.eqb (ei_started a) (ei_started b) && (ei_cur_height a =? ei_cur_height b).

Definition kind_eqb (a b : ev_kind) : bool :=
  match a, b with EvEnd, EvEnd | EvStart, EvStart => true | _, _ => false end.

Definition ev_eqb (a b : event) : bool :=
  kind_eqb (ev_k a) (ev_k b) && String.eqb (ev_id a) (ev_id b) && (ev_num a =? ev_num b) &&
  Nat.eqb (ev_sub a) (ev_sub b).

(* None = the implementation did what the model does; Some i = first disagreement at step i
   (0 = subscriber order, 1 = state after genesis, i+2 = block i) *)
Fixpoint check_blocks (nsubs : nat) (st : store epoch_info) (bs : list blk) (i : nat) : option nat :=
  match bs with
  | [] => None
  | b :: r =>
      let '(st', ev) := begin_block nsubs (b_height b) (b_time b) st in
      if list_eqb ev_eqb ev (b_events b) && list_eqb ei_eqb (map snd st') (b_infos b)
      then check_blocks nsubs st' r (S i) else Some i
  end.

Definition check_case (c : case) : option nat :=
  if negb (list_eqb String.eqb (c_subs c) subscribers) then Some 0%nat
  else
    let st := init_genesis (c_gen_height c) (c_gen_time c) (c_genesis c) in
    if negb (list_eqb ei_eqb (map snd st) (c_after_gen c)) then Some 1%nat
    else check_blocks (List.length subscribers) st (c_blocks c) 2.

(* ---- property monitors evaluated on the IMPLEMENTATION's observed trace (no model state used) ---- *)

(* per-identifier observed step: info before, info after, events of that identifier, block time *)
Definition find_info (id : string) (l : list epoch_info) : option epoch_info :=
  find (fun e => String.eqb (ei_id e) id) l.

Definition events_of (id : string) (l : list event) : list event :=
  filter (fun e => String.eqb (ev_id e) id) l.

(* The statement of C15 for one identifier across one block, as a boolean on observations only. *)
Definition step_ok (nsubs : nat) (t : Z) (before after : epoch_info) (evs : list event) : bool :=
  if negb (validate before) then ei_eqb before after && list_eqb ev_eqb evs []
  else if negb (ei_started before) then
    if ei_start before <=? t then
      (ei_cur after =? 1) && ei_started after && (ei_cur_start after =? ei_start before) &&
      list_eqb ev_eqb evs (fanout nsubs EvStart (ei_id before) 1)
    else ei_eqb before after && list_eqb ev_eqb evs []
  else if (ei_start before <=? t) && (ei_cur_start before + ei_dur before <? t) then
    (ei_cur after =? ei_cur before + 1) && (ei_cur_start after =? ei_cur_start before + ei_dur before) &&
    list_eqb ev_eqb evs (fanout nsubs EvEnd (ei_id before) (ei_cur before) ++
                         fanout nsubs EvStart (ei_id before) (ei_cur before + 1))
  else ei_eqb before after && list_eqb ev_eqb evs [].

Fixpoint monitor_blocks (nsubs : nat) (prev : list epoch_info) (bs : list blk) (i : nat) : option nat :=
  match bs with
  | [] => None
  | b :: r =>
      let ok :=
        (Nat.eqb (List.length prev) (List.length (b_infos b))) &&
        forallb (fun before =>
                   match find_info (ei_id before) (b_infos b) with
                   | None => false
                   | Some after => step_ok nsubs (b_time b) before after (events_of (ei_id before) (b_events b))
                   end) prev &&
        (* no event for an unknown identifier *)
        forallb (fun e => match find_info (ev_id e) prev with Some _ => true | None => false end) (b_events b)
      in
      if ok then monitor_blocks nsubs (b_infos b) r (S i) else Some i
  end.

Definition monitor_case (c : case) : option nat :=
  if negb (list_eqb String.eqb (c_subs c) subscribers) then Some 0%nat
  else monitor_blocks (List.length (c_subs c)) (c_after_gen c) (c_blocks c) 2.

