(* C15/ProofsCatchup.v — "a stalled chain catches up one epoch per block", as a statement over a whole
   run of blocks: while the chain is at least k epochs behind, k blocks advance the number by exactly k
   (never more, never fewer) and deliver end(n), start(n+1) for n = cur .. cur+k-1, one pair per block. *)
From Coq Require Import List String Bool ZArith Lia.
From Exo Require Import Base.Store Base.Util C15.Model C15.Proofs C15.ProofsHist C15.ProofsThm.
Import ListNotations.
Local Open Scope Z_scope.
Local Open Scope list_scope.

(* every block of [blocks] is late by at least the number of blocks that remain, counted from [e] *)
Fixpoint behind (e_cur_start dur start : Z) (blocks : list (Z * Z)) : Prop :=
  match blocks with
  | [] => True
  | (h, t) :: r => 0 <= h /\ start <= t /\ e_cur_start + dur < t /\ behind (e_cur_start + dur) dur start r
  end.

(* the per-block notifications of a catch-up run *)
Fixpoint catchup_events (nsubs : nat) (id : string) (cur : Z) (k : nat) : list (list event) :=
  match k with
  | O => []
  | S k' => (fanout nsubs EvEnd id cur ++ fanout nsubs EvStart id (cur + 1)) ::
            catchup_events nsubs id (cur + 1) k'
  end.

Lemma catchup_run1 nsubs blocks : forall e,
  validate e = true -> ei_started e = true ->
  behind (ei_cur_start e) (ei_dur e) (ei_start e) blocks ->
  let r := run1 nsubs e blocks in
  ei_cur (fst r) = ei_cur e + Z.of_nat (List.length blocks) /\
  ei_cur_start (fst r) = ei_cur_start e + Z.of_nat (List.length blocks) * ei_dur e /\
  ei_started (fst r) = true /\
  snd r = catchup_events nsubs (ei_id e) (ei_cur e) (List.length blocks).
Proof.
  induction blocks as [|[h t] r IH]; intros e V St B.
  - cbn. repeat split; try lia; exact St.
  - cbn [behind] in B. destruct B as (Hh & Hs & Hlate & B).
    rewrite run1_cons. rewrite (tick_advance nsubs h t e V St Hs Hlate).
    set (e1 := mkEI (ei_id e) (ei_start e) (ei_dur e) (ei_cur e + 1) (ei_cur_start e + ei_dur e) true h).
    assert (V1 : validate e1 = true).
    { pose proof (tick_valid nsubs h t e Hh V) as X.
      rewrite (tick_advance nsubs h t e V St Hs Hlate) in X. exact X. }
    specialize (IH e1 V1 eq_refl B).
    cbn zeta in IH. destruct IH as (I1 & I2 & I3 & I4).
    cbn [fst snd]. cbn [List.length catchup_events].
    rewrite I1, I2, I3, I4. cbn [ei_cur ei_cur_start ei_dur ei_id e1].
    repeat split; try lia; try reflexivity.
Qed.

(* the same through the whole store: other identifiers do not matter *)
Theorem catchup_thm nsubs st blocks id e :
  store_ok st = true -> entry id st = Some e ->
  validate e = true -> ei_started e = true ->
  behind (ei_cur_start e) (ei_dur e) (ei_start e) blocks ->
  exists e', entry id (fst (run nsubs st blocks)) = Some e' /\
    ei_cur e' = ei_cur e + Z.of_nat (List.length blocks) /\
    ei_cur_start e' = ei_cur_start e + Z.of_nat (List.length blocks) * ei_dur e /\
    log_of id (snd (run nsubs st blocks)) =
      List.concat (catchup_events nsubs id (ei_cur e) (List.length blocks)).
Proof.
  intros D E V St B.
  exists (fst (run1 nsubs e blocks)).
  pose proof (catchup_run1 nsubs blocks e V St B) as H. cbn zeta in H.
  destruct H as (H1 & H2 & _ & H4).
  split; [apply entry_run; exact E|].
  split; [exact H1|]. split; [exact H2|].
  rewrite (log_of_run nsubs blocks st id e D E), H4.
  rewrite (entry_some id st e E). reflexivity.
Qed.

(* a uniform sufficient condition: every block time is later than k whole durations after the current
   epoch's start (a chain that was down for more than k epochs and then produces k blocks) *)
Lemma behind_uniform dur start : 0 < dur -> forall blocks cs,
  (forall b, In b blocks -> 0 <= fst b /\ start <= snd b /\
                            cs + Z.of_nat (List.length blocks) * dur < snd b) ->
  behind cs dur start blocks.
Proof.
  intro Hd. induction blocks as [|[h t] r IH]; intros cs H; cbn [behind]; [exact I|].
  assert (Hin : In (h, t) ((h, t) :: r)) by (left; reflexivity).
  destruct (H _ Hin) as (A & B & C). cbn [fst snd] in A, B, C.
  cbn [List.length] in C. rewrite Nat2Z.inj_succ in C.
  repeat split; try lia.
  apply IH. intros b Hb.
  destruct (H b (or_intror Hb)) as (A' & B' & C').
  cbn [List.length] in C'. rewrite Nat2Z.inj_succ in C'. repeat split; lia.
Qed.

Theorem catchup_uniform_thm nsubs st blocks id e :
  store_ok st = true -> entry id st = Some e -> validate e = true -> ei_started e = true ->
  (forall b, In b blocks -> 0 <= fst b /\ ei_start e <= snd b /\
                            ei_cur_start e + Z.of_nat (List.length blocks) * ei_dur e < snd b) ->
  exists e', entry id (fst (run nsubs st blocks)) = Some e' /\
    ei_cur e' = ei_cur e + Z.of_nat (List.length blocks) /\
    ei_cur_start e' = ei_cur_start e + Z.of_nat (List.length blocks) * ei_dur e /\
    log_of id (snd (run nsubs st blocks)) =
      List.concat (catchup_events nsubs id (ei_cur e) (List.length blocks)).
Proof.
  intros D E V St H. apply catchup_thm; try assumption.
  apply behind_uniform; [|exact H].
  unfold validate in V. apply andb_prop in V. destruct V as (V & _).
  apply andb_prop in V. destruct V as (V & _). apply andb_prop in V. destruct V as (_ & V).
  apply Z.ltb_lt in V. exact V.
Qed.

(* non-vacuity: a one-hour identifier that is three epochs behind catches up in three blocks *)
Example catchup_example :
  let e := mkEI "hour" 0 3600 5 (4 * 3600) true 10 in
  let blocks := [(11, 8 * 3600 + 1); (12, 8 * 3600 + 1); (13, 8 * 3600 + 2)] in
  validate e = true /\ behind (ei_cur_start e) (ei_dur e) (ei_start e) blocks /\
  ei_cur (fst (run1 5 e blocks)) = 8.
Proof. cbn. repeat split; lia. Qed.
