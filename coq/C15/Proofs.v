(* C15/Proofs.v — lemmas about the epoch-clock model. *)
From Coq Require Import List String Ascii Bool ZArith Lia Sorting.Sorted.
From Exo Require Import Base.Store Base.Util C15.Model.
Import ListNotations.
Local Open Scope Z_scope.
Local Open Scope list_scope.

(* ---------- boolean equalities are reflexive / sound ---------- *)
Lemma ei_eqb_refl e : ei_eqb e e = true.
Proof.
  unfold ei_eqb. rewrite String.eqb_refl, !Z.eqb_refl, Bool.eqb_reflx. reflexivity.
Qed.

Lemma ei_eqb_eq a b : ei_eqb a b = true -> a = b.
Proof.
  unfold ei_eqb. intro H.
  repeat match goal with H : _ && _ = true |- _ => apply andb_prop in H; destruct H end.
  destruct a, b; simpl in *.
  repeat match goal with
         | H : String.eqb _ _ = true |- _ => apply String.eqb_eq in H
         | H : Z.eqb _ _ = true |- _ => apply Z.eqb_eq in H
         | H : Bool.eqb _ _ = true |- _ => apply Bool.eqb_prop in H
         end.
  subst. reflexivity.
Qed.

Lemma ev_eqb_refl e : ev_eqb e e = true.
Proof.
  unfold ev_eqb. rewrite String.eqb_refl, Z.eqb_refl, Nat.eqb_refl.
  destruct (ev_k e); reflexivity.
Qed.

(* ---------- one tick satisfies the property statement (the monitor's step_ok) ---------- *)
Theorem tick_step_ok nsubs h t e :
  step_ok nsubs t e (fst (tick nsubs h t e)) (snd (tick nsubs h t e)) = true.
Proof.
  unfold step_ok, tick.
  destruct (validate e) eqn:V; simpl.
  2:{ rewrite ei_eqb_refl. reflexivity. }
  destruct (t <? ei_start e) eqn:Hs.
  - apply Z.ltb_lt in Hs.
    assert (ei_start e <=? t = false) as -> by (apply Z.leb_gt; lia).
    simpl. destruct (ei_started e); simpl; rewrite ei_eqb_refl; reflexivity.
  - apply Z.ltb_ge in Hs.
    assert (ei_start e <=? t = true) as -> by (apply Z.leb_le; lia).
    destruct (ei_started e) eqn:St; simpl.
    + destruct (ei_cur_start e + ei_dur e <? t) eqn:En; simpl.
      * rewrite !Z.eqb_refl. simpl. apply list_eqb_refl. apply ev_eqb_refl.
      * rewrite ei_eqb_refl. reflexivity.
    + rewrite Bool.orb_true_r. simpl. rewrite !Z.eqb_refl. simpl.
      apply list_eqb_refl. apply ev_eqb_refl.
Qed.

(* ---------- explicit case analysis of a tick ---------- *)
Lemma tick_invalid nsubs h t e : validate e = false -> tick nsubs h t e = (e, []).
Proof. unfold tick. intros ->. reflexivity. Qed.

Lemma tick_before_start nsubs h t e : t < ei_start e -> tick nsubs h t e = (e, []).
Proof.
  unfold tick. intro H. destruct (validate e); simpl; [|reflexivity].
  apply Z.ltb_lt in H. rewrite H. reflexivity.
Qed.

Lemma tick_first nsubs h t e :
  validate e = true -> ei_started e = false -> ei_start e <= t ->
  tick nsubs h t e =
    (mkEI (ei_id e) (ei_start e) (ei_dur e) 1 (ei_start e) true h, fanout nsubs EvStart (ei_id e) 1).
Proof.
  unfold tick. intros -> St H. simpl.
  assert (t <? ei_start e = false) as -> by (apply Z.ltb_ge; lia).
  rewrite St. simpl. rewrite Bool.orb_true_r. reflexivity.
Qed.

Lemma tick_advance nsubs h t e :
  validate e = true -> ei_started e = true -> ei_start e <= t -> ei_cur_start e + ei_dur e < t ->
  tick nsubs h t e =
    (mkEI (ei_id e) (ei_start e) (ei_dur e) (ei_cur e + 1) (ei_cur_start e + ei_dur e) true h,
     fanout nsubs EvEnd (ei_id e) (ei_cur e) ++ fanout nsubs EvStart (ei_id e) (ei_cur e + 1)).
Proof.
  unfold tick. intros -> St H1 H2. simpl.
  assert (t <? ei_start e = false) as -> by (apply Z.ltb_ge; lia).
  rewrite St. simpl.
  assert (ei_cur_start e + ei_dur e <? t = true) as -> by (apply Z.ltb_lt; lia).
  reflexivity.
Qed.

Lemma tick_stay nsubs h t e :
  ei_started e = true -> t <= ei_cur_start e + ei_dur e -> tick nsubs h t e = (e, []).
Proof.
  unfold tick. intros St H. destruct (validate e); simpl; [|reflexivity].
  destruct (t <? ei_start e); [reflexivity|].
  rewrite St. simpl.
  assert (ei_cur_start e + ei_dur e <? t = false) as -> by (apply Z.ltb_ge; lia).
  reflexivity.
Qed.

(* the number moves by 0 or +1 per block (catch-up is one epoch per block), or is reset to 1 by the first tick *)
Lemma tick_number nsubs h t e :
  let e' := fst (tick nsubs h t e) in
  (e' = e /\ snd (tick nsubs h t e) = []) \/
  (ei_started e = true /\ ei_cur e' = ei_cur e + 1) \/
  (ei_started e = false /\ ei_cur e' = 1).
Proof.
  unfold tick. destruct (validate e); simpl; [|left; auto].
  destruct (t <? ei_start e); simpl; [left; auto|].
  destruct (ei_started e); simpl.
  - destruct (ei_cur_start e + ei_dur e <? t); simpl; [right; left; auto | left; auto].
  - rewrite Bool.orb_true_r. simpl. right; right; auto.
Qed.

(* identity / configuration of an identifier never changes *)
