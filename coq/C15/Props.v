(* C15/Props.v — property theorems only (proofs: Proofs.v, ProofsHist.v, ProofsThm.v, ProofsCatchup.v).
   Vocabulary (Model.v): [run nsubs st blocks] = BeginBlocker applied over the blocks (height, time) to the
   store [st]; it returns the final store and, per block, the hook invocations in delivery order.
   [entry id st] = the epoch info of identifier [id]; [log_of id evs] = all notifications of [id] over the
   history; [store_ok] = identifiers pairwise distinct; [times_ok] = heights >= 0, times non-decreasing. *)
From Coq Require Import List String ZArith Sorting.Sorted.
From Exo Require Import Base.Store C15.Model C15.Proofs C15.ProofsHist C15.ProofsThm C15.ProofsCatchup.
Import ListNotations.
Local Open Scope Z_scope.

(* one block: the model's tick satisfies the per-block statement that the monitor evaluates *)
Theorem C15_tick_meets_statement : forall nsubs h t e,
  step_ok nsubs t e (fst (tick nsubs h t e)) (snd (tick nsubs h t e)) = true.
Proof. exact tick_step_ok. Qed.
Print Assumptions C15_tick_meets_statement.

(* While every block time is before the start time the entry is untouched and nobody is notified; in the
   first block at or after the start time the number becomes 1, the epoch starts at StartTime, and exactly
   start(1) is delivered to subscribers 0..nsubs-1 in order. *)
Theorem C15_first : forall nsubs st pre h t id e,
  store_ok st = true -> entry id st = Some e -> validate e = true -> ei_started e = false ->
  (forall b, In b pre -> snd b < ei_start e) ->
  entry id (fst (run nsubs st pre)) = Some e /\ log_of id (snd (run nsubs st pre)) = [] /\
  (ei_start e <= t ->
   entry id (fst (begin_block nsubs h t (fst (run nsubs st pre)))) = Some (first_of h e) /\
   events_of id (snd (begin_block nsubs h t (fst (run nsubs st pre)))) = fanout nsubs EvStart id 1).
Proof. exact first_thm. Qed.
Print Assumptions C15_first.

(* After any history [pre], in the next block (h,t): a started entry advances by exactly one — new start
   time = old start time + duration, end(n) then start(n+1) delivered — iff t > current start + duration;
   otherwise the entry is unchanged and nobody is notified. One tick per block, hence catch-up one epoch
   per block. The side condition [ei_start e <= t] is automatic for entries that were unstarted at genesis. *)
Theorem C15_tick : forall nsubs st pre h t id e,
  store_ok st = true -> entry id st = Some e -> validate e = true ->
  times_ok (pre ++ [(h, t)]) = true ->
  exists e1, entry id (fst (run nsubs st pre)) = Some e1 /\
    ei_id e1 = id /\ ei_start e1 = ei_start e /\ ei_dur e1 = ei_dur e /\
    (ei_started e1 = true -> (ei_started e = false \/ ei_start e <= t) ->
     let b := begin_block nsubs h t (fst (run nsubs st pre)) in
     (ei_cur_start e1 + ei_dur e < t /\ entry id (fst b) = Some (next_of h e1) /\
      events_of id (snd b) =
        fanout nsubs EvEnd id (ei_cur e1) ++ fanout nsubs EvStart id (ei_cur e1 + 1))
     \/
     (t <= ei_cur_start e1 + ei_dur e /\ entry id (fst b) = Some e1 /\ events_of id (snd b) = [])).
Proof. exact tick_thm. Qed.
Print Assumptions C15_tick.

(* The n-th epoch starts at StartTime + (n-1) x Duration, over every history (no hypothesis on times),
   for entries that satisfy the law initially — in particular every entry that is unstarted at genesis. *)
Theorem C15_start_time : forall nsubs st blocks id e,
  entry id st = Some e -> clock_inv e ->
  exists e', entry id (fst (run nsubs st blocks)) = Some e' /\
    ei_id e' = ei_id e /\ ei_start e' = ei_start e /\ ei_dur e' = ei_dur e /\
    (ei_started e' = true ->
     1 <= ei_cur e' /\ ei_cur_start e' = ei_start e + (ei_cur e' - 1) * ei_dur e).
Proof. exact start_time_thm. Qed.
Print Assumptions C15_start_time.

(* The notification log of one identifier over a whole history is exactly
   [start(1)]? end(c) start(c+1) end(c+1) start(c+2) ... up to the final number, every notification
   fanned out to subscribers 0..nsubs-1 in order, end(n) immediately before start(n+1). *)
Theorem C15_hooks : forall nsubs st blocks id e,
  store_ok st = true -> entry id st = Some e ->
  exists e', entry id (fst (run nsubs st blocks)) = Some e' /\
             log_of id (snd (run nsubs st blocks)) = expected_log nsubs e e'.
Proof. exact hooks_thm. Qed.
Print Assumptions C15_hooks.

(* ... hence strictly increasing in the order start(1) < end(1) < start(2) < ... (subscriber index as
   the minor key), and no (kind, number, subscriber) is ever delivered twice. *)
Theorem C15_hooks_once_in_order : forall nsubs st blocks id e,
  store_ok st = true -> entry id st = Some e ->
  StronglySorted Z.lt (map (ev_rank nsubs) (log_of id (snd (run nsubs st blocks)))) /\
  NoDup (log_of id (snd (run nsubs st blocks))).
Proof. exact hooks_ordered_thm. Qed.
Print Assumptions C15_hooks_once_in_order.

(* The boolean that the whole-history monitor evaluates on the implementation's observed log holds of
   the model for every history. *)
Theorem C15_hooks_monitor : forall nsubs st blocks id e,
  (0 < nsubs)%nat -> store_ok st = true -> entry id st = Some e ->
  exists e', entry id (fst (run nsubs st blocks)) = Some e' /\
             hook_hist_ok nsubs e e' (log_of id (snd (run nsubs st blocks))) = true.
Proof. exact hooks_monitor_thm. Qed.
Print Assumptions C15_hooks_monitor.

(* Identifiers do not influence one another: the projection of a run on [id] is the same when every other
   entry is removed from the store, and it is the single-entry trajectory of [id]'s own entry. *)
Theorem C15_independent : forall nsubs st blocks id,
  store_ok st = true ->
  proj id (run nsubs st blocks) = proj id (run nsubs (only id st) blocks).
Proof. exact independent. Qed.
Print Assumptions C15_independent.

Theorem C15_independent_entry : forall nsubs blocks st id e,
  store_ok st = true -> entry id st = Some e ->
  proj id (run nsubs st blocks) = (Some (fst (run1 nsubs e blocks)), snd (run1 nsubs e blocks)).
Proof. exact run_proj_some. Qed.
Print Assumptions C15_independent_entry.

(* The number never decreases and never skips: over [mid] it grows by at most one per block; a started
   entry stays started. (An unstarted genesis entry with a non-zero number is reset to 1 by the first tick,
   as the statement says; see [reset_example].) *)
Theorem C15_monotone : forall nsubs st pre mid id e,
  entry id st = Some e -> (ei_started e = true \/ ei_cur e = 0) ->
  exists e1 e2,
    entry id (fst (run nsubs st pre)) = Some e1 /\
    entry id (fst (run nsubs st (pre ++ mid))) = Some e2 /\
    ei_cur e1 <= ei_cur e2 <= ei_cur e1 + Z.of_nat (List.length mid) /\
    0 <= ei_cur e1 - ei_cur e <= Z.of_nat (List.length pre) /\
    (ei_started e1 = true -> ei_started e2 = true).
Proof. exact monotone_thm. Qed.
Print Assumptions C15_monotone.

(* Entries that fail Validate are frozen; so is any entry while block times are before its start time. *)
Theorem C15_invalid_frozen : forall nsubs st blocks id e,
  store_ok st = true -> entry id st = Some e -> validate e = false ->
  entry id (fst (run nsubs st blocks)) = Some e /\ log_of id (snd (run nsubs st blocks)) = [].
Proof. exact invalid_frozen_thm. Qed.
Print Assumptions C15_invalid_frozen.

Theorem C15_held_before_start : forall nsubs st blocks id e,
  store_ok st = true -> entry id st = Some e ->
  (forall b, In b blocks -> snd b < ei_start e) ->
  entry id (fst (run nsubs st blocks)) = Some e /\ log_of id (snd (run nsubs st blocks)) = [].
Proof. exact held_before_start_thm. Qed.
Print Assumptions C15_held_before_start.

(* "A stalled chain catches up one epoch per block", over a whole run: if every one of the k blocks is
   later than k whole durations after the current epoch's start (the chain was down for more than k epochs),
   then after those k blocks the number is exactly cur + k, the current start time is cur_start + k x
   duration, and the notifications delivered are exactly end(n), start(n+1) for n = cur .. cur+k-1, one
   pair per block, fanned out to the subscribers in order; whatever the other identifiers do. *)
Theorem C15_catchup : forall nsubs st blocks id e,
  store_ok st = true -> entry id st = Some e -> validate e = true -> ei_started e = true ->
  (forall b, In b blocks -> 0 <= fst b /\ ei_start e <= snd b /\
                            ei_cur_start e + Z.of_nat (List.length blocks) * ei_dur e < snd b) ->
  exists e', entry id (fst (run nsubs st blocks)) = Some e' /\
    ei_cur e' = ei_cur e + Z.of_nat (List.length blocks) /\
    ei_cur_start e' = ei_cur_start e + Z.of_nat (List.length blocks) * ei_dur e /\
    log_of id (snd (run nsubs st blocks)) =
      List.concat (catchup_events nsubs id (ei_cur e) (List.length blocks)).
Proof. exact catchup_uniform_thm. Qed.
Print Assumptions C15_catchup.

(* ---------------- non-vacuity: the hypotheses are satisfiable and the histories are not trivial -------- *)
Definition ex_store : store epoch_info :=
  init_genesis 0 100 [ mkEI "hour" zero_time 60 0 zero_time false 0;
                       mkEI "minute" 130 10 0 zero_time false 0;
                       mkEI "bad" 100 0 0 zero_time false 0;          (* rejected by AddEpochInfo *)
                       mkEI "week" 50 7 4 71 true 3 ].                (* mid-count entry *)
Definition ex_blocks : list (Z * Z) := [(1, 101); (2, 101); (3, 130); (4, 141); (5, 200); (6, 200); (7, 201)].

Example ex_store_ok : store_ok ex_store = true. Proof. vm_compute. reflexivity. Qed.
Example ex_times_ok : times_ok ex_blocks = true. Proof. vm_compute. reflexivity. Qed.
Example ex_entries :
  map ei_id (infos ex_store) = ["hour"; "minute"; "week"]%string /\
  forallb validate (infos ex_store) = true /\ forallb clock_invb (infos ex_store) = true.
Proof. vm_compute. auto. Qed.
Example ex_minute : exists e, entry "minute" ex_store = Some e /\ validate e = true /\ ei_started e = false /\
  ei_start e = 130 /\ (forall b, In b [(1, 101); (2, 101)] -> snd b < ei_start e).
Proof.
  eexists. split; [vm_compute; reflexivity|]. simpl. repeat split; auto.
  intros b [<-|[<-|[]]]; simpl; reflexivity.
Qed.
(* the example history is not trivial: "minute" starts at block 3 and then runs 130,140,...: numbers 1,2,3,4,5;
   "hour" starts at block 1; "week" catches up one epoch per block *)
Example ex_run_numbers :
  map (fun e => (ei_id e, ei_cur e, ei_cur_start e)) (infos (fst (run 2 ex_store ex_blocks))) =
  [("hour"%string, 2, 160); ("minute"%string, 5, 170); ("week"%string, 11, 120)].
Proof. vm_compute. reflexivity. Qed.
Example ex_log_minute :
  map (fun e => (ev_k e, ev_num e, ev_sub e)) (log_of "minute" (snd (run 2 ex_store ex_blocks))) =
  [(EvStart, 1, 0%nat); (EvStart, 1, 1%nat);
   (EvEnd, 1, 0%nat); (EvEnd, 1, 1%nat); (EvStart, 2, 0%nat); (EvStart, 2, 1%nat);
   (EvEnd, 2, 0%nat); (EvEnd, 2, 1%nat); (EvStart, 3, 0%nat); (EvStart, 3, 1%nat);
   (EvEnd, 3, 0%nat); (EvEnd, 3, 1%nat); (EvStart, 4, 0%nat); (EvStart, 4, 1%nat);
   (EvEnd, 4, 0%nat); (EvEnd, 4, 1%nat); (EvStart, 5, 0%nat); (EvStart, 5, 1%nat)].
Proof. vm_compute. reflexivity. Qed.
(* boundary: t = start + duration exactly does NOT tick, one nanosecond later does *)
Example ex_boundary :
  let e := mkEI "m" 130 10 1 130 true 3 in
  tick 1 9 140 e = (e, []) /\ ei_cur (fst (tick 1 9 141 e)) = 2.
Proof. vm_compute. auto. Qed.
(* why C15_monotone asks for "started or number 0": the first tick RESETS the number to 1 *)
Example reset_example :
  ei_cur (fst (tick 1 1 100 (mkEI "x" 100 10 5 zero_time false 0))) = 1.
Proof. vm_compute. reflexivity. Qed.
(* an invalid stored entry (only reachable by writing the store directly) is frozen, cf. C15_invalid_frozen *)
Example ex_invalid : validate (mkEI "z" 0 0 3 0 true 0) = false. Proof. reflexivity. Qed.
(* C15_catchup: "week" (duration 7, number 4, current start 71) at times >= 101 is more than 3 epochs behind *)
Example ex_catchup : exists e, entry "week" ex_store = Some e /\ validate e = true /\ ei_started e = true /\
  (forall b, In b [(1, 101); (2, 101); (3, 130)] -> 0 <= fst b /\ ei_start e <= snd b /\
     ei_cur_start e + Z.of_nat 3 * ei_dur e < snd b).
Proof.
  eexists. split; [vm_compute; reflexivity|]. cbn. repeat split; auto;
  destruct H as [<-|[<-|[<-|[]]]]; cbn; try reflexivity; discriminate.
Qed.
