(* C15/Props.v — property theorems only. *)
From Coq Require Import List String ZArith.
From Exo Require Import Base.Store C15.Model C15.Proofs.
Import ListNotations.
Local Open Scope Z_scope.

Theorem C15_tick_meets_statement : forall nsubs h t e,
  step_ok nsubs t e (fst (tick nsubs h t e)) (snd (tick nsubs h t e)) = true.
Proof. exact tick_step_ok. Qed.
Print Assumptions C15_tick_meets_statement.
