(* C15/ProofsThm.v — the history-level statements of C15, proved from ProofsHist.v. *)
From Coq Require Import List String Ascii Bool ZArith Lia Sorting.Sorted.
From Exo Require Import Base.Store Base.Util C15.Model C15.Proofs C15.ProofsHist.
Import ListNotations.
Local Open Scope Z_scope.
Local Open Scope list_scope.

Lemma log_of_run nsubs blocks st id e :
  store_ok st = true -> entry id st = Some e ->
  log_of id (snd (run nsubs st blocks)) = List.concat (snd (run1 nsubs e blocks)).
Proof. intros D E. unfold log_of. rewrite run_events, E by exact D. reflexivity. Qed.

Lemma entry_run nsubs blocks st id e :
  entry id st = Some e -> entry id (fst (run nsubs st blocks)) = Some (fst (run1 nsubs e blocks)).
Proof. intro E. rewrite run_entry, E. reflexivity. Qed.

(* ---------- C15_hooks ---------- *)
Theorem hooks_thm nsubs st blocks id e :
  store_ok st = true -> entry id st = Some e ->
  exists e', entry id (fst (run nsubs st blocks)) = Some e' /\
             log_of id (snd (run nsubs st blocks)) = expected_log nsubs e e'.
Proof.
  intros D E. exists (fst (run1 nsubs e blocks)). split.
  - apply entry_run; exact E.
  - rewrite (log_of_run nsubs blocks st id e D E). apply run1_log.
Qed.

(* ---------- frozen entries ---------- *)
Lemma frozen_gen nsubs st blocks id e :
  store_ok st = true -> entry id st = Some e ->
  (forall b, In b blocks -> tick nsubs (fst b) (snd b) e = (e, [])) ->
  entry id (fst (run nsubs st blocks)) = Some e /\ log_of id (snd (run nsubs st blocks)) = [].
Proof.
  intros D E F. rewrite (entry_run nsubs blocks st id e E), (log_of_run nsubs blocks st id e D E).
  rewrite (run1_frozen nsubs blocks e F). simpl. split; [reflexivity|apply concat_nils].
Qed.

Theorem invalid_frozen_thm nsubs st blocks id e :
  store_ok st = true -> entry id st = Some e -> validate e = false ->
  entry id (fst (run nsubs st blocks)) = Some e /\ log_of id (snd (run nsubs st blocks)) = [].
Proof. intros D E V. apply frozen_gen; auto. intros b _. apply tick_invalid; exact V. Qed.

Theorem held_before_start_thm nsubs st blocks id e :
  store_ok st = true -> entry id st = Some e ->
  (forall b, In b blocks -> snd b < ei_start e) ->
  entry id (fst (run nsubs st blocks)) = Some e /\ log_of id (snd (run nsubs st blocks)) = [].
Proof. intros D E B. apply frozen_gen; auto. intros b Ib. apply tick_before_start. apply B; exact Ib. Qed.

(* ---------- C15_first ---------- *)
Theorem first_thm nsubs st pre h t id e :
  store_ok st = true -> entry id st = Some e -> validate e = true -> ei_started e = false ->
  (forall b, In b pre -> snd b < ei_start e) ->
  entry id (fst (run nsubs st pre)) = Some e /\ log_of id (snd (run nsubs st pre)) = [] /\
  (ei_start e <= t ->
   entry id (fst (begin_block nsubs h t (fst (run nsubs st pre)))) = Some (first_of h e) /\
   events_of id (snd (begin_block nsubs h t (fst (run nsubs st pre)))) = fanout nsubs EvStart id 1).
Proof.
  intros D E V S B.
  destruct (held_before_start_thm nsubs st pre id e D E B) as [E1 L1].
  split; [exact E1|]. split; [exact L1|]. intro Ht.
  pose proof (tick_first nsubs h t e V S Ht) as T. fold (first_of h e) in T.
  split.
  - rewrite bb_entry, E1. simpl. rewrite T. reflexivity.
  - rewrite bb_events by (apply run_store_ok; exact D). rewrite E1, T. simpl.
    rewrite (entry_some id st e E). reflexivity.
Qed.

(* ---------- C15_tick ---------- *)
Theorem tick_thm nsubs st pre h t id e :
  store_ok st = true -> entry id st = Some e -> validate e = true ->
  times_ok (pre ++ [(h, t)]) = true ->
  exists e1, entry id (fst (run nsubs st pre)) = Some e1 /\
    ei_id e1 = id /\ ei_start e1 = ei_start e /\ ei_dur e1 = ei_dur e /\
    (ei_started e1 = true -> (ei_started e = false \/ ei_start e <= t) ->
     let b := begin_block nsubs h t (fst (run nsubs st pre)) in
     (ei_cur_start e1 + ei_dur e < t /\ entry id (fst b) = Some (next_of h e1) /\
      events_of id (snd b) =
        fanout nsubs EvEnd id (ei_cur e1) ++ fanout nsubs EvStart id (ei_cur e1 + 1))
     \/
     (t <= ei_cur_start e1 + ei_dur e /\ entry id (fst b) = Some e1 /\ events_of id (snd b) = [])).
Proof.
  intros D E V T.
  destruct (times_ok_app _ _ T) as (T1 & T2 & T3).
  set (e1 := fst (run1 nsubs e pre)).
  pose proof (entry_run nsubs pre st id e E) as E1. fold e1 in E1.
  destruct (run1_config nsubs pre e) as (C1 & C2 & C3). fold e1 in C1, C2, C3.
  pose proof (run1_valid nsubs pre e (times_ok_heights _ T1) V) as V1. fold e1 in V1.
  pose proof (entry_some id st e E) as Eid.
  exists e1. split; [exact E1|]. split; [congruence|]. split; [exact C2|]. split; [exact C3|].
  intros S1 Hs b.
  assert (ei_start e <= t) as Ht.
  { destruct Hs as [S0|Hs]; [|exact Hs].
    destruct (run1_started_witness nsubs pre e S0 S1) as [b0 [Ib0 Lb0]].
    pose proof (T3 b0 (h, t) Ib0 (or_introl eq_refl)) as X. simpl in X. lia. }
  assert (store_ok (fst (run nsubs st pre)) = true) as D1 by (apply run_store_ok; exact D).
  destruct (Z_lt_le_dec (ei_cur_start e1 + ei_dur e) t) as [Lt|Le].
  - left. split; [exact Lt|].
    assert (tick nsubs h t e1 = (next_of h e1, fanout nsubs EvEnd (ei_id e1) (ei_cur e1) ++
                                             fanout nsubs EvStart (ei_id e1) (ei_cur e1 + 1))) as Tk.
    { apply tick_advance; auto; rewrite ?C2, ?C3; lia. }
    subst b. split.
    + rewrite bb_entry, E1. simpl. rewrite Tk. reflexivity.
    + rewrite bb_events by exact D1. rewrite E1, Tk. simpl. rewrite C1, Eid. reflexivity.
  - right. split; [exact Le|].
    assert (tick nsubs h t e1 = (e1, [])) as Tk.
    { apply tick_stay; auto. rewrite C3. lia. }
    subst b. split.
    + rewrite bb_entry, E1. simpl. rewrite Tk. reflexivity.
    + rewrite bb_events by exact D1. rewrite E1, Tk. reflexivity.
Qed.

(* ---------- C15_start_time ---------- *)
Theorem start_time_thm nsubs st blocks id e :
  entry id st = Some e -> clock_inv e ->
  exists e', entry id (fst (run nsubs st blocks)) = Some e' /\
    ei_id e' = ei_id e /\ ei_start e' = ei_start e /\ ei_dur e' = ei_dur e /\
    (ei_started e' = true ->
     1 <= ei_cur e' /\ ei_cur_start e' = ei_start e + (ei_cur e' - 1) * ei_dur e).
Proof.
  intros E I. exists (fst (run1 nsubs e blocks)).
  destruct (run1_config nsubs blocks e) as (C1 & C2 & C3).
  split; [apply entry_run; exact E|]. repeat (split; [assumption|]).
  intro S. pose proof (run1_clock_inv nsubs blocks e I S) as [A B]. rewrite C2, C3 in B. auto.
Qed.

(* ---------- C15_monotone ---------- *)
Theorem monotone_thm nsubs st pre mid id e :
  entry id st = Some e -> (ei_started e = true \/ ei_cur e = 0) ->
  exists e1 e2,
    entry id (fst (run nsubs st pre)) = Some e1 /\
    entry id (fst (run nsubs st (pre ++ mid))) = Some e2 /\
    ei_cur e1 <= ei_cur e2 <= ei_cur e1 + Z.of_nat (List.length mid) /\
    0 <= ei_cur e1 - ei_cur e <= Z.of_nat (List.length pre) /\
    (ei_started e1 = true -> ei_started e2 = true).
Proof.
  intros E C.
  exists (fst (run1 nsubs e pre)), (fst (run1 nsubs e (pre ++ mid))).
  split; [apply entry_run; exact E|]. split; [apply entry_run; exact E|].
  rewrite run1_app. simpl fst.
  pose proof (run1_counted nsubs pre e C) as C1.
  split; [apply run1_number; exact C1|].
  split; [pose proof (run1_number nsubs pre e C); lia|].
  apply run1_started.
Qed.

(* ---------- the whole-history monitor predicate holds of the model ---------- *)
Lemma strip_prefix_app p l : strip_prefix p (p ++ l) = Some l.
Proof. induction p as [|a p IH]; simpl; [reflexivity|]. rewrite ev_eqb_refl. exact IH. Qed.

Lemma fanout_length nsubs k id n : List.length (fanout nsubs k id n) = nsubs.
Proof. unfold fanout. rewrite map_length, seq_length. reflexivity. Qed.

Lemma pairs_length_ge nsubs id c k : (0 < nsubs)%nat -> (k <= List.length (pairs nsubs id c k))%nat.
Proof.
  intro N. revert c. induction k as [|k IH]; intro c; simpl; [lia|].
  rewrite !app_length, !fanout_length. pose proof (IH (c + 1)). lia.
Qed.

Lemma pairs_ok_step f nsubs id c log :
  log <> [] ->
  pairs_ok (S f) nsubs id c log =
  match strip_prefix (fanout nsubs EvEnd id c ++ fanout nsubs EvStart id (c + 1)) log with
  | Some rest => pairs_ok f nsubs id (c + 1) rest
  | None => None
  end.
Proof. destruct log; [congruence|reflexivity]. Qed.

Lemma pairs_ok_pairs nsubs id : (0 < nsubs)%nat ->
  forall k fuel c, (k <= fuel)%nat ->
  pairs_ok fuel nsubs id c (pairs nsubs id c k) = Some (c + Z.of_nat k).
Proof.
  intros N k. induction k as [|k IH]; intros fuel c F.
  - simpl. destruct fuel; simpl; f_equal; lia.
  - destruct fuel as [|f]; [lia|].
    rewrite pairs_ok_step.
    + simpl pairs. rewrite app_assoc, strip_prefix_app. rewrite IH by lia. f_equal. lia.
    + intro X. apply (f_equal (@List.length event)) in X.
      pose proof (pairs_length_ge nsubs id c (S k) N). rewrite X in H. simpl in H. lia.
Qed.

Lemma hook_hist_ok_run1 nsubs e blocks : (0 < nsubs)%nat ->
  hook_hist_ok nsubs e (fst (run1 nsubs e blocks)) (expected_log nsubs e (fst (run1 nsubs e blocks))) = true.
Proof.
  intro N. set (e' := fst (run1 nsubs e blocks)).
  unfold hook_hist_ok, expected_log.
  destruct (ei_started e) eqn:S0.
  - pose proof (run1_number nsubs blocks e (or_introl S0)) as Nb. fold e' in Nb.
    rewrite pairs_ok_pairs by (auto; apply pairs_length_ge; exact N).
    unfold e'. rewrite (run1_started nsubs blocks e S0). fold e'.
    rewrite andb_true_r. apply Z.eqb_eq. lia.
  - destruct (ei_started e') eqn:S1.
    + rewrite strip_prefix_app.
      rewrite pairs_ok_pairs by (auto; apply pairs_length_ge; exact N).
      assert (clock_inv e) as I0 by (unfold clock_inv; congruence).
      pose proof (run1_clock_inv nsubs blocks e I0) as I1. fold e' in I1.
      destruct (I1 S1) as [G _]. apply Z.eqb_eq. lia.
    + pose proof (run1_unstarted_end nsubs blocks e S1) as R.
      unfold e'. rewrite R. simpl. apply ei_eqb_refl.
Qed.

Theorem hooks_monitor_thm nsubs st blocks id e :
  (0 < nsubs)%nat -> store_ok st = true -> entry id st = Some e ->
  exists e', entry id (fst (run nsubs st blocks)) = Some e' /\
             hook_hist_ok nsubs e e' (log_of id (snd (run nsubs st blocks))) = true.
Proof.
  intros N D E. exists (fst (run1 nsubs e blocks)). split; [apply entry_run; exact E|].
  rewrite (log_of_run nsubs blocks st id e D E), run1_log. apply hook_hist_ok_run1. exact N.
Qed.

(* ---------- order: the log of one identifier is strictly increasing in [ev_rank] ---------- *)
Lemma ss_app (l1 l2 : list Z) :
  StronglySorted Z.lt l1 -> StronglySorted Z.lt l2 ->
  (forall a b, In a l1 -> In b l2 -> a < b) -> StronglySorted Z.lt (l1 ++ l2).
Proof.
  induction l1 as [|x l1 IH]; intros S1 S2 H; simpl; [exact S2|].
  inversion S1 as [|? ? S1' F1]; subst. constructor.
  - apply IH; auto. intros a b Ia Ib. apply H; [right|]; auto.
  - apply Forall_app. split; [exact F1|].
    apply Forall_forall. intros b Ib. apply H; [left; reflexivity|exact Ib].
Qed.

Lemma seq_affine_sorted X s len :
  StronglySorted Z.lt (map (fun i => X + Z.of_nat i) (seq s len)).
Proof.
  revert s. induction len as [|len IH]; intro s; simpl; constructor; [apply IH|].
  apply Forall_forall. intros x Ix. apply in_map_iff in Ix. destruct Ix as [i [<- Ii]].
  apply in_seq in Ii. lia.
Qed.

Definition kbit (k : ev_kind) : Z := match k with EvStart => 0 | EvEnd => 1 end.

Lemma fanout_ranks nsubs k id n :
  map (ev_rank nsubs) (fanout nsubs k id n) =
  map (fun i => (2 * n + kbit k) * Z.of_nat nsubs + Z.of_nat i) (seq 0 nsubs).
Proof. unfold fanout. rewrite map_map. apply map_ext. intro i. unfold ev_rank, kbit. simpl. reflexivity. Qed.

Lemma fanout_rank_sorted nsubs k id n : StronglySorted Z.lt (map (ev_rank nsubs) (fanout nsubs k id n)).
Proof. rewrite fanout_ranks. apply seq_affine_sorted. Qed.

Lemma fanout_rank_bounds nsubs k id n x :
  In x (map (ev_rank nsubs) (fanout nsubs k id n)) ->
  (2 * n + kbit k) * Z.of_nat nsubs <= x < (2 * n + kbit k) * Z.of_nat nsubs + Z.of_nat nsubs.
Proof.
  rewrite fanout_ranks. intro I. apply in_map_iff in I. destruct I as [i [<- Ii]]. apply in_seq in Ii. lia.
Qed.

Lemma pairs_rank nsubs id k : forall c,
  StronglySorted Z.lt (map (ev_rank nsubs) (pairs nsubs id c k)) /\
  (forall x, In x (map (ev_rank nsubs) (pairs nsubs id c k)) -> (2 * c + 1) * Z.of_nat nsubs <= x).
Proof.
  induction k as [|k IH]; intro c.
  - simpl. split; [constructor|intros x []].
  - destruct (IH (c + 1)) as [S B]. simpl pairs. rewrite !map_app. split.
    + apply ss_app; [apply fanout_rank_sorted| |].
      * apply ss_app; [apply fanout_rank_sorted|exact S|].
        intros a b Ia Ib. apply fanout_rank_bounds in Ia. apply B in Ib. unfold kbit in Ia. lia.
      * intros a b Ia Ib. apply fanout_rank_bounds in Ia. unfold kbit in Ia.
        apply in_app_or in Ib. destruct Ib as [Ib|Ib].
        -- apply fanout_rank_bounds in Ib. unfold kbit in Ib. lia.
        -- apply B in Ib. lia.
    + intros x Ix. apply in_app_or in Ix. destruct Ix as [Ix|Ix].
      * apply fanout_rank_bounds in Ix. unfold kbit in Ix. lia.
      * apply in_app_or in Ix. destruct Ix as [Ix|Ix].
        -- apply fanout_rank_bounds in Ix. unfold kbit in Ix. lia.
        -- apply B in Ix. lia.
Qed.

Lemma expected_log_sorted nsubs e e' : StronglySorted Z.lt (map (ev_rank nsubs) (expected_log nsubs e e')).
Proof.
  unfold expected_log. destruct (ei_started e).
  - apply pairs_rank.
  - destruct (ei_started e'); [|constructor].
    rewrite map_app. apply ss_app; [apply fanout_rank_sorted|apply pairs_rank|].
    intros a b Ia Ib. apply fanout_rank_bounds in Ia. unfold kbit in Ia.
    apply (proj2 (pairs_rank nsubs (ei_id e) (Z.to_nat (ei_cur e' - 1)) 1)) in Ib. lia.
Qed.

Lemma ss_lt_nodup (l : list Z) : StronglySorted Z.lt l -> NoDup l.
Proof.
  induction 1 as [|a l S IH F]; constructor; [|exact IH].
  intro I. rewrite Forall_forall in F. specialize (F a I). lia.
Qed.

Theorem hooks_ordered_thm nsubs st blocks id e :
  store_ok st = true -> entry id st = Some e ->
  StronglySorted Z.lt (map (ev_rank nsubs) (log_of id (snd (run nsubs st blocks)))) /\
  NoDup (log_of id (snd (run nsubs st blocks))).
Proof.
  intros D E.
  assert (StronglySorted Z.lt (map (ev_rank nsubs) (log_of id (snd (run nsubs st blocks))))) as S.
  { rewrite (log_of_run nsubs blocks st id e D E), run1_log. apply expected_log_sorted. }
  split; [exact S|]. apply ss_lt_nodup in S. eapply NoDup_map_inv. exact S.
Qed.
