(* C15/ProofsHist.v — lemmas about whole histories of the epoch-clock model:
   per-entry trajectories (run1), the reduction of [run] on a store to [run1] on one entry,
   and the history-level statements used by Props.v. *)
From Coq Require Import List String Ascii Bool ZArith Lia Sorting.Sorted.
From Exo Require Import Base.Store Base.Util C15.Model C15.Proofs.
Import ListNotations.
Local Open Scope Z_scope.
Local Open Scope list_scope.

(* ---------- a tick does one of three things ---------- *)
Lemma tick_cases nsubs h t e :
  tick nsubs h t e = (e, []) \/
  (ei_started e = false /\ validate e = true /\ ei_start e <= t /\
   tick nsubs h t e = (first_of h e, fanout nsubs EvStart (ei_id e) 1)) \/
  (ei_started e = true /\ validate e = true /\ ei_start e <= t /\ ei_cur_start e + ei_dur e < t /\
   tick nsubs h t e = (next_of h e, fanout nsubs EvEnd (ei_id e) (ei_cur e) ++
                                    fanout nsubs EvStart (ei_id e) (ei_cur e + 1))).
Proof.
  unfold tick, first_of, next_of.
  destruct (validate e) eqn:V; simpl; [|left; reflexivity].
  destruct (t <? ei_start e) eqn:Hs; [left; reflexivity|].
  apply Z.ltb_ge in Hs.
  destruct (ei_started e) eqn:St; simpl.
  - destruct (ei_cur_start e + ei_dur e <? t) eqn:En; simpl.
    + apply Z.ltb_lt in En. right; right. repeat split; auto.
    + left; reflexivity.
  - rewrite Bool.orb_true_r. simpl. right; left. repeat split; auto.
Qed.

Lemma fanout_in nsubs k id n ev :
  In ev (fanout nsubs k id n) -> ev_k ev = k /\ ev_id ev = id /\ ev_num ev = n /\ (ev_sub ev < nsubs)%nat.
Proof.
  unfold fanout. intro H. apply in_map_iff in H. destruct H as [i [<- Hi]].
  apply in_seq in Hi. simpl. repeat split; lia.
Qed.

Lemma tick_events_id nsubs h t e ev : In ev (snd (tick nsubs h t e)) -> ev_id ev = ei_id e.
Proof.
  destruct (tick_cases nsubs h t e) as [H|[(_&_&_&H)|(_&_&_&_&H)]]; rewrite H; simpl; intro I.
  - contradiction.
  - apply fanout_in in I. tauto.
  - apply in_app_or in I. destruct I as [I|I]; apply fanout_in in I; tauto.
Qed.

Lemma tick_config nsubs h t e :
  ei_id (fst (tick nsubs h t e)) = ei_id e /\ ei_start (fst (tick nsubs h t e)) = ei_start e /\
  ei_dur (fst (tick nsubs h t e)) = ei_dur e.
Proof.
  destruct (tick_cases nsubs h t e) as [H|[(_&_&_&H)|(_&_&_&_&H)]]; rewrite H; simpl; auto.
Qed.

Lemma tick_id nsubs h t e : ei_id (fst (tick nsubs h t e)) = ei_id e.
Proof. apply tick_config. Qed.

Lemma tick_valid nsubs h t e : 0 <= h -> validate e = true -> validate (fst (tick nsubs h t e)) = true.
Proof.
  intros Hh V.
  destruct (tick_cases nsubs h t e) as [H|[(_&_&_&H)|(_&_&_&_&H)]]; rewrite H; simpl; auto;
    unfold validate in *; simpl;
    repeat match goal with H : _ && _ = true |- _ => apply andb_prop in H; destruct H end;
    repeat (apply andb_true_intro; split); auto; apply Z.leb_le; try lia.
Qed.

Lemma tick_started nsubs h t e : ei_started e = true -> ei_started (fst (tick nsubs h t e)) = true.
Proof.
  intro S. destruct (tick_cases nsubs h t e) as [H|[(_&_&_&H)|(_&_&_&_&H)]]; rewrite H; simpl; auto.
Qed.

Lemma tick_clock_inv nsubs h t e : clock_inv e -> clock_inv (fst (tick nsubs h t e)).
Proof.
  intro I. destruct (tick_cases nsubs h t e) as [H|[(_&_&_&H)|(S&_&_&_&H)]]; rewrite H; simpl; auto.
  - unfold clock_inv, first_of; simpl. intros _. split; lia.
  - unfold clock_inv, next_of; simpl. intros _. destruct (I S) as [I1 I2]. split; [lia|]. rewrite I2. ring.
Qed.

Definition counted (e : epoch_info) : Prop := ei_started e = true \/ ei_cur e = 0.

Lemma tick_counted nsubs h t e : counted e -> counted (fst (tick nsubs h t e)).
Proof.
  intro C. destruct (tick_cases nsubs h t e) as [H|[(_&_&_&H)|(_&_&_&_&H)]]; rewrite H; simpl; auto;
    left; reflexivity.
Qed.

(* number moves by 0 or +1 on counted entries *)
Lemma tick_step_number nsubs h t e : counted e ->
  ei_cur e <= ei_cur (fst (tick nsubs h t e)) <= ei_cur e + 1.
Proof.
  intro C. destruct (tick_cases nsubs h t e) as [H|[(S&_&_&H)|(_&_&_&_&H)]]; rewrite H; simpl; try lia.
  destruct C as [C|C]; [congruence|lia].
Qed.

(* ---------- unfolding equations in fst/snd form ---------- *)
Lemma bb_cons nsubs h t k e r :
  begin_block nsubs h t ((k, e) :: r) =
  ((k, fst (tick nsubs h t e)) :: fst (begin_block nsubs h t r),
   snd (tick nsubs h t e) ++ snd (begin_block nsubs h t r)).
Proof. simpl. destruct (tick nsubs h t e), (begin_block nsubs h t r). reflexivity. Qed.

Lemma run_cons nsubs st h t r :
  run nsubs st ((h, t) :: r) =
  (fst (run nsubs (fst (begin_block nsubs h t st)) r),
   snd (begin_block nsubs h t st) :: snd (run nsubs (fst (begin_block nsubs h t st)) r)).
Proof. simpl. destruct (begin_block nsubs h t st) as [st' ev]. simpl. destruct (run nsubs st' r). reflexivity. Qed.

Lemma run1_cons nsubs e h t r :
  run1 nsubs e ((h, t) :: r) =
  (fst (run1 nsubs (fst (tick nsubs h t e)) r),
   snd (tick nsubs h t e) :: snd (run1 nsubs (fst (tick nsubs h t e)) r)).
Proof. simpl. destruct (tick nsubs h t e) as [e' ev]. simpl. destruct (run1 nsubs e' r). reflexivity. Qed.

Lemma run_app nsubs st a b :
  run nsubs st (a ++ b) =
  (fst (run nsubs (fst (run nsubs st a)) b), snd (run nsubs st a) ++ snd (run nsubs (fst (run nsubs st a)) b)).
Proof.
  revert st. induction a as [|[h t] a IH]; intro st.
  - simpl. destruct (run nsubs st b). reflexivity.
  - rewrite <- app_comm_cons. rewrite !run_cons. rewrite IH. simpl. reflexivity.
Qed.

Lemma run1_app nsubs e a b :
  run1 nsubs e (a ++ b) =
  (fst (run1 nsubs (fst (run1 nsubs e a)) b), snd (run1 nsubs e a) ++ snd (run1 nsubs (fst (run1 nsubs e a)) b)).
Proof.
  revert e. induction a as [|[h t] a IH]; intro e.
  - simpl. destruct (run1 nsubs e b). reflexivity.
  - rewrite <- app_comm_cons. rewrite !run1_cons. rewrite IH. simpl. reflexivity.
Qed.

Lemma run_one nsubs st h t :
  run nsubs st [(h, t)] = (fst (begin_block nsubs h t st), [snd (begin_block nsubs h t st)]).
Proof. rewrite run_cons. reflexivity. Qed.

Lemma run1_one nsubs e h t :
  run1 nsubs e [(h, t)] = (fst (tick nsubs h t e), [snd (tick nsubs h t e)]).
Proof. rewrite run1_cons. reflexivity. Qed.

(* ---------- invariants of single-entry trajectories ---------- *)
Lemma run1_preserves (P : epoch_info -> Prop) nsubs :
  (forall h t e, P e -> P (fst (tick nsubs h t e))) ->
  forall blocks e, P e -> P (fst (run1 nsubs e blocks)).
Proof.
  intros Hp blocks. induction blocks as [|[h t] r IH]; intros e He; [exact He|].
  rewrite run1_cons. simpl. apply IH. apply Hp. exact He.
Qed.

Lemma run1_config nsubs blocks e :
  ei_id (fst (run1 nsubs e blocks)) = ei_id e /\ ei_start (fst (run1 nsubs e blocks)) = ei_start e /\
  ei_dur (fst (run1 nsubs e blocks)) = ei_dur e.
Proof.
  apply (run1_preserves (fun x => ei_id x = ei_id e /\ ei_start x = ei_start e /\ ei_dur x = ei_dur e)); auto.
  intros h t x (A & B & C). destruct (tick_config nsubs h t x) as (A' & B' & C'). repeat split; congruence.
Qed.

Lemma run1_started nsubs blocks e : ei_started e = true -> ei_started (fst (run1 nsubs e blocks)) = true.
Proof. apply (run1_preserves (fun x => ei_started x = true)). intros; apply tick_started; auto. Qed.

Lemma run1_clock_inv nsubs blocks e : clock_inv e -> clock_inv (fst (run1 nsubs e blocks)).
Proof. apply (run1_preserves clock_inv). intros; apply tick_clock_inv; auto. Qed.

Lemma run1_counted nsubs blocks e : counted e -> counted (fst (run1 nsubs e blocks)).
Proof. apply (run1_preserves counted). intros; apply tick_counted; auto. Qed.

Lemma times_ok_heights blocks : times_ok blocks = true -> Forall (fun b => 0 <= fst b) blocks.
Proof.
  induction blocks as [|[h t] r IH]; intro H; constructor; simpl in H;
    apply andb_prop in H; destruct H as [H H3]; apply andb_prop in H; destruct H as [H1 H2].
  - simpl. apply Z.leb_le. exact H1.
  - apply IH. exact H3.
Qed.

Lemma times_ok_app a b : times_ok (a ++ b) = true ->
  times_ok a = true /\ times_ok b = true /\ (forall x y, In x a -> In y b -> snd x <= snd y).
Proof.
  induction a as [|[h t] a IH]; intro H.
  - simpl in *. repeat split; auto. intros x y [].
  - simpl in H. apply andb_prop in H; destruct H as [H H3]; apply andb_prop in H; destruct H as [H1 H2].
    destruct (IH H3) as (A & B & C).
    rewrite forallb_app in H2. apply andb_prop in H2. destruct H2 as [H2a H2b].
    repeat split; auto.
    + simpl. rewrite H1, H2a, A. reflexivity.
    + intros x y [<-|Ix] Iy.
      * simpl. rewrite forallb_forall in H2b. apply Z.leb_le. apply (H2b y Iy).
      * apply C; auto.
Qed.

Lemma run1_valid nsubs blocks e :
  Forall (fun b => 0 <= fst b) blocks -> validate e = true -> validate (fst (run1 nsubs e blocks)) = true.
Proof.
  revert e. induction blocks as [|[h t] r IH]; intros e F V; [exact V|].
  rewrite run1_cons. simpl. inversion F; subst. apply IH; auto. apply tick_valid; auto.
Qed.

Lemma run1_length nsubs blocks e : List.length (snd (run1 nsubs e blocks)) = List.length blocks.
Proof.
  revert e. induction blocks as [|[h t] r IH]; intro e; [reflexivity|].
  rewrite run1_cons. simpl. rewrite IH. reflexivity.
Qed.

(* blocks on which the tick is the identity leave the entry alone and notify nobody *)
Lemma run1_frozen nsubs blocks e :
  (forall b, In b blocks -> tick nsubs (fst b) (snd b) e = (e, [])) ->
  run1 nsubs e blocks = (e, map (fun _ => []) blocks).
Proof.
  induction blocks as [|[h t] r IH]; intro H; [reflexivity|].
  rewrite run1_cons. pose proof (H (h, t) (or_introl eq_refl)) as H0. simpl in H0. rewrite H0. simpl.
  rewrite IH; [reflexivity|]. intros b Ib. apply H. right. exact Ib.
Qed.

Lemma concat_nils {A B} (l : list A) : List.concat (map (fun _ => @nil B) l) = [].
Proof. induction l; simpl; auto. Qed.

(* an entry that is unstarted at the end was never touched *)
Lemma run1_unstarted_end nsubs blocks e :
  ei_started (fst (run1 nsubs e blocks)) = false ->
  run1 nsubs e blocks = (e, map (fun _ => []) blocks).
Proof.
  revert e. induction blocks as [|[h t] r IH]; intros e H; [reflexivity|].
  rewrite run1_cons in *. simpl in H.
  destruct (tick_cases nsubs h t e) as [T|[(_&_&_&T)|(_&_&_&_&T)]]; rewrite T in *; simpl in *.
  - rewrite (IH e H). reflexivity.
  - rewrite run1_started in H by reflexivity. discriminate.
  - rewrite run1_started in H by reflexivity. discriminate.
Qed.

(* an entry that went from unstarted to started saw a block at or after its start time *)
Lemma run1_started_witness nsubs blocks e :
  ei_started e = false -> ei_started (fst (run1 nsubs e blocks)) = true ->
  exists b, In b blocks /\ ei_start e <= snd b.
Proof.
  revert e. induction blocks as [|[h t] r IH]; intros e S H.
  - simpl in H. congruence.
  - rewrite run1_cons in H. simpl in H.
    destruct (tick_cases nsubs h t e) as [T|[(_&_&L&T)|(S'&_)]].
    + rewrite T in H. simpl in H. destruct (IH e S H) as [b [Ib Lb]]. exists b. split; [right|]; auto.
    + exists (h, t). split; [left; reflexivity|exact L].
    + congruence.
Qed.

(* monotone, never skipping *)
Lemma run1_number nsubs blocks e : counted e ->
  ei_cur e <= ei_cur (fst (run1 nsubs e blocks)) <= ei_cur e + Z.of_nat (List.length blocks).
Proof.
  revert e. induction blocks as [|[h t] r IH]; intros e C.
  - simpl. lia.
  - rewrite run1_cons. simpl fst.
    pose proof (tick_step_number nsubs h t e C) as T.
    pose proof (IH _ (tick_counted nsubs h t e C)) as R.
    simpl List.length. lia.
Qed.

(* ---------- the notification log of one entry ---------- *)
Lemma pairs_snoc_left nsubs id c k :
  fanout nsubs EvEnd id c ++ fanout nsubs EvStart id (c + 1) ++ pairs nsubs id (c + 1) k =
  pairs nsubs id c (S k).
Proof. reflexivity. Qed.

Lemma run1_log nsubs blocks e :
  List.concat (snd (run1 nsubs e blocks)) = expected_log nsubs e (fst (run1 nsubs e blocks)).
Proof.
  revert e. induction blocks as [|[h t] r IH]; intro e.
  - simpl. unfold expected_log. destruct (ei_started e); [|reflexivity].
    rewrite Z.sub_diag. reflexivity.
  - rewrite run1_cons. simpl fst. simpl snd. simpl List.concat. rewrite IH.
    destruct (tick_cases nsubs h t e) as [T|[(St&_&_&T)|(St&_&_&_&T)]]; rewrite T; simpl fst; simpl snd.
    + reflexivity.
    + unfold expected_log at 2. rewrite St.
      rewrite (run1_started nsubs r (first_of h e)) by reflexivity.
      unfold expected_log. simpl. reflexivity.
    + unfold expected_log. rewrite St. simpl ei_started. simpl ei_id. simpl ei_cur.
      pose proof (run1_number nsubs r (next_of h e) (or_introl eq_refl)) as N. simpl in N.
      replace (Z.to_nat (ei_cur (fst (run1 nsubs (next_of h e) r)) - ei_cur e))
        with (S (Z.to_nat (ei_cur (fst (run1 nsubs (next_of h e) r)) - (ei_cur e + 1)))) by lia.
      simpl pairs. rewrite <- !app_assoc. reflexivity.
Qed.

(* ---------- from the store to one entry ---------- *)
Lemma entry_cons id k e r :
  entry id ((k, e) :: r) = if String.eqb (ei_id e) id then Some e else entry id r.
Proof. reflexivity. Qed.

Lemma entry_some id st e : entry id st = Some e -> ei_id e = id.
Proof.
  unfold entry, find_info. intro H. apply find_some in H. destruct H as [_ H]. apply String.eqb_eq. exact H.
Qed.

Lemma entry_none id st : entry id st = None <-> ~ In id (ids st).
Proof.
  induction st as [|[k e] r IH]; simpl.
  - unfold entry. simpl. tauto.
  - rewrite entry_cons. destruct (String.eqb (ei_id e) id) eqn:E.
    + apply String.eqb_eq in E. split; [discriminate|]. intro H. exfalso. apply H. left. exact E.
    + apply String.eqb_neq in E. rewrite IH. tauto.
Qed.

Lemma bb_ids nsubs h t st : ids (fst (begin_block nsubs h t st)) = ids st.
Proof.
  induction st as [|[k e] r IH]; [reflexivity|].
  rewrite bb_cons. unfold ids in *. simpl. rewrite tick_id, IH. reflexivity.
Qed.

Lemma bb_entry nsubs h t st id :
  entry id (fst (begin_block nsubs h t st)) = option_map (fun e => fst (tick nsubs h t e)) (entry id st).
Proof.
  induction st as [|[k e] r IH]; [reflexivity|].
  rewrite bb_cons. simpl fst. rewrite !entry_cons, tick_id.
  destruct (String.eqb (ei_id e) id); [reflexivity|exact IH].
Qed.

Lemma events_of_app id a b : events_of id (a ++ b) = events_of id a ++ events_of id b.
Proof. unfold events_of. apply filter_app. Qed.

Lemma events_of_all id l : (forall ev, In ev l -> ev_id ev = id) -> events_of id l = l.
Proof.
  induction l as [|a r IH]; intro H; [reflexivity|]. simpl.
  rewrite (H a (or_introl eq_refl)), String.eqb_refl. f_equal. apply IH. intros; apply H; right; auto.
Qed.

Lemma events_of_none id l : (forall ev, In ev l -> ev_id ev <> id) -> events_of id l = [].
Proof.
  induction l as [|a r IH]; intro H; [reflexivity|]. simpl.
  destruct (String.eqb (ev_id a) id) eqn:E.
  - apply String.eqb_eq in E. exfalso. apply (H a (or_introl eq_refl)). exact E.
  - apply IH. intros; apply H; right; auto.
Qed.

Lemma bb_events_notin nsubs h t st id : ~ In id (ids st) -> events_of id (snd (begin_block nsubs h t st)) = [].
Proof.
  induction st as [|[k e] r IH]; intro N; [reflexivity|].
  rewrite bb_cons. simpl snd. rewrite events_of_app.
  rewrite events_of_none, IH; auto.
  - intro I. apply N. right. exact I.
  - intros ev Iev E. apply tick_events_id in Iev. apply N. left. simpl. congruence.
Qed.

Lemma distinctb_cons a r : distinctb (a :: r) = true -> ~ In a r /\ distinctb r = true.
Proof.
  simpl. intro H. apply andb_prop in H. destruct H as [H1 H2]. split; [|exact H2].
  intro I. apply negb_true_iff in H1.
  assert (existsb (String.eqb a) r = true) as X.
  { apply existsb_exists. exists a. split; [exact I|apply String.eqb_refl]. }
  congruence.
Qed.

Lemma bb_events nsubs h t st id :
  store_ok st = true ->
  events_of id (snd (begin_block nsubs h t st)) =
  match entry id st with Some e => snd (tick nsubs h t e) | None => [] end.
Proof.
  unfold store_ok. induction st as [|[k e] r IH]; intro D; [reflexivity|].
  change (ids ((k, e) :: r)) with (ei_id e :: ids r) in D.
  apply distinctb_cons in D. destruct D as [D1 D2].
  rewrite bb_cons. simpl snd. rewrite events_of_app, entry_cons.
  destruct (String.eqb (ei_id e) id) eqn:E.
  - apply String.eqb_eq in E. subst id.
    rewrite events_of_all by (intros ev Iev; apply tick_events_id in Iev; exact Iev).
    rewrite bb_events_notin by exact D1. apply app_nil_r.
  - apply String.eqb_neq in E.
    rewrite events_of_none by (intros ev Iev; apply tick_events_id in Iev; congruence).
    simpl. apply IH. exact D2.
Qed.

Lemma bb_store_ok nsubs h t st : store_ok st = true -> store_ok (fst (begin_block nsubs h t st)) = true.
Proof. unfold store_ok. rewrite bb_ids. auto. Qed.

Lemma run_store_ok nsubs blocks st : store_ok st = true -> store_ok (fst (run nsubs st blocks)) = true.
Proof.
  revert st. induction blocks as [|[h t] r IH]; intros st D; [exact D|].
  rewrite run_cons. simpl. apply IH. apply bb_store_ok. exact D.
Qed.

Lemma fst_pair {A B} (a : A) (b : B) : fst (a, b) = a. Proof. reflexivity. Qed.
Lemma snd_pair {A B} (a : A) (b : B) : snd (a, b) = b. Proof. reflexivity. Qed.

(* the entry of [id] after a history is the single-entry trajectory of its initial entry *)
Lemma run_entry nsubs blocks st id :
  entry id (fst (run nsubs st blocks)) = option_map (fun e => fst (run1 nsubs e blocks)) (entry id st).
Proof.
  revert st. induction blocks as [|[h t] r IH]; intro st.
  - simpl. destruct (entry id st); reflexivity.
  - rewrite run_cons, fst_pair. rewrite IH, bb_entry.
    destruct (entry id st) as [e|]; [|reflexivity]. cbv beta iota delta [option_map]. rewrite run1_cons. reflexivity.
Qed.

Lemma run_events nsubs blocks st id :
  store_ok st = true ->
  map (events_of id) (snd (run nsubs st blocks)) =
  match entry id st with Some e => snd (run1 nsubs e blocks) | None => map (fun _ => []) blocks end.
Proof.
  revert st. induction blocks as [|[h t] r IH]; intros st D.
  - simpl. destruct (entry id st); reflexivity.
  - rewrite run_cons, snd_pair. rewrite map_cons. rewrite IH by (apply bb_store_ok; exact D).
    rewrite bb_events by exact D. rewrite bb_entry.
    destruct (entry id st) as [e|]; [|reflexivity]. cbv beta iota delta [option_map]. rewrite run1_cons. reflexivity.
Qed.

Lemma run_proj_some nsubs blocks st id e :
  store_ok st = true -> entry id st = Some e ->
  proj id (run nsubs st blocks) = (Some (fst (run1 nsubs e blocks)), snd (run1 nsubs e blocks)).
Proof.
  intros D E. unfold proj. rewrite run_entry, run_events, E by exact D. reflexivity.
Qed.

Lemma run_proj_none nsubs blocks st id :
  store_ok st = true -> entry id st = None ->
  proj id (run nsubs st blocks) = (None, map (fun _ => []) blocks).
Proof.
  intros D E. unfold proj. rewrite run_entry, run_events, E by exact D. reflexivity.
Qed.

(* removing the other identifiers *)
Lemma only_entry id st : entry id (only id st) = entry id st.
Proof.
  induction st as [|[k e] r IH]; [reflexivity|].
  change (only id ((k, e) :: r)) with (if String.eqb (ei_id e) id then (k, e) :: only id r else only id r).
  rewrite entry_cons.
  destruct (String.eqb (ei_id e) id) eqn:E.
  - rewrite entry_cons, E. reflexivity.
  - exact IH.
Qed.

Lemma only_ids_in id st x : In x (ids (only id st)) -> In x (ids st).
Proof.
  unfold ids, only. intro H. apply in_map_iff in H. destruct H as [p [<- Hp]].
  apply filter_In in Hp. destruct Hp as [Hp _]. apply in_map_iff. exists p. auto.
Qed.

Lemma only_cons id k e r :
  only id ((k, e) :: r) = if String.eqb (ei_id e) id then (k, e) :: only id r else only id r.
Proof. reflexivity. Qed.

Lemma only_store_ok id st : store_ok st = true -> store_ok (only id st) = true.
Proof.
  unfold store_ok. induction st as [|[k e] r IH]; intro D; [reflexivity|].
  change (ids ((k, e) :: r)) with (ei_id e :: ids r) in D.
  apply distinctb_cons in D. destruct D as [D1 D2].
  rewrite only_cons. destruct (String.eqb (ei_id e) id).
  - change (ids ((k, e) :: only id r)) with (ei_id e :: ids (only id r)).
    simpl. rewrite (IH D2). rewrite andb_true_r. apply negb_true_iff.
    destruct (existsb (String.eqb (ei_id e)) (ids (only id r))) eqn:X; [|reflexivity].
    apply existsb_exists in X. destruct X as [x [Ix Ex]]. apply String.eqb_eq in Ex. subst x.
    exfalso. apply D1. eapply only_ids_in. exact Ix.
  - apply IH. exact D2.
Qed.

Theorem independent nsubs st blocks id :
  store_ok st = true ->
  proj id (run nsubs st blocks) = proj id (run nsubs (only id st) blocks).
Proof.
  intro D. pose proof (only_store_ok id st D) as D'.
  destruct (entry id st) as [e|] eqn:E.
  - rewrite (run_proj_some nsubs blocks st id e D E).
    rewrite (run_proj_some nsubs blocks (only id st) id e D'); [reflexivity|].
    rewrite only_entry. exact E.
  - rewrite (run_proj_none nsubs blocks st id D E).
    rewrite (run_proj_none nsubs blocks (only id st) id D'); [reflexivity|].
    rewrite only_entry. exact E.
Qed.
