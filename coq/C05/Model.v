(* C05/Model.v — executable model of the voting-power update at epoch end
   (x/operator/keeper/impl_epoch_hook.go AfterEpochEnd, abci.go UpdateVotingPower, usd_value.go
   CalculateUSDValueForOperator(isForSlash=false) / IterateOperatorsForAVS / SetAVSUSDValue /
   DeleteAllOperatorsUSDValueForAVS / GetOperatorOptedUSDValue, common_func.go CalculateUSDValue,
   x/delegation/keeper/share.go TokensFromShares, x/avs/keeper/avs.go GetEpochEndAVSs / GetAVSSupportedAssets /
   GetAVSMinimumSelfDelegation).  Definitions only.

   Identities are small integers assigned by the harness; lists are in store (key) order.
   LegacyDec values are Z scaled by P = 10^18 (Base/IntDec.v). *)
From Coq Require Import List ZArith Bool Lia.
From Exo Require Import Base.IntDec Base.Util.
Import ListNotations.
Local Open Scope Z_scope.

(* ---------------------------------------------------------------- observations ---- *)

(* result class of the oracle lookup for one asset (GetMultipleAssetsPrices) *)
Inductive price_class := PcOk | PcDefault (* no round / non-positive price: 1 with 0 decimals, error ignored *)
                       | PcMissing (* asset not bound to an oracle token: hard error *).

Record ainfo := mkAI { a_id : Z; a_pclass : price_class; a_price : Z; a_pdec : Z; a_dec : Z }.

(* operator-asset pool (x/assets OperatorAssetInfo) *)
Record pool := mkPool { p_op : Z; p_asset : Z; p_total : Z; p_tshare : Z; p_oshare : Z }.

Record avs := mkAvs { v_id : Z; v_epoch : Z (* epoch identifier *); v_start : Z (* StartingEpoch *);
                      v_min : Z (* MinSelfDelegation, whole USD *); v_assets : list Z;
                      v_assets_ok : bool (* GetAVSSupportedAssets succeeds *);
                      v_aliases : list Z (* ids of OTHER key strings (different letter case) that the AVS keeper resolves
                                            to this same AVS and under which operators are opted in; the hook never
                                            looks at them, only the statement does *) }.

(* OperatorOptedUSDValue stored under avs/operator *)
Record row := mkRow { r_avs : Z; r_op : Z; r_self : Z; r_total : Z; r_active : Z }.

Record st := mkSt { s_rows : list row; s_avsval : list (Z * Z) }.

(* what the hook reads from the other modules *)
Record env := mkEnv { e_pools : list pool; e_assets : list ainfo; e_avss : list avs }.

Inductive outcome (A : Type) := Ok (a : A) | Err.
Arguments Ok {A} a. Arguments Err {A}.

(* ---------------------------------------------------------------- arithmetic ---- *)

(* CalculateUSDValue *)
Definition usd (amount price dec pdec : Z) : Z :=
  dec_quo_int (dec_of_int (amount * price)) (10 ^ (dec + pdec)).

(* delegation keeper TokensFromShares *)
Definition tokens_from_shares (share tshare total : Z) : outcome Z :=
  if share >? tshare then Err
  else if tshare =? 0 then (if total =? 0 then Ok 0 else Err)
  else Ok (dec_trunc_int (dec_quo (dec_mul_int share total) tshare)).

Definition zmem (x : Z) (l : list Z) : bool := existsb (Z.eqb x) l.
Definition find_asset (l : list ainfo) (a : Z) : option ainfo := find (fun i => a_id i =? a) l.

(* ---------------------------------------------------------------- the code, clause by clause ---- *)

(* CalculateUSDValueForOperator(isForSlash=false, operator, assetsFilter, decimals, prices):
   IterateAssetsForOperator over the operator's pools, skipping assets outside the filter;
   accumulates (Staking, SelfStaking); any error aborts *)
Fixpoint calc_operator (assets : list ainfo) (filter : list Z) (op : Z) (ps : list pool) (acc : Z * Z) : outcome (Z * Z) :=
  match ps with
  | [] => Ok acc
  | x :: t =>
      if (p_op x =? op) && zmem (p_asset x) filter then
        match find_asset assets (p_asset x) with
        | None => Err                      (* ErrKeyNotExistInMap *)
        | Some i =>
            let staking := fst acc + usd (p_total x) (a_price i) (a_dec i) (a_pdec i) in
            match tokens_from_shares (p_oshare x) (p_tshare x) (p_total x) with
            | Err => Err
            | Ok selfamt =>
                calc_operator assets filter op t (staking, snd acc + usd selfamt (a_price i) (a_dec i) (a_pdec i))
            end
        end
      else calc_operator assets filter op t acc
  end.

(* GetMultipleAssetsPrices fails hard iff some supported asset has no oracle token *)
Definition prices_fail (assets : list ainfo) (filter : list Z) : bool :=
  existsb (fun a => match find_asset assets a with
                    | Some i => match a_pclass i with PcMissing => true | _ => false end
                    | None => true
                    end) filter.

(* IterateOperatorsForAVS(cc, avs, isUpdate=true, opFunc): rows of other AVSs are not visited *)
Fixpoint iterate_rows (e : env) (a : avs) (rows : list row) (power : Z) : outcome (list row * Z) :=
  match rows with
  | [] => Ok ([], power)
  | r :: t =>
      if r_avs r =? v_id a then
        match calc_operator (e_assets e) (v_assets a) (r_op r) (e_pools e) (0, 0) with
        | Err => Err
        | Ok (staking, self) =>
            let active := if self >=? dec_of_int (v_min a) then staking else 0 in
            let power' := if self >=? dec_of_int (v_min a) then power + staking else power in
            match iterate_rows e a t power' with
            | Err => Err
            | Ok (t', pw) => Ok (mkRow (r_avs r) (r_op r) self staking active :: t', pw)
            end
        end
      else match iterate_rows e a t power with
           | Err => Err
           | Ok (t', pw) => Ok (r :: t', pw)
           end
  end.

Definition set_val (l : list (Z * Z)) (k v : Z) : list (Z * Z) :=
  if existsb (fun kv => fst kv =? k) l then map (fun kv => if fst kv =? k then (k, v) else kv) l
  else l ++ [(k, v)].
Definition del_val (l : list (Z * Z)) (k : Z) : list (Z * Z) := filter (fun kv => negb (fst kv =? k)) l.
Definition get_val (l : list (Z * Z)) (k : Z) : option Z :=
  match find (fun kv => fst kv =? k) l with Some kv => Some (snd kv) | None => None end.

(* UpdateVotingPower; the boolean says whether it returned an error *)
Definition update_voting_power (e : env) (a : avs) (s : st) : st * bool :=
  if negb (v_assets_ok a) then
    (mkSt (filter (fun r => negb (r_avs r =? v_id a)) (s_rows s)) (del_val (s_avsval s) (v_id a)), false)
  else if prices_fail (e_assets e) (v_assets a) then (s, true)
  else match iterate_rows e a (s_rows s) 0 with
       | Err => (s, true)                  (* cache context dropped *)
       | Ok (rows', power) => (mkSt rows' (set_val (s_avsval s) (v_id a) power), false)
       end.

(* GetEpochEndAVSs *)
Definition selected (ident num : Z) (a : avs) : bool := (v_epoch a =? ident) && (v_start a - 1 <=? num).

(* AfterEpochEnd: every selected AVS in store order, errors logged and skipped *)
Definition epoch_end (e : env) (s : st) (c : Z * Z) : st :=
  fold_left (fun s a => if selected (fst c) (snd c) a then fst (update_voting_power e a s) else s) (e_avss e) s.

(* one BeginBlocker: the epochs that ended in this block, in hook order *)
Definition step (e : env) (s : st) (calls : list (Z * Z)) : st := fold_left (epoch_end e) calls s.

(* GetOperatorOptedUSDValue *)
Definition get_opted_value (s : st) (opted : bool) (avsid op : Z) : option (Z * Z * Z) :=
  if negb opted then Some (0, 0, 0)
  else match find (fun r => (r_avs r =? avsid) && (r_op r =? op)) (s_rows s) with
       | Some r => Some (r_self r, r_total r, r_active r)
       | None => None
       end.

(* ---------------------------------------------------------------- the property, as a boolean ---- *)
(* Everything below is written as closed-form sums over the dumped pools/prices and looks only at the observed
   (before, after) pair. *)

Definition pool_in (a : avs) (op : Z) (x : pool) : bool := (p_op x =? op) && zmem (p_asset x) (v_assets a).

Definition price_of (assets : list ainfo) (x : pool) : Z * Z * Z :=
  match find_asset assets (p_asset x) with Some i => (a_price i, a_dec i, a_pdec i) | None => (0, 0, 0) end.

Definition usd_pool (assets : list ainfo) (x : pool) (amount : Z) : Z :=
  let '(pr, d, pd) := price_of assets x in usd amount pr d pd.

Definition self_tokens (x : pool) : Z :=
  match tokens_from_shares (p_oshare x) (p_tshare x) (p_total x) with Ok v => v | Err => 0 end.

Definition expected_total (e : env) (a : avs) (op : Z) : Z :=
  zsum (map (fun x => if pool_in a op x then usd_pool (e_assets e) x (p_total x) else 0) (e_pools e)).

Definition expected_self (e : env) (a : avs) (op : Z) : Z :=
  zsum (map (fun x => if pool_in a op x then usd_pool (e_assets e) x (self_tokens x) else 0) (e_pools e)).

Definition expected_active (e : env) (a : avs) (op : Z) : Z :=
  if dec_of_int (v_min a) <=? expected_self e a op then expected_total e a op else 0.

(* the explicit guard of the statement: the calculation of some opted-in operator of the AVS fails *)
Definition op_fails (e : env) (a : avs) (op : Z) : bool :=
  existsb (fun x => pool_in a op x &&
                    (match find_asset (e_assets e) (p_asset x) with None => true | Some _ => false end ||
                     match tokens_from_shares (p_oshare x) (p_tshare x) (p_total x) with Err => true | Ok _ => false end))
          (e_pools e).

Definition rows_of (avsid : Z) (rows : list row) : list row := filter (fun r => r_avs r =? avsid) rows.

Definition avs_fails_id (e : env) (a : avs) (id : Z) (rows : list row) : bool :=
  prices_fail (e_assets e) (v_assets a) || existsb (fun r => op_fails e a (r_op r)) (rows_of id rows).
Definition avs_fails (e : env) (a : avs) (rows : list row) : bool := avs_fails_id e a (v_id a) rows.

(* The guard as the STATEMENT grants it: a priced pool of an opted-in operator that holds an amount whose token equivalent
   cannot be computed (amount without shares, self share above the total share).  An EMPTY pool (amount 0) is never an
   excuse: its value is 0 whatever the leftover share fields say — if the code chokes on it, the statement is violated. *)
Definition op_fails_stmt (e : env) (a : avs) (op : Z) : bool :=
  existsb (fun x => pool_in a op x &&
                    (match find_asset (e_assets e) (p_asset x) with None => true | Some _ => false end ||
                     (match tokens_from_shares (p_oshare x) (p_tshare x) (p_total x) with Err => true | Ok _ => false end &&
                      negb (p_total x =? 0))))
          (e_pools e).
Definition avs_fails_stmt_id (e : env) (a : avs) (id : Z) (rows : list row) : bool :=
  prices_fail (e_assets e) (v_assets a) || existsb (fun r => op_fails_stmt e a (r_op r)) (rows_of id rows).

(* ledger invariant (share accounting, C02 / slash share clearing): an empty pool has no self share above its total share *)
Definition empty_pools_sane (e : env) : bool :=
  forallb (fun x => negb (p_total x =? 0) || (p_oshare x <=? p_tshare x)) (e_pools e).

Definition row_eqb (a b : row) : bool :=
  (r_avs a =? r_avs b) && (r_op a =? r_op b) && (r_self a =? r_self b) && (r_total a =? r_total b) &&
  (r_active a =? r_active b).

Definition oz_eqb (a b : option Z) : bool := option_eqb Z.eqb a b.

Fixpoint forall2b {A} (f : A -> A -> bool) (l1 l2 : list A) : bool :=
  match l1, l2 with
  | [] , [] => true
  | a :: r1, b :: r2 => f a b && forall2b f r1 r2
  | _, _ => false
  end.

Definition sel_any (calls : list (Z * Z)) (a : avs) : bool := existsb (fun c => selected (fst c) (snd c) a) calls.

(* the statement for one AVS across one block, for the rows stored under key [id] *)
Definition avs_ok_id (e : env) (calls : list (Z * Z)) (s s' : st) (a : avs) (id : Z) : bool :=
  let before := rows_of id (s_rows s) in
  let after := rows_of id (s_rows s') in
  if negb (sel_any calls a) then
    list_eqb row_eqb before after && oz_eqb (get_val (s_avsval s) id) (get_val (s_avsval s') id)
  else if negb (v_assets_ok a) then
    (match after with [] => true | _ => false end) && oz_eqb (get_val (s_avsval s') id) None
  else if avs_fails_stmt_id e a id (s_rows s) then
    (* failure keeps the old values *)
    list_eqb row_eqb before after && oz_eqb (get_val (s_avsval s) id) (get_val (s_avsval s') id)
  else
    forall2b (fun r r' => (r_avs r' =? r_avs r) && (r_op r' =? r_op r) &&
                          (r_total r' =? expected_total e a (r_op r)) &&
                          (r_self r' =? expected_self e a (r_op r)) &&
                          (r_active r' =? expected_active e a (r_op r)) &&
                          (0 <=? r_total r') && (0 <=? r_self r') && (0 <=? r_active r')) before after &&
    oz_eqb (get_val (s_avsval s') id) (Some (zsum (map r_active after))).

(* every key string under which operators are opted into this AVS must obey the statement
   (an alias spelling under which nothing is stored has nothing to obey) *)
Definition avs_ok (e : env) (calls : list (Z * Z)) (s s' : st) (a : avs) : bool :=
  avs_ok_id e calls s s' a (v_id a) &&
  forallb (fun al => match rows_of al (s_rows s), rows_of al (s_rows s') with
                     | [], [] => true
                     | _, _ => avs_ok_id e calls s s' a al
                     end) (v_aliases a).

Definition known_avs (e : env) (id : Z) : bool := existsb (fun a => v_id a =? id) (e_avss e).

Definition step_ok (e : env) (calls : list (Z * Z)) (s s' : st) : bool :=
  forallb (avs_ok e calls s s') (e_avss e) &&
  (* rows / values that belong to no registered AVS are not touched *)
  list_eqb row_eqb (filter (fun r => negb (known_avs e (r_avs r))) (s_rows s))
                   (filter (fun r => negb (known_avs e (r_avs r))) (s_rows s')) &&
  list_eqb (fun x y => (fst x =? fst y) && (snd x =? snd y))
           (filter (fun kv => negb (known_avs e (fst kv))) (s_avsval s))
           (filter (fun kv => negb (known_avs e (fst kv))) (s_avsval s')) &&
  (* nothing appears under a key that did not exist: same (avs, operator) keys unless an AVS was wiped *)
  forallb (fun r' => existsb (fun r => (r_avs r =? r_avs r') && (r_op r =? r_op r')) (s_rows s)) (s_rows s').

(* ---------------------------------------------------------------- opt-in / opt-out (rows only) ---- *)

(* avsKeeper.IsAVS as repaired: the address is registered AND spelled exactly as registered (it used to be: any spelling
   of the registered address bytes, i.e. canonical id or alias) *)
Definition is_avs (e : env) (key : Z) : bool := existsb (fun a => v_id a =? key) (e_avss e).
Definition is_alias (e : env) (key : Z) : bool := existsb (fun a => zmem key (v_aliases a)) (e_avss e).

Definition has_row (rows : list row) (key op : Z) : bool := existsb (fun r => (r_avs r =? key) && (r_op r =? op)) rows.

(* OptIn, as far as the value rows are concerned: [pre] stands for all the other checks of OptIn (operator registered, not
   opted in yet, not removing its key, self value >= minimum, not frozen); when they pass and IsAVS accepts the key,
   InitOperatorUSDValue creates the zero row under exactly that key *)
Definition opt_in (e : env) (s : st) (key op : Z) (pre : bool) : st :=
  if pre && is_avs e key && negb (has_row (s_rows s) key op)
  then mkSt (s_rows s ++ [mkRow key op 0 0 0]) (s_avsval s) else s.

(* OptOut: DeleteOperatorUSDValue *)
Definition opt_out (e : env) (s : st) (key op : Z) (pre : bool) : st :=
  if pre && is_avs e key then mkSt (filter (fun r => negb ((r_avs r =? key) && (r_op r =? op))) (s_rows s)) (s_avsval s) else s.

(* no row and no AVS value is stored under an alias spelling of a registered AVS *)
Definition alias_free (e : env) (s : st) : bool :=
  forallb (fun r => negb (is_alias e (r_avs r))) (s_rows s) && forallb (fun kv => negb (is_alias e (fst kv))) (s_avsval s).
(* an alias spelling is not itself a registered spelling *)
Definition aliases_disjoint (e : env) : bool := forallb (fun a => negb (is_alias e (v_id a))) (e_avss e).

(* ---------------------------------------------------------------- cases written by the harness ---- *)

Record query := mkQ { q_avs : Z; q_op : Z; q_opted : bool; q_res : option (Z * Z * Z) }.

(* GetVotePowerForChainID for one operator of the chain-type AVS: ActiveUSDValue.TruncateInt64() *)
Record vquery := mkVQ { vq_avs : Z; vq_op : Z; vq_opted : bool; vq_power : option Z }.

Definition vote_power (s : st) (opted : bool) (avsid op : Z) : option Z :=
  match get_opted_value s opted avsid op with Some (_, _, ac) => Some (dec_trunc_int ac) | None => None end.

Record cstep := mkStep { t_env : env; t_calls : list (Z * Z); t_before : st; t_after : st; t_queries : list query;
                         t_votes : list vquery }.
(* one observed OperatorKeeper.OptIn call: registry, key string id, operator, accepted?, rows before / after *)
Record ostep := mkO { o_avss : list avs; o_key : Z; o_op : Z; o_ok : bool; o_before : list row; o_after : list row }.

Record case := mkCase { c_steps : list cstep; c_optins : list ostep }.

Fixpoint nodupb {A} (eqb : A -> A -> bool) (l : list A) : bool :=
  match l with [] => true | a :: t => negb (existsb (eqb a) t) && nodupb eqb t end.
Definition z2_eqb (a b : Z * Z) : bool := (fst a =? fst b) && (snd a =? snd b).

(* representation invariants of the dumps (distinct KV keys) *)
Definition wf_dump (e : env) (s : st) : bool :=
  nodupb Z.eqb (map v_id (e_avss e)) &&
  nodupb z2_eqb (map (fun r => (r_avs r, r_op r)) (s_rows s)) &&
  nodupb Z.eqb (map fst (s_avsval s)) &&
  nodupb z2_eqb (map (fun x => (p_op x, p_asset x)) (e_pools e)) &&
  nodupb Z.eqb (map a_id (e_assets e)).

Definition z3o_eqb (a b : option (Z * Z * Z)) : bool :=
  option_eqb (fun x y => let '(x1, x2, x3) := x in let '(y1, y2, y3) := y in (x1 =? y1) && (x2 =? y2) && (x3 =? y3)) a b.

Definition vals_sub (a b : list (Z * Z)) : bool := forallb (fun x => existsb (z2_eqb x) b) a.
Definition vals_eqb (a b : list (Z * Z)) : bool :=
  Nat.eqb (List.length a) (List.length b) && vals_sub a b && vals_sub b a.

Definition st_eqb (a b : st) : bool := list_eqb row_eqb (s_rows a) (s_rows b) && vals_eqb (s_avsval a) (s_avsval b).

Definition queries_model (s : st) (qs : list query) : bool :=
  forallb (fun q => z3o_eqb (get_opted_value s (q_opted q) (q_avs q) (q_op q)) (q_res q)) qs.

(* the not-opted-in clause and the read-back clause of the statement, on observations *)
Definition queries_ok (s : st) (qs : list query) : bool :=
  forallb (fun q => if q_opted q
                    then match q_res q with
                         | Some (sf, tl, ac) =>
                             existsb (fun r => (r_avs r =? q_avs q) && (r_op r =? q_op q) && (r_self r =? sf) &&
                                               (r_total r =? tl) && (r_active r =? ac)) (s_rows s)
                         | None => negb (existsb (fun r => (r_avs r =? q_avs q) && (r_op r =? q_op q)) (s_rows s))
                         end
                    else z3o_eqb (q_res q) (Some (0, 0, 0))) qs.

Definition votes_model (s : st) (vs : list vquery) : bool :=
  forallb (fun q => oz_eqb (vote_power s (vq_opted q) (vq_avs q) (vq_op q)) (vq_power q)) vs.

(* voting power handed to the validator set = whole USD of the recorded active value; nothing for a non-member *)
Definition votes_ok (s : st) (vs : list vquery) : bool :=
  forallb (fun q => if vq_opted q
                    then match vq_power q with
                         | Some pw => existsb (fun r => (r_avs r =? vq_avs q) && (r_op r =? vq_op q) &&
                                                        (pw * P <=? r_active r) && (r_active r <? (pw + 1) * P)) (s_rows s)
                         | None => negb (existsb (fun r => (r_avs r =? vq_avs q) && (r_op r =? vq_op q)) (s_rows s))
                         end
                    else oz_eqb (vq_power q) (Some 0)) vs.

Definition rows_sub (a b : list row) : bool := forallb (fun x => existsb (row_eqb x) b) a.
Definition rows_seteq (a b : list row) : bool := Nat.eqb (List.length a) (List.length b) && rows_sub a b && rows_sub b a.

(* model = implementation for an opt-in (the unmodelled checks are read off the observed result) *)
Definition check_optin (o : ostep) : bool :=
  let e := mkEnv [] [] (o_avss o) in
  if o_ok o then rows_seteq (s_rows (opt_in e (mkSt (o_before o) []) (o_key o) (o_op o) true)) (o_after o) &&
                 negb (list_eqb row_eqb (o_before o) (o_after o))
  else list_eqb row_eqb (o_before o) (o_after o).

(* the statement's side: an accepted opt-in names a registered AVS by its registered spelling and creates exactly the zero
   row under that key; a rejected one changes nothing *)
Definition optin_ok (o : ostep) : bool :=
  if o_ok o then existsb (fun a => v_id a =? o_key o) (o_avss o) && negb (has_row (o_before o) (o_key o) (o_op o)) &&
                 rows_seteq (o_before o ++ [mkRow (o_key o) (o_op o) 0 0 0]) (o_after o)
  else list_eqb row_eqb (o_before o) (o_after o).

Fixpoint first_bad {A} (f : A -> bool) (l : list A) (i : nat) : option nat :=
  match l with [] => None | a :: t => if f a then first_bad f t (S i) else Some i end.

Fixpoint check_steps (ts : list cstep) (i : nat) : option nat :=
  match ts with
  | [] => None
  | t :: r =>
      if wf_dump (t_env t) (t_before t) &&
         st_eqb (step (t_env t) (t_before t) (t_calls t)) (t_after t) &&
         queries_model (t_after t) (t_queries t) && votes_model (t_after t) (t_votes t)
      then check_steps r (S i) else Some i
  end.
Definition check_case (c : case) : option nat :=
  match check_steps (c_steps c) 0 with Some i => Some i | None => first_bad check_optin (c_optins c) 100 end.

Fixpoint monitor_steps (ts : list cstep) (i : nat) : option nat :=
  match ts with
  | [] => None
  | t :: r =>
      if step_ok (t_env t) (t_calls t) (t_before t) (t_after t) && queries_ok (t_after t) (t_queries t) &&
         votes_ok (t_after t) (t_votes t)
      then monitor_steps r (S i) else Some i
  end.
Definition monitor_case (c : case) : option nat :=
  match monitor_steps (c_steps c) 0 with Some i => Some i | None => first_bad optin_ok (c_optins c) 100 end.
