(* C05/Proofs.v — lemmas about the voting-power model. *)
From Coq Require Import List ZArith Bool Lia.
From Exo Require Import Base.IntDec Base.Util C05.Model.
Import ListNotations.
Local Open Scope Z_scope.

(* ------------------------------------------------------------------ arithmetic ---- *)

Lemma usd_nonneg amount price dec pdec : 0 <= amount -> 0 <= price -> 0 <= dec -> 0 <= pdec ->
  0 <= usd amount price dec pdec.
Proof.
  intros. unfold usd, dec_quo_int, dec_of_int. pose proof P_pos.
  assert (0 < 10 ^ (dec + pdec)) by (apply Z.pow_pos_nonneg; lia).
  apply Z.quot_pos; nia.
Qed.

(* monotone in the amount and in the price, over the whole non-negative domain *)
Lemma usd_mono amount amount' price price' dec pdec :
  0 <= amount -> amount <= amount' -> 0 <= price -> price <= price' -> 0 <= dec -> 0 <= pdec ->
  usd amount price dec pdec <= usd amount' price' dec pdec.
Proof.
  intros. unfold usd, dec_quo_int, dec_of_int. pose proof P_pos.
  assert (0 < 10 ^ (dec + pdec)) by (apply Z.pow_pos_nonneg; lia).
  assert (amount * price <= amount' * price') by (apply Z.mul_le_mono_nonneg; lia).
  apply Z.quot_le_mono; [lia|]. apply Z.mul_le_mono_nonneg_r; lia.
Qed.

(* the formula of the statement: amount * price / 10^(decimals + price decimals), truncated at 18 places *)
Lemma usd_formula amount price dec pdec : 0 <= amount -> 0 <= price -> 0 <= dec -> 0 <= pdec ->
  usd amount price dec pdec = (amount * price * P) / 10 ^ (dec + pdec).
Proof.
  intros. unfold usd, dec_quo_int, dec_of_int. pose proof P_pos.
  assert (0 < 10 ^ (dec + pdec)) by (apply Z.pow_pos_nonneg; lia).
  apply Z.quot_div_nonneg; nia.
Qed.

Lemma tokens_nonneg share tshare total v : 0 <= share -> 0 <= tshare -> 0 <= total ->
  tokens_from_shares share tshare total = Ok v -> 0 <= v.
Proof.
  intros Hs Ht Hto. unfold tokens_from_shares.
  destruct (share >? tshare); [discriminate|].
  destruct (Z.eqb_spec tshare 0).
  - destruct (total =? 0); [|discriminate]. intros H. inversion H. lia.
  - intros H. inversion H. apply dec_trunc_int_nonneg. apply dec_quo_nonneg; [unfold dec_mul_int; nia|lia].
Qed.

(* ------------------------------------------------------------------ list helpers ---- *)

Lemma zsum_cons a l : zsum (a :: l) = a + zsum l.
Proof. reflexivity. Qed.

Lemma forall2b_map {A} (f : A -> A -> bool) (g : A -> A) l :
  forall2b f l (map g l) = forallb (fun x => f x (g x)) l.
Proof. induction l as [|a r IH]; simpl; [reflexivity|]. rewrite IH. reflexivity. Qed.

Lemma row_eqb_refl r : row_eqb r r = true.
Proof. unfold row_eqb. rewrite !Z.eqb_refl. reflexivity. Qed.

Lemma rows_eqb_refl l : list_eqb row_eqb l l = true.
Proof. apply list_eqb_refl. apply row_eqb_refl. Qed.

Lemma oz_eqb_refl o : oz_eqb o o = true.
Proof. destruct o; simpl; [apply Z.eqb_refl|reflexivity]. Qed.

Lemma vals_list_eqb_refl (l : list (Z * Z)) : list_eqb (fun x y => (fst x =? fst y) && (snd x =? snd y)) l l = true.
Proof. apply list_eqb_refl. intros x. rewrite !Z.eqb_refl. reflexivity. Qed.

Lemma existsb_filter {A} (f g : A -> bool) l : existsb f (filter g l) = existsb (fun x => g x && f x) l.
Proof. induction l as [|a r IH]; simpl; [reflexivity|]. destruct (g a); simpl; rewrite IH; reflexivity. Qed.

(* ------------------------------------------------------------------ CalculateUSDValueForOperator ---- *)

Definition fail_pool (assets : list ainfo) (filter : list Z) (op : Z) (x : pool) : bool :=
  ((p_op x =? op) && zmem (p_asset x) filter) &&
  (match find_asset assets (p_asset x) with None => true | Some _ => false end ||
   match tokens_from_shares (p_oshare x) (p_tshare x) (p_total x) with Err => true | Ok _ => false end).

Lemma calc_operator_spec assets filter op ps : forall t0 s0,
  calc_operator assets filter op ps (t0, s0) =
  if existsb (fail_pool assets filter op) ps then Err
  else Ok (t0 + zsum (map (fun x => if (p_op x =? op) && zmem (p_asset x) filter then usd_pool assets x (p_total x) else 0) ps),
           s0 + zsum (map (fun x => if (p_op x =? op) && zmem (p_asset x) filter then usd_pool assets x (self_tokens x) else 0) ps)).
Proof.
  induction ps as [|x t IH]; intros t0 s0.
  - simpl. f_equal. f_equal; lia.
  - cbn [calc_operator existsb map]. rewrite !zsum_cons. unfold fail_pool at 1.
    destruct ((p_op x =? op) && zmem (p_asset x) filter) eqn:Ein.
    + destruct (find_asset assets (p_asset x)) as [i|] eqn:Ef; [|reflexivity].
      destruct (tokens_from_shares (p_oshare x) (p_tshare x) (p_total x)) as [v|] eqn:Et; [|reflexivity].
      cbn [fst snd andb orb]. rewrite IH.
      destruct (existsb (fail_pool assets filter op) t); [reflexivity|]. f_equal. f_equal.
      * unfold usd_pool, price_of. rewrite Ef. lia.
      * unfold usd_pool, price_of, self_tokens. rewrite Ef, Et. lia.
    + cbn [andb orb]. rewrite IH.
      destruct (existsb (fail_pool assets filter op) t); [reflexivity|]. apply f_equal. apply f_equal2; lia.
Qed.

Lemma op_fails_eq e a op : op_fails e a op = existsb (fail_pool (e_assets e) (v_assets a) op) (e_pools e).
Proof. reflexivity. Qed.

Lemma calc_operator_top e a op :
  calc_operator (e_assets e) (v_assets a) op (e_pools e) (0, 0) =
  if op_fails e a op then Err else Ok (expected_total e a op, expected_self e a op).
Proof. rewrite calc_operator_spec, op_fails_eq. destruct (existsb _ _); reflexivity. Qed.

(* ------------------------------------------------------------------ IterateOperatorsForAVS ---- *)

Definition new_row (e : env) (a : avs) (r : row) : row :=
  mkRow (r_avs r) (r_op r) (expected_self e a (r_op r)) (expected_total e a (r_op r)) (expected_active e a (r_op r)).

Definition upd_row (e : env) (a : avs) (r : row) : row := if r_avs r =? v_id a then new_row e a r else r.

Lemma iterate_rows_spec e a rows : forall pw,
  iterate_rows e a rows pw =
  if existsb (fun r => (r_avs r =? v_id a) && op_fails e a (r_op r)) rows then Err
  else Ok (map (upd_row e a) rows,
           pw + zsum (map (fun r => if r_avs r =? v_id a then expected_active e a (r_op r) else 0) rows)).
Proof.
  induction rows as [|r t IH]; intros pw.
  - simpl. apply f_equal; apply f_equal2; [reflexivity|lia].
  - cbn [iterate_rows existsb map]. rewrite zsum_cons. unfold upd_row at 1.
    destruct (r_avs r =? v_id a) eqn:Ea.
    + rewrite calc_operator_top. destruct (op_fails e a (r_op r)) eqn:Efail; [reflexivity|]. cbn [andb orb].
      rewrite IH. destruct (existsb _ t); [reflexivity|].
      unfold new_row, expected_active. rewrite Z.geb_leb.
      destruct (dec_of_int (v_min a) <=? expected_self e a (r_op r)); apply f_equal; apply f_equal2; try reflexivity; lia.
    + cbn [andb orb]. rewrite IH. destruct (existsb _ t); [reflexivity|]. apply f_equal; apply f_equal2; [reflexivity|lia].
Qed.

(* ------------------------------------------------------------------ views: what one AVS owns ---- *)

Lemma upd_row_avs e a r : r_avs (upd_row e a r) = r_avs r.
Proof. unfold upd_row. destruct (r_avs r =? v_id a); reflexivity. Qed.

(* a filter that rejects every row of AVS [a] does not see the update of [a] *)
Lemma filter_upd_other (Q : row -> bool) e a rows :
  (forall r, r_avs r = v_id a -> Q r = false) -> filter Q (map (upd_row e a) rows) = filter Q rows.
Proof.
  intros HQ. induction rows as [|r t IH]; simpl; [reflexivity|]. rewrite IH. unfold upd_row.
  destruct (Z.eqb_spec (r_avs r) (v_id a)) as [E|E]; [|reflexivity].
  rewrite (HQ r E), (HQ (new_row e a r)) by exact E. reflexivity.
Qed.

Lemma filter_del_other (Q : row -> bool) a rows :
  (forall r, r_avs r = v_id a -> Q r = false) ->
  filter Q (filter (fun r => negb (r_avs r =? v_id a)) rows) = filter Q rows.
Proof.
  intros HQ. induction rows as [|r t IH]; simpl; [reflexivity|].
  destruct (Z.eqb_spec (r_avs r) (v_id a)) as [E|E]; simpl; rewrite IH; [rewrite (HQ r E)|]; reflexivity.
Qed.

Lemma rows_of_upd_self e a rows :
  rows_of (v_id a) (map (upd_row e a) rows) = map (new_row e a) (rows_of (v_id a) rows).
Proof.
  unfold rows_of. induction rows as [|r t IH]; simpl; [reflexivity|]. rewrite IH. unfold upd_row.
  destruct (r_avs r =? v_id a) eqn:E; simpl; rewrite E; reflexivity.
Qed.

Lemma rows_of_del_self a rows : rows_of (v_id a) (filter (fun r => negb (r_avs r =? v_id a)) rows) = [].
Proof.
  unfold rows_of. induction rows as [|r t IH]; simpl; [reflexivity|].
  destruct (r_avs r =? v_id a) eqn:E; simpl; [assumption|]. rewrite E. assumption.
Qed.

Lemma active_sum e a rows :
  zsum (map (fun r => if r_avs r =? v_id a then expected_active e a (r_op r) else 0) rows) =
  zsum (map r_active (map (new_row e a) (rows_of (v_id a) rows))).
Proof.
  unfold rows_of. induction rows as [|r t IH]; simpl; [reflexivity|].
  destruct (r_avs r =? v_id a); simpl; rewrite IH; reflexivity.
Qed.

(* association list of AVS values *)
Lemma get_set_same l k v : get_val (set_val l k v) k = Some v.
Proof.
  unfold set_val, get_val. destruct (existsb (fun kv => fst kv =? k) l) eqn:E.
  - induction l as [|[k0 v0] t IH]; simpl in *; [discriminate|].
    destruct (Z.eqb_spec k0 k) as [E0|E0]; simpl.
    + rewrite Z.eqb_refl. reflexivity.
    + destruct (Z.eqb_spec k0 k); [contradiction|]. apply IH. assumption.
  - induction l as [|[k0 v0] t IH]; simpl in *.
    + rewrite Z.eqb_refl. reflexivity.
    + apply orb_false_iff in E. destruct E as [E1 E2]. rewrite E1. apply IH. assumption.
Qed.

Lemma get_set_other l k v k' : k' <> k -> get_val (set_val l k v) k' = get_val l k'.
Proof.
  intros Hne. unfold set_val, get_val. destruct (existsb (fun kv => fst kv =? k) l).
  - induction l as [|[k0 v0] t IH]; simpl; [reflexivity|].
    destruct (Z.eqb_spec k0 k) as [E0|E0]; simpl.
    + subst k0. destruct (Z.eqb_spec k k'); [congruence|]. exact IH.
    + destruct (Z.eqb_spec k0 k'); [reflexivity|]. exact IH.
  - induction l as [|[k0 v0] t IH]; simpl.
    + destruct (Z.eqb_spec k k'); [congruence|reflexivity].
    + destruct (k0 =? k'); [reflexivity|]. exact IH.
Qed.

Lemma get_del_same l k : get_val (del_val l k) k = None.
Proof.
  unfold del_val, get_val. induction l as [|[k0 v0] t IH]; simpl; [reflexivity|].
  destruct (k0 =? k) eqn:E; simpl; [exact IH|]. rewrite E. exact IH.
Qed.

Lemma get_del_other l k k' : k' <> k -> get_val (del_val l k) k' = get_val l k'.
Proof.
  intros Hne. unfold del_val, get_val. induction l as [|[k0 v0] t IH]; simpl; [reflexivity|].
  destruct (Z.eqb_spec k0 k) as [E|E]; simpl.
  - subst. destruct (Z.eqb_spec k k'); [congruence|]. exact IH.
  - destruct (k0 =? k'); [reflexivity|]. exact IH.
Qed.

Lemma filter_set_other (Q : Z -> bool) l k v : Q k = false ->
  filter (fun kv => Q (fst kv)) (set_val l k v) = filter (fun kv => Q (fst kv)) l.
Proof.
  intros HQ. unfold set_val. destruct (existsb (fun kv => fst kv =? k) l).
  - induction l as [|[k0 v0] t IH]; simpl; [reflexivity|]. rewrite IH.
    destruct (Z.eqb_spec k0 k) as [E|E]; simpl; [subst; rewrite HQ|]; reflexivity.
  - rewrite filter_app. simpl. rewrite HQ. apply app_nil_r.
Qed.

Lemma filter_delv_other (Q : Z -> bool) l k : Q k = false ->
  filter (fun kv => Q (fst kv)) (del_val l k) = filter (fun kv => Q (fst kv)) l.
Proof.
  intros HQ. unfold del_val. induction l as [|[k0 v0] t IH]; simpl; [reflexivity|].
  destruct (Z.eqb_spec k0 k) as [E|E]; simpl; rewrite IH; [subst; rewrite HQ|]; reflexivity.
Qed.

(* ------------------------------------------------------------------ UpdateVotingPower ---- *)

Definition view (id : Z) (s : st) : list row * option Z := (rows_of id (s_rows s), get_val (s_avsval s) id).

(* what UpdateVotingPower does to the AVS's own rows and value *)
Definition F (e : env) (a : avs) (v : list row * option Z) : list row * option Z :=
  if negb (v_assets_ok a) then ([], None)
  else if prices_fail (e_assets e) (v_assets a) || existsb (fun r => op_fails e a (r_op r)) (fst v) then v
  else (map (new_row e a) (fst v), Some (zsum (map r_active (map (new_row e a) (fst v))))).

Lemma fails_rows_of e a rows :
  existsb (fun r => (r_avs r =? v_id a) && op_fails e a (r_op r)) rows =
  existsb (fun r => op_fails e a (r_op r)) (rows_of (v_id a) rows).
Proof. unfold rows_of. rewrite existsb_filter. reflexivity. Qed.

Lemma update_self e a s : view (v_id a) (fst (update_voting_power e a s)) = F e a (view (v_id a) s).
Proof.
  unfold update_voting_power, F, view. cbn [fst snd].
  destruct (v_assets_ok a); cbn [negb].
  - destruct (prices_fail (e_assets e) (v_assets a)); cbn [orb fst]; [reflexivity|].
    rewrite iterate_rows_spec, fails_rows_of.
    destruct (existsb (fun r => op_fails e a (r_op r)) (rows_of (v_id a) (s_rows s))); cbn [fst]; [reflexivity|].
    cbn [s_rows s_avsval]. rewrite rows_of_upd_self, get_set_same, active_sum. apply f_equal. apply f_equal. lia.
  - cbn [fst s_rows s_avsval]. rewrite rows_of_del_self, get_del_same. reflexivity.
Qed.

Lemma update_rows_other (Q : row -> bool) e a s :
  (forall r, r_avs r = v_id a -> Q r = false) ->
  filter Q (s_rows (fst (update_voting_power e a s))) = filter Q (s_rows s).
Proof.
  intros HQ. unfold update_voting_power.
  destruct (v_assets_ok a); cbn [negb].
  - destruct (prices_fail (e_assets e) (v_assets a)); [reflexivity|].
    rewrite iterate_rows_spec. destruct (existsb _ (s_rows s)); [reflexivity|].
    cbn [fst s_rows]. apply filter_upd_other. assumption.
  - cbn [fst s_rows]. apply filter_del_other. assumption.
Qed.

Lemma update_vals_other (Q : Z -> bool) e a s : Q (v_id a) = false ->
  filter (fun kv => Q (fst kv)) (s_avsval (fst (update_voting_power e a s))) = filter (fun kv => Q (fst kv)) (s_avsval s).
Proof.
  intros HQ. unfold update_voting_power.
  destruct (v_assets_ok a); cbn [negb].
  - destruct (prices_fail (e_assets e) (v_assets a)); [reflexivity|].
    rewrite iterate_rows_spec. destruct (existsb _ (s_rows s)); [reflexivity|].
    cbn [fst s_avsval]. apply filter_set_other. assumption.
  - cbn [fst s_avsval]. apply filter_delv_other. assumption.
Qed.

Lemma update_get_other e a s id : id <> v_id a ->
  get_val (s_avsval (fst (update_voting_power e a s))) id = get_val (s_avsval s) id.
Proof.
  intros Hne. unfold update_voting_power.
  destruct (v_assets_ok a); cbn [negb].
  - destruct (prices_fail (e_assets e) (v_assets a)); [reflexivity|].
    rewrite iterate_rows_spec. destruct (existsb _ (s_rows s)); [reflexivity|].
    cbn [fst s_avsval]. apply get_set_other. assumption.
  - cbn [fst s_avsval]. apply get_del_other. assumption.
Qed.

Lemma update_other e a s id : id <> v_id a -> view id (fst (update_voting_power e a s)) = view id s.
Proof.
  intros Hne. unfold view. f_equal.
  - unfold rows_of. apply update_rows_other. intros r Hr. apply Z.eqb_neq. congruence.
  - apply update_get_other. assumption.
Qed.

(* keys never appear *)
Definition keys_sub (s' s : st) : bool :=
  forallb (fun r' => existsb (fun r => (r_avs r =? r_avs r') && (r_op r =? r_op r')) (s_rows s)) (s_rows s').

Lemma keys_sub_refl s : keys_sub s s = true.
Proof.
  unfold keys_sub. apply forallb_forall. intros r Hr. apply existsb_exists. exists r.
  rewrite !Z.eqb_refl. split; [assumption|reflexivity].
Qed.

Lemma keys_sub_trans s3 s2 s1 : keys_sub s3 s2 = true -> keys_sub s2 s1 = true -> keys_sub s3 s1 = true.
Proof.
  unfold keys_sub. intros H32 H21. apply forallb_forall. intros r3 Hr3.
  rewrite forallb_forall in H32, H21. specialize (H32 r3 Hr3). apply existsb_exists in H32.
  destruct H32 as [r2 [Hr2 E2]]. specialize (H21 r2 Hr2). apply existsb_exists in H21.
  destruct H21 as [r1 [Hr1 E1]]. apply existsb_exists. exists r1. split; [assumption|].
  apply andb_prop in E2. destruct E2 as [A2 B2]. apply andb_prop in E1. destruct E1 as [A1 B1].
  apply Z.eqb_eq in A2, B2, A1, B1. rewrite A1, A2, B1, B2, !Z.eqb_refl. reflexivity.
Qed.

Lemma update_keys_sub e a s : keys_sub (fst (update_voting_power e a s)) s = true.
Proof.
  unfold update_voting_power.
  destruct (v_assets_ok a); cbn [negb].
  - destruct (prices_fail (e_assets e) (v_assets a)); [apply keys_sub_refl|].
    rewrite iterate_rows_spec. destruct (existsb _ (s_rows s)); [apply keys_sub_refl|].
    unfold keys_sub. cbn [fst s_rows]. apply forallb_forall. intros r' Hr'.
    apply in_map_iff in Hr'. destruct Hr' as [r [Hr Hin]]. apply existsb_exists. exists r. split; [assumption|].
    subst r'. unfold upd_row. destruct (r_avs r =? v_id a); simpl; rewrite !Z.eqb_refl; reflexivity.
  - unfold keys_sub. cbn [fst s_rows]. apply forallb_forall. intros r' Hr'.
    apply filter_In in Hr'. destruct Hr' as [Hin _]. apply existsb_exists. exists r'. split; [assumption|].
    rewrite !Z.eqb_refl. reflexivity.
Qed.

(* ------------------------------------------------------------------ AfterEpochEnd ---- *)

Definition upd_if (e : env) (c : Z * Z) (s : st) (a : avs) : st :=
  if selected (fst c) (snd c) a then fst (update_voting_power e a s) else s.

Lemma epoch_end_fold e s c : epoch_end e s c = fold_left (upd_if e c) (e_avss e) s.
Proof. reflexivity. Qed.

Lemma fold_view e c l : NoDup (map v_id l) -> forall s,
  (forall a, In a l -> view (v_id a) (fold_left (upd_if e c) l s) =
                       if selected (fst c) (snd c) a then F e a (view (v_id a) s) else view (v_id a) s) /\
  (forall id, ~ In id (map v_id l) -> view id (fold_left (upd_if e c) l s) = view id s).
Proof.
  induction l as [|b t IH]; intros Hnd s.
  - split; [intros a []|reflexivity].
  - simpl in Hnd. inversion Hnd as [|x xs Hnotin Hnd']; subst. specialize (IH Hnd').
    cbn [fold_left]. destruct (IH (upd_if e c s b)) as [IH1 IH2]. split.
    + intros a [Hab|Hat].
      * subst b. rewrite IH2 by assumption. unfold upd_if.
        destruct (selected (fst c) (snd c) a); [apply update_self|reflexivity].
      * rewrite (IH1 a Hat).
        assert (Hne : v_id a <> v_id b).
        { intros E. apply Hnotin. rewrite <- E. apply in_map. assumption. }
        assert (Hv : view (v_id a) (upd_if e c s b) = view (v_id a) s).
        { unfold upd_if. destruct (selected (fst c) (snd c) b); [apply update_other; assumption|reflexivity]. }
        rewrite Hv. reflexivity.
    + intros id Hid. rewrite IH2 by (intros Hin; apply Hid; right; assumption).
      unfold upd_if. destruct (selected (fst c) (snd c) b); [|reflexivity].
      apply update_other. intros E. apply Hid. left. symmetry. assumption.
Qed.

Lemma fold_rows_other (Q : row -> bool) e c l : forall s,
  (forall a r, In a l -> r_avs r = v_id a -> Q r = false) ->
  filter Q (s_rows (fold_left (upd_if e c) l s)) = filter Q (s_rows s).
Proof.
  induction l as [|b t IH]; intros s HQ; [reflexivity|]. cbn [fold_left].
  rewrite IH by (intros a r Ha; apply HQ; right; assumption).
  unfold upd_if. destruct (selected (fst c) (snd c) b); [|reflexivity].
  apply update_rows_other. intros r. apply HQ. left. reflexivity.
Qed.

Lemma fold_vals_other (Q : Z -> bool) e c l : forall s,
  (forall a, In a l -> Q (v_id a) = false) ->
  filter (fun kv => Q (fst kv)) (s_avsval (fold_left (upd_if e c) l s)) = filter (fun kv => Q (fst kv)) (s_avsval s).
Proof.
  induction l as [|b t IH]; intros s HQ; [reflexivity|]. cbn [fold_left].
  rewrite IH by (intros a Ha; apply HQ; right; assumption).
  unfold upd_if. destruct (selected (fst c) (snd c) b); [|reflexivity].
  apply update_vals_other. apply HQ. left. reflexivity.
Qed.

Lemma fold_keys_sub e c l : forall s, keys_sub (fold_left (upd_if e c) l s) s = true.
Proof.
  induction l as [|b t IH]; intros s; [apply keys_sub_refl|]. cbn [fold_left].
  eapply keys_sub_trans; [apply IH|]. unfold upd_if.
  destruct (selected (fst c) (snd c) b); [apply update_keys_sub|apply keys_sub_refl].
Qed.

(* ------------------------------------------------------------------ the statement ---- *)

Definition env_nonneg (e : env) : bool :=
  forallb (fun x => (0 <=? p_total x) && (0 <=? p_tshare x) && (0 <=? p_oshare x)) (e_pools e) &&
  forallb (fun i => (0 <=? a_price i) && (0 <=? a_pdec i) && (0 <=? a_dec i)) (e_assets e).

Lemma nodupb_NoDup (l : list Z) : nodupb Z.eqb l = true -> NoDup l.
Proof.
  induction l as [|a t IH]; simpl; intros H; [constructor|].
  apply andb_prop in H. destruct H as [H1 H2]. constructor; [|apply IH; assumption].
  intros Hin. apply negb_true_iff in H1.
  assert (existsb (Z.eqb a) t = true) by (apply existsb_exists; exists a; split; [assumption|apply Z.eqb_refl]).
  congruence.
Qed.

Lemma usd_pool_nonneg e x amt :
  forallb (fun i => (0 <=? a_price i) && (0 <=? a_pdec i) && (0 <=? a_dec i)) (e_assets e) = true ->
  0 <= amt -> 0 <= usd_pool (e_assets e) x amt.
Proof.
  intros Ha Hamt. unfold usd_pool, price_of.
  destruct (find_asset (e_assets e) (p_asset x)) as [i|] eqn:Ef.
  - unfold find_asset in Ef. apply find_some in Ef. destruct Ef as [Hin _].
    rewrite forallb_forall in Ha. specialize (Ha i Hin).
    apply andb_prop in Ha. destruct Ha as [Ha Hd]. apply andb_prop in Ha. destruct Ha as [Hp Hpd].
    apply Z.leb_le in Hp, Hpd, Hd. apply usd_nonneg; assumption.
  - unfold usd, dec_quo_int, dec_of_int. simpl. rewrite Z.mul_0_r. simpl. rewrite Z.quot_0_l; lia.
Qed.

Lemma zsum_nonneg l : (forall x, In x l -> 0 <= x) -> 0 <= zsum l.
Proof.
  induction l as [|a t IH]; simpl; intros H; [lia|].
  assert (0 <= a) by (apply H; left; reflexivity).
  assert (0 <= zsum t) by (apply IH; intros; apply H; right; assumption). unfold zsum in *. lia.
Qed.

Lemma expected_total_nonneg e a op : env_nonneg e = true -> 0 <= expected_total e a op.
Proof.
  intros H. unfold env_nonneg in H. apply andb_prop in H. destruct H as [Hp Ha].
  unfold expected_total. apply zsum_nonneg. intros v Hv. apply in_map_iff in Hv. destruct Hv as [x [Hx Hin]].
  subst v. destruct (pool_in a op x); [|lia].
  rewrite forallb_forall in Hp. specialize (Hp x Hin).
  apply andb_prop in Hp. destruct Hp as [Hp _]. apply andb_prop in Hp. destruct Hp as [Ht _]. apply Z.leb_le in Ht.
  apply usd_pool_nonneg; assumption.
Qed.

Lemma self_tokens_nonneg x : 0 <= p_total x -> 0 <= p_tshare x -> 0 <= p_oshare x -> 0 <= self_tokens x.
Proof.
  intros. unfold self_tokens.
  destruct (tokens_from_shares (p_oshare x) (p_tshare x) (p_total x)) as [v|] eqn:E; [|lia].
  eapply tokens_nonneg; [| | |exact E]; assumption.
Qed.

Lemma expected_self_nonneg e a op : env_nonneg e = true -> 0 <= expected_self e a op.
Proof.
  intros H. unfold env_nonneg in H. apply andb_prop in H. destruct H as [Hp Ha].
  unfold expected_self. apply zsum_nonneg. intros v Hv. apply in_map_iff in Hv. destruct Hv as [x [Hx Hin]].
  subst v. destruct (pool_in a op x); [|lia].
  rewrite forallb_forall in Hp. specialize (Hp x Hin).
  apply andb_prop in Hp. destruct Hp as [Hp Ho]. apply andb_prop in Hp. destruct Hp as [Ht Hts]. apply Z.leb_le in Ht, Hts, Ho.
  apply usd_pool_nonneg; [assumption|]. apply self_tokens_nonneg; assumption.
Qed.

Lemma expected_active_nonneg e a op : env_nonneg e = true -> 0 <= expected_active e a op.
Proof.
  intros H. unfold expected_active. destruct (dec_of_int (v_min a) <=? expected_self e a op); [|lia].
  apply expected_total_nonneg. assumption.
Qed.

Lemma op_fails_stmt_eq e a op : empty_pools_sane e = true -> op_fails_stmt e a op = op_fails e a op.
Proof.
  intros H. unfold op_fails_stmt, op_fails. unfold empty_pools_sane in H. rewrite forallb_forall in H.
  induction (e_pools e) as [|x t IH]; [reflexivity|]. cbn [existsb].
  rewrite IH by (intros y Hy; apply H; right; assumption). f_equal. f_equal. f_equal.
  specialize (H x (or_introl eq_refl)).
  destruct (Z.eqb_spec (p_total x) 0) as [E|E]; cbn [negb] in *; [|apply andb_true_r].
  cbn [orb] in H. apply Z.leb_le in H. unfold tokens_from_shares.
  destruct (Z.gtb_spec (p_oshare x) (p_tshare x)); [lia|].
  destruct (p_tshare x =? 0); [rewrite E; reflexivity|reflexivity].
Qed.

Lemma avs_fails_stmt_eq e a id rows : empty_pools_sane e = true -> avs_fails_stmt_id e a id rows = avs_fails_id e a id rows.
Proof.
  intros H. unfold avs_fails_stmt_id, avs_fails_id. f_equal.
  induction (rows_of id rows) as [|r t IH]; [reflexivity|]. cbn [existsb]. rewrite IH, op_fails_stmt_eq by assumption. reflexivity.
Qed.

Lemma avs_ok_of_view e c s s' a :
  env_nonneg e = true -> empty_pools_sane e = true ->
  view (v_id a) s' = (if selected (fst c) (snd c) a then F e a (view (v_id a) s) else view (v_id a) s) ->
  avs_ok_id e [c] s s' a (v_id a) = true.
Proof.
  intros Hnn Hes Hv. unfold avs_ok_id, sel_any. cbn [existsb]. rewrite orb_false_r. rewrite avs_fails_stmt_eq by assumption.
  unfold view in Hv. destruct (selected (fst c) (snd c) a); cbn [negb].
  - unfold F in Hv. cbn [fst] in Hv. destruct (v_assets_ok a); cbn [negb] in *.
    + unfold avs_fails_id.
      destruct (prices_fail (e_assets e) (v_assets a) || existsb (fun r => op_fails e a (r_op r)) (rows_of (v_id a) (s_rows s))).
      * injection Hv as H1 H2. rewrite H1, H2, rows_eqb_refl, oz_eqb_refl. reflexivity.
      * injection Hv as H1 H2. rewrite H1, H2. rewrite forall2b_map.
        rewrite oz_eqb_refl, andb_true_r. apply forallb_forall. intros r _.
        unfold new_row. cbn [r_avs r_op r_self r_total r_active]. rewrite !Z.eqb_refl. cbn [andb].
        rewrite (proj2 (Z.leb_le _ _) (expected_total_nonneg e a (r_op r) Hnn)).
        rewrite (proj2 (Z.leb_le _ _) (expected_self_nonneg e a (r_op r) Hnn)).
        rewrite (proj2 (Z.leb_le _ _) (expected_active_nonneg e a (r_op r) Hnn)). reflexivity.
    + injection Hv as H1 H2. rewrite H1, H2. reflexivity.
  - injection Hv as H1 H2. rewrite H1, H2, rows_eqb_refl, oz_eqb_refl. reflexivity.
Qed.

Lemma known_in e a : In a (e_avss e) -> known_avs e (v_id a) = true.
Proof. intros H. unfold known_avs. apply existsb_exists. exists a. split; [assumption|apply Z.eqb_refl]. Qed.

(* nothing is stored under an alias spelling: the alias clauses of the statement are void *)
Lemma rows_of_alias_nil e s a al : alias_free e s = true -> In a (e_avss e) -> In al (v_aliases a) ->
  rows_of al (s_rows s) = [].
Proof.
  intros Haf Ha Hal. unfold alias_free in Haf. apply andb_prop in Haf. destruct Haf as [Hr _].
  unfold rows_of. induction (s_rows s) as [|r t IH]; [reflexivity|]. simpl in *.
  apply andb_prop in Hr. destruct Hr as [Hr1 Hr2].
  destruct (Z.eqb_spec (r_avs r) al) as [E|E]; [|apply IH; assumption].
  exfalso. apply negb_true_iff in Hr1.
  assert (is_alias e (r_avs r) = true).
  { unfold is_alias. apply existsb_exists. exists a. split; [assumption|].
    unfold zmem. apply existsb_exists. exists al. split; [assumption|]. apply Z.eqb_eq. assumption. }
  congruence.
Qed.

Lemma rows_of_nil_keys_sub s' s id : keys_sub s' s = true -> rows_of id (s_rows s) = [] -> rows_of id (s_rows s') = [].
Proof.
  intros Hk Hn. unfold rows_of in *. unfold keys_sub in Hk. rewrite forallb_forall in Hk.
  destruct (filter (fun r => r_avs r =? id) (s_rows s')) as [|r' t] eqn:E; [reflexivity|]. exfalso.
  assert (Hin : In r' (filter (fun r => r_avs r =? id) (s_rows s'))) by (rewrite E; left; reflexivity).
  apply filter_In in Hin. destruct Hin as [Hin Hid]. specialize (Hk r' Hin). apply existsb_exists in Hk.
  destruct Hk as [r [Hr Hrr]]. apply andb_prop in Hrr. destruct Hrr as [H1 _]. apply Z.eqb_eq in H1, Hid.
  assert (In r (filter (fun r0 => r_avs r0 =? id) (s_rows s))).
  { apply filter_In. split; [assumption|]. apply Z.eqb_eq. congruence. }
  rewrite Hn in H. contradiction.
Qed.

Lemma alias_clause e calls s s' a : alias_free e s = true -> keys_sub s' s = true -> In a (e_avss e) ->
  forallb (fun al => match rows_of al (s_rows s), rows_of al (s_rows s') with
                     | [], [] => true
                     | _, _ => avs_ok_id e calls s s' a al
                     end) (v_aliases a) = true.
Proof.
  intros Haf Hk Ha. apply forallb_forall. intros al Hal.
  pose proof (rows_of_alias_nil e s a al Haf Ha Hal) as H1.
  rewrite H1, (rows_of_nil_keys_sub s' s al Hk H1). reflexivity.
Qed.

Theorem epoch_end_meets_statement e s c :
  nodupb Z.eqb (map v_id (e_avss e)) = true -> env_nonneg e = true -> empty_pools_sane e = true -> alias_free e s = true ->
  step_ok e [c] s (epoch_end e s c) = true.
Proof.
  intros Hnd Hnn Hes Hna. apply nodupb_NoDup in Hnd. unfold step_ok. rewrite epoch_end_fold.
  destruct (fold_view e c (e_avss e) Hnd s) as [V1 _].
  repeat (apply andb_true_intro; split).
  - apply forallb_forall. intros a Ha. unfold avs_ok.
    rewrite avs_ok_of_view by (try assumption; apply V1; assumption).
    apply alias_clause; [assumption|apply fold_keys_sub|assumption].
  - rewrite (fold_rows_other (fun r => negb (known_avs e (r_avs r)))).
    + apply rows_eqb_refl.
    + intros a r Ha Hr. rewrite Hr, (known_in e a Ha). reflexivity.
  - rewrite (fold_vals_other (fun k => negb (known_avs e k))).
    + apply vals_list_eqb_refl.
    + intros a Ha. rewrite (known_in e a Ha). reflexivity.
  - apply fold_keys_sub.
Qed.

(* ------------------------------------------------------------------ further facts ---- *)

(* UpdateVotingPower reports an error iff the AVS's calculation fails, and then nothing at all is written *)
Lemma update_error_keeps_all e a s : snd (update_voting_power e a s) = true -> fst (update_voting_power e a s) = s.
Proof.
  unfold update_voting_power. destruct (negb (v_assets_ok a)); [discriminate|].
  destruct (prices_fail (e_assets e) (v_assets a)); [reflexivity|].
  destruct (iterate_rows e a (s_rows s) 0) as [[rows' pw]|]; [discriminate|reflexivity].
Qed.

Lemma update_error_iff e a s : v_assets_ok a = true ->
  snd (update_voting_power e a s) = avs_fails e a (s_rows s).
Proof.
  intros Hok. unfold update_voting_power, avs_fails. unfold avs_fails_id. rewrite Hok. cbn [negb].
  destruct (prices_fail (e_assets e) (v_assets a)); [reflexivity|]. cbn [orb].
  rewrite iterate_rows_spec, fails_rows_of. destruct (existsb _ _); reflexivity.
Qed.

Lemma not_opted_zero s avsid op : get_opted_value s false avsid op = Some (0, 0, 0).
Proof. reflexivity. Qed.

(* monotonicity of the total value in pool amounts and prices *)
Lemma zsum_le l1 l2 : Forall2 Z.le l1 l2 -> zsum l1 <= zsum l2.
Proof. induction 1; simpl; [lia|]. unfold zsum in *. simpl. lia. Qed.

(* total value is monotone in the pool amounts (same pools, same prices) *)
Lemma expected_total_mono e e' a op :
  e_assets e' = e_assets e ->
  forallb (fun i => (0 <=? a_price i) && (0 <=? a_pdec i) && (0 <=? a_dec i)) (e_assets e) = true ->
  Forall2 (fun x x' => p_op x' = p_op x /\ p_asset x' = p_asset x /\ 0 <= p_total x /\ p_total x <= p_total x')
          (e_pools e) (e_pools e') ->
  expected_total e a op <= expected_total e' a op.
Proof.
  intros Ha Hnn H. unfold expected_total. rewrite Ha. apply zsum_le.
  induction H as [|x x' l l' [Ho [Has [H0 Hle]]] _ IH]; simpl; [constructor|]. constructor; [|exact IH].
  unfold pool_in. rewrite Ho, Has. destruct ((p_op x =? op) && zmem (p_asset x) (v_assets a)); [|lia].
  unfold usd_pool, price_of. rewrite Has.
  destruct (find_asset (e_assets e) (p_asset x)) as [i|] eqn:Ef.
  - unfold find_asset in Ef. apply find_some in Ef. destruct Ef as [Hin _].
    rewrite forallb_forall in Hnn. specialize (Hnn i Hin).
    apply andb_prop in Hnn. destruct Hnn as [Hnn Hd]. apply andb_prop in Hnn. destruct Hnn as [Hp Hpd].
    apply Z.leb_le in Hp, Hpd, Hd. apply usd_mono; lia.
  - unfold usd, dec_quo_int, dec_of_int. rewrite !Z.mul_0_r. simpl. lia.
Qed.

(* ------------------------------------------------------------------ several epochs ending in one block ---- *)

Lemma new_row_idem e a r : new_row e a (new_row e a r) = new_row e a r.
Proof. reflexivity. Qed.

Lemma F_idem e a v : F e a (F e a v) = F e a v.
Proof.
  unfold F. destruct (negb (v_assets_ok a)); [reflexivity|].
  destruct (prices_fail (e_assets e) (v_assets a)); cbn [orb]; [reflexivity|].
  destruct (existsb (fun r => op_fails e a (r_op r)) (fst v)) eqn:Ef.
  - rewrite Ef. reflexivity.
  - cbn [fst].
    assert (Hm : map (new_row e a) (map (new_row e a) (fst v)) = map (new_row e a) (fst v)).
    { rewrite map_map. apply map_ext. intros r. apply new_row_idem. }
    assert (He : existsb (fun r => op_fails e a (r_op r)) (map (new_row e a) (fst v)) = false).
    { rewrite <- Ef. clear. induction (fst v) as [|r t IH]; simpl; [reflexivity|]. rewrite IH. reflexivity. }
    rewrite He, Hm. reflexivity.
Qed.

Lemma step_cons e s c t : step e s (c :: t) = step e (epoch_end e s c) t.
Proof. reflexivity. Qed.

Lemma step_view e calls : NoDup (map v_id (e_avss e)) -> forall s a, In a (e_avss e) ->
  view (v_id a) (step e s calls) = if sel_any calls a then F e a (view (v_id a) s) else view (v_id a) s.
Proof.
  intros Hnd. induction calls as [|c t IH]; intros s a Ha; [reflexivity|].
  rewrite step_cons, (IH (epoch_end e s c) a Ha), epoch_end_fold.
  destruct (fold_view e c (e_avss e) Hnd s) as [V1 _]. rewrite (V1 a Ha).
  unfold sel_any. cbn [existsb].
  destruct (selected (fst c) (snd c) a); destruct (existsb (fun c0 => selected (fst c0) (snd c0) a) t); cbn [orb];
    try reflexivity. apply F_idem.
Qed.

Lemma step_rows_other (Q : row -> bool) e calls : forall s,
  (forall a r, In a (e_avss e) -> r_avs r = v_id a -> Q r = false) ->
  filter Q (s_rows (step e s calls)) = filter Q (s_rows s).
Proof.
  induction calls as [|c t IH]; intros s HQ; [reflexivity|].
  rewrite step_cons, IH by assumption. rewrite epoch_end_fold. apply fold_rows_other. assumption.
Qed.

Lemma step_vals_other (Q : Z -> bool) e calls : forall s,
  (forall a, In a (e_avss e) -> Q (v_id a) = false) ->
  filter (fun kv => Q (fst kv)) (s_avsval (step e s calls)) = filter (fun kv => Q (fst kv)) (s_avsval s).
Proof.
  induction calls as [|c t IH]; intros s HQ; [reflexivity|].
  rewrite step_cons, IH by assumption. rewrite epoch_end_fold. apply fold_vals_other. assumption.
Qed.

Lemma step_keys_sub e calls : forall s, keys_sub (step e s calls) s = true.
Proof.
  induction calls as [|c t IH]; intros s; [apply keys_sub_refl|].
  rewrite step_cons. eapply keys_sub_trans; [apply IH|]. rewrite epoch_end_fold. apply fold_keys_sub.
Qed.

Lemma avs_ok_of_view_gen e calls s s' a :
  env_nonneg e = true -> empty_pools_sane e = true ->
  view (v_id a) s' = (if sel_any calls a then F e a (view (v_id a) s) else view (v_id a) s) ->
  avs_ok_id e calls s s' a (v_id a) = true.
Proof.
  intros Hnn Hes Hv. unfold avs_ok_id. rewrite avs_fails_stmt_eq by assumption.
  unfold view in Hv. destruct (sel_any calls a); cbn [negb].
  - unfold F in Hv. cbn [fst] in Hv. destruct (v_assets_ok a); cbn [negb] in *.
    + unfold avs_fails_id.
      destruct (prices_fail (e_assets e) (v_assets a) || existsb (fun r => op_fails e a (r_op r)) (rows_of (v_id a) (s_rows s))).
      * injection Hv as H1 H2. rewrite H1, H2, rows_eqb_refl, oz_eqb_refl. reflexivity.
      * injection Hv as H1 H2. rewrite H1, H2. rewrite forall2b_map.
        rewrite oz_eqb_refl, andb_true_r. apply forallb_forall. intros r _.
        unfold new_row. cbn [r_avs r_op r_self r_total r_active]. rewrite !Z.eqb_refl. cbn [andb].
        rewrite (proj2 (Z.leb_le _ _) (expected_total_nonneg e a (r_op r) Hnn)).
        rewrite (proj2 (Z.leb_le _ _) (expected_self_nonneg e a (r_op r) Hnn)).
        rewrite (proj2 (Z.leb_le _ _) (expected_active_nonneg e a (r_op r) Hnn)). reflexivity.
    + injection Hv as H1 H2. rewrite H1, H2. reflexivity.
  - injection Hv as H1 H2. rewrite H1, H2, rows_eqb_refl, oz_eqb_refl. reflexivity.
Qed.

(* one block in which any number of epochs end (the shape the monitor evaluates on the implementation) *)
Theorem step_meets_statement e s calls :
  nodupb Z.eqb (map v_id (e_avss e)) = true -> env_nonneg e = true -> empty_pools_sane e = true -> alias_free e s = true ->
  step_ok e calls s (step e s calls) = true.
Proof.
  intros Hnd Hnn Hes Hna. apply nodupb_NoDup in Hnd. unfold step_ok.
  repeat (apply andb_true_intro; split).
  - apply forallb_forall. intros a Ha. unfold avs_ok.
    rewrite avs_ok_of_view_gen by (try assumption; apply step_view; assumption).
    apply alias_clause; [assumption|apply step_keys_sub|assumption].
  - rewrite (step_rows_other (fun r => negb (known_avs e (r_avs r)))).
    + apply rows_eqb_refl.
    + intros a r Ha Hr. rewrite Hr, (known_in e a Ha). reflexivity.
  - rewrite (step_vals_other (fun k => negb (known_avs e k))).
    + apply vals_list_eqb_refl.
    + intros a Ha. rewrite (known_in e a Ha). reflexivity.
  - apply step_keys_sub.
Qed.

(* ------------------------------------------------------------------ alias-freedom is an invariant ---- *)

Lemma is_avs_not_alias e key : aliases_disjoint e = true -> is_avs e key = true -> is_alias e key = false.
Proof.
  intros Hd Ha. unfold is_avs in Ha. apply existsb_exists in Ha. destruct Ha as [a [Hin Hk]]. apply Z.eqb_eq in Hk. subst key.
  unfold aliases_disjoint in Hd. rewrite forallb_forall in Hd. apply negb_true_iff. apply Hd. assumption.
Qed.

Lemma opt_in_alias_free e s key op pre : aliases_disjoint e = true -> alias_free e s = true ->
  alias_free e (opt_in e s key op pre) = true.
Proof.
  intros Hd Haf. unfold opt_in. destruct (pre && is_avs e key && negb (has_row (s_rows s) key op)) eqn:E; [|assumption].
  apply andb_prop in E. destruct E as [E _]. apply andb_prop in E. destruct E as [_ Hav].
  unfold alias_free in *. apply andb_prop in Haf. destruct Haf as [Hr Hv]. cbn [s_rows s_avsval].
  rewrite forallb_app, Hr, Hv. simpl. rewrite (is_avs_not_alias e key Hd Hav). reflexivity.
Qed.

Lemma forallb_filter {A} (f g : A -> bool) l : forallb f l = true -> forallb f (filter g l) = true.
Proof.
  intros H. apply forallb_forall. intros x Hx. apply filter_In in Hx. rewrite forallb_forall in H. apply H. tauto.
Qed.

Lemma opt_out_alias_free e s key op pre : alias_free e s = true -> alias_free e (opt_out e s key op pre) = true.
Proof.
  intros Haf. unfold opt_out. destruct (pre && is_avs e key); [|assumption].
  unfold alias_free in *. apply andb_prop in Haf. destruct Haf as [Hr Hv]. cbn [s_rows s_avsval].
  rewrite forallb_filter, Hv by assumption. reflexivity.
Qed.

Lemma forallb_negb_filter_nil {A} (f : A -> bool) l : forallb (fun x => negb (f x)) l = true <-> filter f l = [].
Proof.
  induction l as [|a t IH]; simpl; [tauto|]. destruct (f a); simpl; [split; discriminate|exact IH].
Qed.

Lemma step_alias_free e calls s : aliases_disjoint e = true -> alias_free e s = true ->
  alias_free e (step e s calls) = true.
Proof.
  intros Hd Haf. unfold alias_free in *. apply andb_prop in Haf. destruct Haf as [Hr Hv].
  apply andb_true_intro. split.
  - pose proof (step_keys_sub e calls s) as Hk. unfold keys_sub in Hk. rewrite forallb_forall in Hk, Hr.
    apply forallb_forall. intros r' Hr'. specialize (Hk r' Hr'). apply existsb_exists in Hk.
    destruct Hk as [r [Hin Hk]]. apply andb_prop in Hk. destruct Hk as [Hk _]. apply Z.eqb_eq in Hk.
    rewrite <- Hk. apply Hr. assumption.
  - apply (forallb_negb_filter_nil (fun kv => is_alias e (fst kv))).
    rewrite (step_vals_other (is_alias e)).
    + apply (forallb_negb_filter_nil (fun kv => is_alias e (fst kv))). assumption.
    + intros a Ha. unfold aliases_disjoint in Hd. rewrite forallb_forall in Hd. apply negb_true_iff. apply Hd. assumption.
Qed.

(* histories: epoch ends, opt-ins and opt-outs in any order, ledger and prices changing freely, registry [reg] fixed *)
Inductive hop := HEpoch (c : Z * Z) | HOptIn (key op : Z) (pre : bool) | HOptOut (key op : Z) (pre : bool).

Definition hstep (reg : list avs) (x : list pool * list ainfo * hop) (s : st) : st :=
  let '(ps, ai, o) := x in
  let e := mkEnv ps ai reg in
  match o with
  | HEpoch c => epoch_end e s c
  | HOptIn key op pre => opt_in e s key op pre
  | HOptOut key op pre => opt_out e s key op pre
  end.

Fixpoint all_blocks_ok (reg : list avs) (s : st) (h : list (list pool * list ainfo * hop)) : bool :=
  match h with
  | [] => true
  | x :: t =>
      (match x with
       | (ps, ai, HEpoch c) => step_ok (mkEnv ps ai reg) [c] s (epoch_end (mkEnv ps ai reg) s c)
       | _ => true
       end) && all_blocks_ok reg (hstep reg x s) t
  end.

Definition hist_wf (reg : list avs) (h : list (list pool * list ainfo * hop)) : bool :=
  nodupb Z.eqb (map v_id reg) && aliases_disjoint (mkEnv [] [] reg) &&
  forallb (fun x => let '(ps, ai, _) := x in env_nonneg (mkEnv ps ai reg) && empty_pools_sane (mkEnv ps ai reg)) h.

Lemma history_meets_statement reg h : forall s, hist_wf reg h = true -> alias_free (mkEnv [] [] reg) s = true ->
  all_blocks_ok reg s h = true.
Proof.
  induction h as [|[[ps ai] o] t IH]; intros s H Haf; [reflexivity|].
  unfold hist_wf in H. apply andb_prop in H. destruct H as [H Hall]. apply andb_prop in H. destruct H as [Hnd Hd].
  cbn [forallb] in Hall. apply andb_prop in Hall. destruct Hall as [Hnn Ht]. apply andb_prop in Hnn. destruct Hnn as [Hnn Hes].
  assert (Hwt : hist_wf reg t = true) by (unfold hist_wf; rewrite Hnd, Hd, Ht; reflexivity).
  cbn [all_blocks_ok]. apply andb_true_intro. split.
  - destruct o; [|reflexivity|reflexivity]. apply epoch_end_meets_statement; assumption.
  - apply IH; [assumption|]. unfold hstep. destruct o.
    + change (epoch_end (mkEnv ps ai reg) s c) with (step (mkEnv ps ai reg) s [c]).
      apply (step_alias_free (mkEnv ps ai reg) [c] s); assumption.
    + apply (opt_in_alias_free (mkEnv ps ai reg)); assumption.
    + apply (opt_out_alias_free (mkEnv ps ai reg)); assumption.
Qed.

(* ------------------------------------------------------------------ wave 2: rounding bound and price-list monotonicity ---- *)

(* ---- self tokens: monotone in the operator share and in the amount, and within one unit of the exact quotient ---- *)

Lemma tokens_mono share share' tshare total total' v v' :
  0 <= share -> share <= share' -> 0 <= total -> total <= total' -> 0 < tshare ->
  tokens_from_shares share tshare total = Ok v -> tokens_from_shares share' tshare total' = Ok v' -> v <= v'.
Proof.
  intros Hs Hss Ht Htt Hts. unfold tokens_from_shares.
  destruct (share >? tshare); [discriminate|]. destruct (share' >? tshare); [discriminate|].
  destruct (Z.eqb_spec tshare 0); [exfalso; lia|]. intros H1 H2. inversion H1. inversion H2.
  apply dec_trunc_int_mono.
  - apply dec_quo_nonneg; [unfold dec_mul_int; nia|lia].
  - apply dec_quo_mono_l; unfold dec_mul_int; try nia; lia.
Qed.

(* exact value X = share*total/tshare (the common scale of the shares cancels):  X - 1 - 10^-18 < v <= X + 0.5*10^-18 *)
Lemma tokens_bounds share tshare total v :
  0 <= share -> 0 < tshare -> 0 <= total -> tokens_from_shares share tshare total = Ok v ->
  2 * P * v * tshare <= 2 * P * (share * total) + tshare /\
  2 * P * (share * total) < 2 * P * (v + 1) * tshare + 2 * tshare.
Proof.
  intros Hs Hts Ht. unfold tokens_from_shares.
  destruct (share >? tshare); [discriminate|]. destruct (Z.eqb_spec tshare 0); [exfalso; lia|].
  intros H. inversion H as [Hv]. clear H Hv.
  unfold dec_mul_int, dec_quo, dec_trunc_int. pose proof P_pos as HP. pose proof PP_pos as HPP.
  set (a := share * total). assert (Ha : 0 <= a) by (unfold a; nia).
  rewrite (quot_nonneg_div (a * PP) tshare) by nia.
  assert (Hd0 : 0 <= a * PP / tshare) by (apply Z.div_pos; nia).
  rewrite chop_round_nonneg_eq by assumption.
  pose proof (chop_round_nn_bounds (a * PP / tshare) Hd0) as [Hc1 Hc2].
  pose proof (chop_round_nn_nonneg (a * PP / tshare) Hd0) as Hc0.
  set (d := a * PP / tshare) in *. set (c := chop_round_nn d) in *.
  rewrite (quot_nonneg_div c P) by lia.
  pose proof (Z.div_mod (a * PP) tshare ltac:(lia)) as Ed. pose proof (Z.mod_pos_bound (a * PP) tshare Hts) as Bd.
  fold d in Ed.
  pose proof (Z.div_mod c P ltac:(lia)) as Ec. pose proof (Z.mod_pos_bound c P HP) as Bc.
  set (t := c / P) in *. unfold PP in *.
  assert (Hc3 : P * t <= c) by lia.
  assert (Hc4 : c < P * (t + 1)) by lia.
  assert (Hd1 : d * tshare <= a * (P * P)) by lia.
  assert (Hd2 : a * (P * P) < (d + 1) * tshare) by lia.
  split.
  - assert (H1 : 2 * P * (P * t) <= 2 * P * c) by (apply Z.mul_le_mono_nonneg_l; lia).
    assert (H2 : 2 * P * (P * t) <= 2 * d + P) by lia.
    assert (H3 : (2 * P * (P * t)) * tshare <= (2 * d + P) * tshare) by (apply Z.mul_le_mono_nonneg_r; lia).
    assert (H4 : (2 * P * (P * t)) * tshare <= 2 * (a * (P * P)) + P * tshare) by lia.
    (* divide by P *)
    apply (Z.mul_le_mono_pos_l _ _ P HP). lia.
  - assert (H1 : 2 * P * c < 2 * P * (P * (t + 1))) by (apply Z.mul_lt_mono_pos_l; lia).
    assert (H2 : 2 * d - P < 2 * P * (P * (t + 1))) by lia.
    assert (H3 : 2 * (a * (P * P)) < (2 * d + 2) * tshare) by lia.
    assert (H4 : (2 * d + 2) * tshare <= (2 * P * (P * (t + 1)) + P + 1) * tshare) by (apply Z.mul_le_mono_nonneg_r; lia).
    assert (H5 : (P + 1) * tshare <= 2 * P * tshare) by (apply Z.mul_le_mono_nonneg_r; lia).
    apply (Z.mul_lt_mono_pos_l P); [exact HP|]. lia.
Qed.

(* ---- total value monotone in the price LIST ---- *)

Definition price_le (i i' : ainfo) : Prop :=
  a_id i' = a_id i /\ a_dec i' = a_dec i /\ a_pdec i' = a_pdec i /\ 0 <= a_price i /\ a_price i <= a_price i' /\
  0 <= a_dec i /\ 0 <= a_pdec i.

Lemma find_asset_rel l l' k : Forall2 price_le l l' ->
  match find_asset l k, find_asset l' k with
  | Some i, Some i' => price_le i i'
  | None, None => True
  | _, _ => False
  end.
Proof.
  unfold find_asset. induction 1 as [|i i' t t' Hi _ IH]; simpl; [exact I|].
  destruct Hi as [Hid Hrest]. rewrite Hid. destruct (a_id i =? k); [|exact IH].
  split; [assumption|exact Hrest].
Qed.

Lemma zsum_le_map {A} (f g : A -> Z) l : (forall x, In x l -> f x <= g x) -> zsum (map f l) <= zsum (map g l).
Proof.
  induction l as [|a t IH]; intros H; simpl; [lia|].
  assert (f a <= g a) by (apply H; left; reflexivity).
  assert (zsum (map f t) <= zsum (map g t)) by (apply IH; intros; apply H; right; assumption).
  unfold zsum in *. simpl. lia.
Qed.

Lemma expected_total_mono_prices e e' a op :
  e_pools e' = e_pools e -> Forall2 price_le (e_assets e) (e_assets e') ->
  forallb (fun x => 0 <=? p_total x) (e_pools e) = true ->
  expected_total e a op <= expected_total e' a op.
Proof.
  intros Hp Hf Hnn. unfold expected_total. rewrite Hp. apply zsum_le_map. intros x Hx.
  destruct (pool_in a op x); [|lia].
  rewrite forallb_forall in Hnn. specialize (Hnn x Hx). apply Z.leb_le in Hnn.
  unfold usd_pool, price_of. pose proof (find_asset_rel _ _ (p_asset x) Hf) as R.
  destruct (find_asset (e_assets e) (p_asset x)) as [i|]; destruct (find_asset (e_assets e') (p_asset x)) as [i'|]; try contradiction.
  - destruct R as [_ [Hd [Hpd [H0 [Hle [Hd0 Hpd0]]]]]]. rewrite Hd, Hpd. apply usd_mono; lia.
  - lia.
Qed.

(* the same for the self value: monotone in the price list (token equivalent unchanged) *)
Lemma expected_self_mono_prices e e' a op :
  e_pools e' = e_pools e -> Forall2 price_le (e_assets e) (e_assets e') ->
  forallb (fun x => (0 <=? p_total x) && (0 <=? p_tshare x) && (0 <=? p_oshare x)) (e_pools e) = true ->
  expected_self e a op <= expected_self e' a op.
Proof.
  intros Hp Hf Hnn. unfold expected_self. rewrite Hp. apply zsum_le_map. intros x Hx.
  destruct (pool_in a op x); [|lia].
  rewrite forallb_forall in Hnn. specialize (Hnn x Hx).
  apply andb_prop in Hnn. destruct Hnn as [Hnn Ho]. apply andb_prop in Hnn. destruct Hnn as [Ht Hts]. apply Z.leb_le in Ht, Hts, Ho.
  pose proof (self_tokens_nonneg x Ht Hts Ho) as Hs.
  unfold usd_pool, price_of. pose proof (find_asset_rel _ _ (p_asset x) Hf) as R.
  destruct (find_asset (e_assets e) (p_asset x)) as [i|]; destruct (find_asset (e_assets e') (p_asset x)) as [i'|]; try contradiction.
  - destruct R as [_ [Hd [Hpd [H0 [Hle [Hd0 Hpd0]]]]]]. rewrite Hd, Hpd. apply usd_mono; lia.
  - lia.
Qed.
