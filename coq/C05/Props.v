(* C05/Props.v — property theorems only. *)
From Coq Require Import List ZArith Bool.
From Exo Require Import Base.IntDec Base.Util C05.Model C05.Proofs.
Import ListNotations.
Local Open Scope Z_scope.

(* The statement of C05 for one epoch end ([step_ok]): for every registered AVS whose identifier ended and whose starting
   epoch - 1 <= number: every stored row (AVS, operator) gets total = sum over the operator's pools in the AVS's asset list of
   amount*price/10^(dec+pdec), self = the same formula on TokensFromShares(operatorShare, totalShare, amount), active = total
   if self >= minimum self delegation else 0, AVS value = sum of active, all non-negative; if the calculation fails (asset
   without oracle token, share/amount inconsistency) the AVS keeps its old rows and value; an AVS whose asset list cannot be
   resolved is wiped; every other AVS, every row of an unregistered AVS and the key set are untouched.  It holds of the model
   of the hook for EVERY ledger, price table, AVS registry and stored state. *)
Theorem C05_epoch_end_meets_statement : forall e s c,
  nodupb Z.eqb (map v_id (e_avss e)) = true -> env_nonneg e = true -> empty_pools_sane e = true -> alias_free e s = true ->
  step_ok e [c] s (epoch_end e s c) = true.
Proof. exact epoch_end_meets_statement. Qed.
Print Assumptions C05_epoch_end_meets_statement.

(* the same for a block in which several epoch identifiers end at once (real BeginBlocker) *)
Theorem C05_block_meets_statement : forall e s calls,
  nodupb Z.eqb (map v_id (e_avss e)) = true -> env_nonneg e = true -> empty_pools_sane e = true -> alias_free e s = true ->
  step_ok e calls s (step e s calls) = true.
Proof. exact step_meets_statement. Qed.
Print Assumptions C05_block_meets_statement.

(* over any history of epoch ends, opt-ins and opt-outs (any order), with arbitrary ledger and price changes in between and a
   fixed AVS registry: from a state that stores nothing under an alias spelling, the statement holds at every epoch end.
   Alias-freedom is an invariant (C05_alias_free_invariant): the repaired IsAVS only accepts the registered spelling. *)
Theorem C05_history_meets_statement : forall reg h s, hist_wf reg h = true -> alias_free (mkEnv [] [] reg) s = true ->
  all_blocks_ok reg s h = true.
Proof. exact history_meets_statement. Qed.
Print Assumptions C05_history_meets_statement.

Theorem C05_alias_free_invariant : forall e s, aliases_disjoint e = true -> alias_free e s = true ->
  (forall key op pre, alias_free e (opt_in e s key op pre) = true) /\
  (forall key op pre, alias_free e (opt_out e s key op pre) = true) /\
  (forall calls, alias_free e (step e s calls) = true).
Proof.
  intros e s Hd Haf. split; [|split]; intros.
  - apply opt_in_alias_free; assumption.
  - apply opt_out_alias_free; assumption.
  - apply step_alias_free; assumption.
Qed.
Print Assumptions C05_alias_free_invariant.

Theorem C05_usd_formula : forall amount price dec pdec, 0 <= amount -> 0 <= price -> 0 <= dec -> 0 <= pdec ->
  usd amount price dec pdec = (amount * price * P) / 10 ^ (dec + pdec).
Proof. exact usd_formula. Qed.
Print Assumptions C05_usd_formula.

Theorem C05_usd_nonneg : forall amount price dec pdec, 0 <= amount -> 0 <= price -> 0 <= dec -> 0 <= pdec ->
  0 <= usd amount price dec pdec.
Proof. exact usd_nonneg. Qed.
Print Assumptions C05_usd_nonneg.

Theorem C05_usd_monotone : forall amount amount' price price' dec pdec,
  0 <= amount -> amount <= amount' -> 0 <= price -> price <= price' -> 0 <= dec -> 0 <= pdec ->
  usd amount price dec pdec <= usd amount' price' dec pdec.
Proof. exact usd_mono. Qed.
Print Assumptions C05_usd_monotone.

Theorem C05_values_nonneg : forall e a op, env_nonneg e = true ->
  0 <= expected_total e a op /\ 0 <= expected_self e a op /\ 0 <= expected_active e a op.
Proof.
  intros. split; [apply expected_total_nonneg; assumption|].
  split; [apply expected_self_nonneg; assumption|apply expected_active_nonneg; assumption].
Qed.
Print Assumptions C05_values_nonneg.

Theorem C05_total_monotone_in_amounts : forall e e' a op,
  e_assets e' = e_assets e ->
  forallb (fun i => (0 <=? a_price i) && (0 <=? a_pdec i) && (0 <=? a_dec i)) (e_assets e) = true ->
  Forall2 (fun x x' => p_op x' = p_op x /\ p_asset x' = p_asset x /\ 0 <= p_total x /\ p_total x <= p_total x')
          (e_pools e) (e_pools e') ->
  expected_total e a op <= expected_total e' a op.
Proof. exact expected_total_mono. Qed.
Print Assumptions C05_total_monotone_in_amounts.

Theorem C05_total_monotone_in_prices : forall e e' a op,
  e_pools e' = e_pools e -> Forall2 price_le (e_assets e) (e_assets e') ->
  forallb (fun x => 0 <=? p_total x) (e_pools e) = true ->
  expected_total e a op <= expected_total e' a op.
Proof. exact expected_total_mono_prices. Qed.
Print Assumptions C05_total_monotone_in_prices.

Theorem C05_self_monotone_in_prices : forall e e' a op,
  e_pools e' = e_pools e -> Forall2 price_le (e_assets e) (e_assets e') ->
  forallb (fun x => (0 <=? p_total x) && (0 <=? p_tshare x) && (0 <=? p_oshare x)) (e_pools e) = true ->
  expected_self e a op <= expected_self e' a op.
Proof. exact expected_self_mono_prices. Qed.
Print Assumptions C05_self_monotone_in_prices.

(* the token equivalent of the self share (banker's rounding inside TokensFromShares): monotone in the operator share and in
   the pool amount, and within one unit of the exact quotient X = share*amount/totalShare:  X - 1 - 1e-18 < v <= X + 0.5e-18 *)
Theorem C05_self_tokens_monotone : forall share share' tshare total total' v v',
  0 <= share -> share <= share' -> 0 <= total -> total <= total' -> 0 < tshare ->
  tokens_from_shares share tshare total = Ok v -> tokens_from_shares share' tshare total' = Ok v' -> v <= v'.
Proof. exact tokens_mono. Qed.
Print Assumptions C05_self_tokens_monotone.

Theorem C05_self_tokens_rounding_bound : forall share tshare total v,
  0 <= share -> 0 < tshare -> 0 <= total -> tokens_from_shares share tshare total = Ok v ->
  2 * P * v * tshare <= 2 * P * (share * total) + tshare /\
  2 * P * (share * total) < 2 * P * (v + 1) * tshare + 2 * tshare.
Proof. exact tokens_bounds. Qed.
Print Assumptions C05_self_tokens_rounding_bound.

(* the upper bound is tight: the token equivalent can exceed the exact quotient (by less than 1e-18 of a unit):
   operator share 2 - 1e-18 of 2 shares over a pool of 1 unit has exact value 1 - 0.5e-18 and is rounded (half to even) to 1 *)
Example C05_self_tokens_can_round_up :
  tokens_from_shares (2 * P - 1) (2 * P) 1 = Ok 1 /\ (2 * P - 1) * 1 < 1 * (2 * P).
Proof. vm_compute. split; reflexivity. Qed.

(* failure keeps old: UpdateVotingPower errs exactly when the guard fails, and then the whole state is as before *)
Theorem C05_failure_keeps_old : forall e a s, v_assets_ok a = true ->
  snd (update_voting_power e a s) = avs_fails e a (s_rows s) /\
  (snd (update_voting_power e a s) = true -> fst (update_voting_power e a s) = s).
Proof. intros. split; [apply update_error_iff; assumption|apply update_error_keeps_all]. Qed.
Print Assumptions C05_failure_keeps_old.

Theorem C05_not_opted_zero : forall s avsid op, get_opted_value s false avsid op = Some (0, 0, 0).
Proof. exact not_opted_zero. Qed.
Print Assumptions C05_not_opted_zero.

(* ---- witnesses ---- *)
Definition ex_env := mkEnv
  [mkPool 0 0 5000000 (5000000 * P) (2000000 * P); mkPool 0 1 (3 * 10 ^ 18) (3 * 10 ^ 18 * P) 0;
   mkPool 1 0 1000000 (1000000 * P) (1000000 * P); mkPool 1 2 7 (14 * P) (14 * P)]
  [mkAI 0 PcOk 1 0 6; mkAI 1 PcOk 25000 1 18; mkAI 2 PcDefault 1 0 0; mkAI 3 PcMissing 0 0 2]
  [mkAvs 1 1 3 2 [0; 1] true []; mkAvs 2 1 9 0 [0] true []; mkAvs 3 2 1 0 [2] true []; mkAvs 4 1 1 0 [0; 3] true []; mkAvs 5 1 1 0 [9] false []].
Definition ex_st := mkSt
  [mkRow 1 0 0 0 0; mkRow 1 1 0 0 0; mkRow 2 0 9 9 9; mkRow 3 1 0 0 0; mkRow 4 0 4 4 4; mkRow 5 1 5 5 5; mkRow 77 0 1 2 3]
  [(1, 0); (2, 9); (4, 4); (5, 5); (77, 3)].

(* minute epoch 2 ends: AVS 1 (start 3, boundary num = start - 1) is updated, operator 0 has self 2 = min (active),
   operator 1 has self 1 < 2 (inactive); AVS 2 (start 9) not yet; AVS 3 other identifier; AVS 4 has an asset without oracle
   token (keeps old); AVS 5 cannot resolve its assets (wiped); the orphan row of AVS 77 stays *)
Example C05_witness :
  hist_wf (e_avss ex_env) [(e_pools ex_env, e_assets ex_env, HOptIn 1 5 true); (e_pools ex_env, e_assets ex_env, HEpoch (1, 2));
                            (e_pools ex_env, e_assets ex_env, HOptOut 1 5 true)] = true /\
  alias_free ex_env ex_st = true /\
  epoch_end ex_env ex_st (1, 2) =
  mkSt [mkRow 1 0 (2 * P) (7505 * P) (7505 * P); mkRow 1 1 (1 * P) (1 * P) 0; mkRow 2 0 9 9 9; mkRow 3 1 0 0 0; mkRow 4 0 4 4 4;
        mkRow 77 0 1 2 3]
       [(1, 7505 * P); (2, 9); (4, 4); (77, 3)] /\
  step_ok ex_env [(1, 2)] ex_st (epoch_end ex_env ex_st (1, 2)) = true.
Proof. vm_compute. repeat split; reflexivity. Qed.

(* an AVS whose (resolvable) asset list is EMPTY: the rows stay, with total/self/active 0, and the AVS value becomes 0 —
   neither wiped nor left at the stale figures *)
Example C05_witness_empty_asset_list :
  let e := mkEnv (e_pools ex_env) (e_assets ex_env) [mkAvs 2 1 1 0 [] true []] in
  epoch_end e ex_st (1, 2) =
  mkSt [mkRow 1 0 0 0 0; mkRow 1 1 0 0 0; mkRow 2 0 0 0 0; mkRow 3 1 0 0 0; mkRow 4 0 4 4 4; mkRow 5 1 5 5 5; mkRow 77 0 1 2 3]
       [(1, 0); (2, 0); (4, 4); (5, 5); (77, 3)] /\
  step_ok e [(1, 2)] ex_st (epoch_end e ex_st (1, 2)) = true /\
  step_ok e [(1, 2)] ex_st ex_st = false /\
  step_ok e [(1, 2)] ex_st (mkSt (filter (fun r => negb (r_avs r =? 2)) (s_rows ex_st)) (del_val (s_avsval ex_st) 2)) = false.
Proof. vm_compute. repeat split; reflexivity. Qed.

(* an emptied pool whose operator share was not reset (total 0, total share 0, operator share 5): the code's calculation fails
   and keeps the stale rows, but the statement does not excuse it — the pool is worth 0 — so the stale result is a violation *)
Example C05_leftover_operator_share_is_no_excuse :
  let e := mkEnv [mkPool 0 0 0 0 (5 * P)] (e_assets ex_env) [mkAvs 1 1 1 0 [0] true []] in
  let s := mkSt [mkRow 1 0 (9 * P) (9 * P) (9 * P)] [(1, 9 * P)] in
  empty_pools_sane e = false /\ epoch_end e s (1, 2) = s /\ step_ok e [(1, 2)] s (epoch_end e s (1, 2)) = false /\
  step_ok e [(1, 2)] s (mkSt [mkRow 1 0 0 0 0] [(1, 0)]) = true.
Proof. vm_compute. repeat split; reflexivity. Qed.

Example C05_witness_hour : s_rows (epoch_end ex_env ex_st (2, 5)) =
  [mkRow 1 0 0 0 0; mkRow 1 1 0 0 0; mkRow 2 0 9 9 9; mkRow 3 1 (7 * P) (7 * P) (7 * P); mkRow 4 0 4 4 4; mkRow 5 1 5 5 5; mkRow 77 0 1 2 3].
Proof. vm_compute. reflexivity. Qed.

(* regression for the repaired defect (x/avs IsAVS accepted every letter case of a registered AVS address while x/operator
   keys its records by the address string): with AVS 1 registered and key 77 another spelling of its address, an opt-in under
   key 77 is rejected (nothing is stored under it), the registered spelling is accepted, and from the alias-free state the
   epoch end satisfies the statement. The row `mkRow 77 ...` of the former refutation witness cannot be created any more. *)
Definition ex_env_alias := mkEnv (e_pools ex_env) (e_assets ex_env) [mkAvs 1 1 3 2 [0; 1] true [77]].
Definition ex_st_clean := mkSt [mkRow 1 0 0 0 0] [].
Example C05_address_case_regression :
  aliases_disjoint ex_env_alias = true /\ alias_free ex_env_alias ex_st_clean = true /\
  opt_in ex_env_alias ex_st_clean 77 1 true = ex_st_clean /\
  s_rows (opt_in ex_env_alias ex_st_clean 1 1 true) = [mkRow 1 0 0 0 0; mkRow 1 1 0 0 0] /\
  step_ok ex_env_alias [(1, 2)] (opt_in ex_env_alias ex_st_clean 1 1 true)
          (epoch_end ex_env_alias (opt_in ex_env_alias ex_st_clean 1 1 true) (1, 2)) = true /\
  (* why the hypothesis is needed: a state that does hold a row under the alias spelling violates the statement *)
  step_ok ex_env_alias [(1, 2)] ex_st (epoch_end ex_env_alias ex_st (1, 2)) = false.
Proof. vm_compute. repeat split; reflexivity. Qed.
