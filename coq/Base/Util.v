(* Base/Util.v — small executable helpers shared by every model (no proofs about models here). *)
From Coq Require Import List String Bool ZArith Lia.
Import ListNotations.

Fixpoint list_eqb {A} (f : A -> A -> bool) (l1 l2 : list A) : bool :=
  match l1, l2 with
  | [], [] => true
  | a :: r1, b :: r2 => f a b && list_eqb f r1 r2
  | _, _ => false
  end.

Lemma list_eqb_refl {A} (f : A -> A -> bool) l : (forall x, f x x = true) -> list_eqb f l l = true.
Proof. intro H. induction l as [|a r IH]; simpl; [reflexivity|]. rewrite H, IH. reflexivity. Qed.

Lemma list_eqb_eq {A} (f : A -> A -> bool) :
  (forall x y, f x y = true -> x = y) -> forall l1 l2, list_eqb f l1 l2 = true -> l1 = l2.
Proof.
  intros Hf l1. induction l1 as [|a r IH]; intros [|b r2] H; simpl in H; try discriminate; [reflexivity|].
  apply andb_prop in H. destruct H as [H1 H2]. f_equal; [apply Hf; assumption | apply IH; assumption].
Qed.

Definition option_eqb {A} (f : A -> A -> bool) (a b : option A) : bool :=
  match a, b with
  | None, None => true
  | Some x, Some y => f x y
  | _, _ => false
  end.

(* [failing f cases 0] = the (case index, step) pairs for which checker [f] returns [Some step].
   A checker returns None when the case is fine and Some i for the first step i at which it is not. *)
Fixpoint failing {A} (f : A -> option nat) (cs : list A) (i : nat) : list (nat * nat) :=
  match cs with
  | [] => []
  | c :: r => match f c with
              | None => failing f r (S i)
              | Some j => (i, j) :: failing f r (S i)
              end
  end.

(* sum of a list of Z *)
Definition zsum (l : list Z) : Z := fold_right Z.add 0%Z l.

Lemma zsum_app l1 l2 : zsum (l1 ++ l2) = (zsum l1 + zsum l2)%Z.
Proof. induction l1 as [|a r IH]; simpl; [reflexivity|]. rewrite IH. lia. Qed.
