(* Base/Store.v — a KV store with string keys, kept as a key-sorted association list.
   Iteration order = byte order of the keys, like the SDK's KVStore iterators; the order is
   observable in exocore (epoch infos, undelegation walks, pool walks), so it is part of the model. *)
From Coq Require Import List String Ascii Bool Arith ZArith Lia OrderedTypeEx Sorting.Sorted.
Import ListNotations.
Local Open Scope string_scope.

Module SO := String_as_OT.

Definition slt (a b : string) : Prop := SO.lt a b.
Definition scmp (a b : string) : comparison := String.compare a b.

Lemma scmp_eq a b : scmp a b = Eq <-> a = b.
Proof. apply SO.cmp_eq. Qed.
Lemma scmp_lt a b : scmp a b = Lt <-> slt a b.
Proof. apply SO.cmp_lt. Qed.
Lemma scmp_gt a b : scmp a b = Gt <-> slt b a.
Proof.
  unfold scmp, slt. rewrite <- (SO.cmp_lt b a).
  pose proof (SO.cmp_antisym a b) as H. unfold SO.cmp in *.
  rewrite H. destruct (String.compare b a); simpl; split; congruence.
Qed.
Lemma scmp_refl a : scmp a a = Eq.
Proof. apply scmp_eq; reflexivity. Qed.
Lemma slt_trans a b c : slt a b -> slt b c -> slt a c.
Proof. apply SO.lt_trans. Qed.
Lemma slt_irrefl a : ~ slt a a.
Proof. intro H. apply (SO.lt_not_eq _ _ H). reflexivity. Qed.

Section Store.
  Context {V : Type}.
  Definition store := list (string * V).

  Fixpoint sget (s : store) (k : string) : option V :=
    match s with
    | [] => None
    | (k', v) :: r =>
        match scmp k k' with
        | Eq => Some v
        | Lt => None
        | Gt => sget r k
        end
    end.

  Fixpoint sset (s : store) (k : string) (v : V) : store :=
    match s with
    | [] => [(k, v)]
    | (k', v') :: r =>
        match scmp k k' with
        | Eq => (k, v) :: r
        | Lt => (k, v) :: (k', v') :: r
        | Gt => (k', v') :: sset r k v
        end
    end.

  Fixpoint sdel (s : store) (k : string) : store :=
    match s with
    | [] => []
    | (k', v') :: r =>
        match scmp k k' with
        | Eq => r
        | Lt => (k', v') :: r
        | Gt => (k', v') :: sdel r k
        end
    end.

  Definition skeys (s : store) : list string := map fst s.

  Definition sorted (s : store) : Prop := StronglySorted slt (skeys s).

  Definition of_list (l : list (string * V)) : store :=
    fold_left (fun s kv => sset s (fst kv) (snd kv)) l [].

  Lemma sorted_nil : sorted [].
  Proof. constructor. Qed.

  Lemma sorted_tail k v r : sorted ((k, v) :: r) -> sorted r.
  Proof. unfold sorted; simpl; intro H; inversion H; assumption. Qed.

  Lemma sorted_head k v r : sorted ((k, v) :: r) -> Forall (slt k) (skeys r).
  Proof. unfold sorted; simpl; intro H; inversion H; assumption. Qed.

  Lemma skeys_sset_in s k v x : In x (skeys (sset s k v)) -> x = k \/ In x (skeys s).
  Proof.
    induction s as [|[k' v'] r IH]; simpl.
    - intros [H|[]]; auto.
    - destruct (scmp k k') eqn:E; simpl.
      + apply scmp_eq in E; subst. intros [H|H]; auto.
      + intros [H|[H|H]]; auto.
      + intros [H|H]; auto. destruct (IH H); auto.
  Qed.

  Lemma sset_sorted s k v : sorted s -> sorted (sset s k v).
  Proof.
    induction s as [|[k' v'] r IH]; simpl; intro Hs.
    - unfold sorted; simpl. repeat constructor.
    - destruct (scmp k k') eqn:E.
      + apply scmp_eq in E; subst. exact Hs.
      + apply scmp_lt in E. unfold sorted in *; simpl in *.
        constructor; [exact Hs|]. constructor; [exact E|].
        inversion Hs as [|? ? ? Hf]; subst.
        eapply Forall_impl; [|exact Hf]. intros a Ha. eapply slt_trans; eauto.
      + apply scmp_gt in E. unfold sorted in *; simpl in *.
        inversion Hs as [|? ? Hr Hf]; subst.
        constructor; [apply IH; exact Hr|].
        apply Forall_forall. intros x Hx.
        apply skeys_sset_in in Hx. destruct Hx as [->|Hx]; [exact E|].
        rewrite Forall_forall in Hf. auto.
  Qed.

  Lemma skeys_sdel_in s k x : In x (skeys (sdel s k)) -> In x (skeys s).
  Proof.
    induction s as [|[k' v'] r IH]; simpl; auto.
    destruct (scmp k k'); simpl; intuition.
  Qed.

  Lemma sdel_sorted s k : sorted s -> sorted (sdel s k).
  Proof.
    induction s as [|[k' v'] r IH]; simpl; intro Hs; [exact Hs|].
    destruct (scmp k k') eqn:E.
    - eapply sorted_tail; eauto.
    - exact Hs.
    - unfold sorted in *; simpl in *. inversion Hs as [|? ? Hr Hf]; subst.
      constructor; [apply IH; exact Hr|].
      apply Forall_forall. intros x Hx. apply skeys_sdel_in in Hx.
      rewrite Forall_forall in Hf; auto.
  Qed.

  Lemma sget_sset_same s k v : sget (sset s k v) k = Some v.
  Proof.
    induction s as [|[k' v'] r IH]; simpl.
    - rewrite scmp_refl; reflexivity.
    - destruct (scmp k k') eqn:E; simpl.
      + rewrite scmp_refl; reflexivity.
      + rewrite scmp_refl; reflexivity.
      + rewrite E. exact IH.
  Qed.

  Lemma sget_notin s k : sorted s -> (forall x, In x (skeys s) -> slt k x) -> sget s k = None.
  Proof.
    destruct s as [|[k' v'] r]; simpl; intros Hs H; [reflexivity|].
    assert (slt k k') as L by (apply H; auto).
    apply scmp_lt in L. rewrite L. reflexivity.
  Qed.

  Lemma sget_sset_other s k k' v : sorted s -> k <> k' -> sget (sset s k v) k' = sget s k'.
  Proof.
    induction s as [|[k0 v0] r IH]; simpl; intros Hs Hne.
    - destruct (scmp k' k) eqn:E; try reflexivity.
      apply scmp_eq in E; congruence.
    - destruct (scmp k k0) eqn:E; simpl.
      + apply scmp_eq in E; subst k0.
        destruct (scmp k' k) eqn:E2; try reflexivity. apply scmp_eq in E2; congruence.
      + apply scmp_lt in E.
        destruct (scmp k' k) eqn:E2.
        * apply scmp_eq in E2; congruence.
        * apply scmp_lt in E2.
          assert (slt k' k0) as L by (eapply slt_trans; eauto).
          apply scmp_lt in L. rewrite L. reflexivity.
        * reflexivity.
      + destruct (scmp k' k0) eqn:E2; try reflexivity.
        apply IH; [eapply sorted_tail; eauto | exact Hne].
  Qed.

  Lemma sget_sdel_same s k : sorted s -> sget (sdel s k) k = None.
  Proof.
    induction s as [|[k0 v0] r IH]; simpl; intro Hs; [reflexivity|].
    destruct (scmp k k0) eqn:E; simpl.
    - apply scmp_eq in E; subst k0.
      apply sget_notin; [eapply sorted_tail; eauto|].
      pose proof (sorted_head _ _ _ Hs) as Hf. rewrite Forall_forall in Hf. exact Hf.
    - rewrite E. reflexivity.
    - rewrite E. apply IH. eapply sorted_tail; eauto.
  Qed.

  Lemma sget_sdel_other s k k' : sorted s -> k <> k' -> sget (sdel s k) k' = sget s k'.
  Proof.
    induction s as [|[k0 v0] r IH]; simpl; intros Hs Hne; [reflexivity|].
    destruct (scmp k k0) eqn:E; simpl.
    - apply scmp_eq in E; subst k0.
      destruct (scmp k' k) eqn:E2.
      + apply scmp_eq in E2; congruence.
      + apply scmp_lt in E2. apply sget_notin; [eapply sorted_tail; eauto|].
        pose proof (sorted_head _ _ _ Hs) as Hf. rewrite Forall_forall in Hf.
        intros x Hx. eapply slt_trans; eauto.
      + reflexivity.
    - reflexivity.
    - destruct (scmp k' k0); try reflexivity.
      apply IH; [eapply sorted_tail; eauto | exact Hne].
  Qed.

  Lemma sget_in s k v : sorted s -> (sget s k = Some v <-> In (k, v) s).
  Proof.
    induction s as [|[k0 v0] r IH]; simpl; intro Hs.
    - split; [discriminate | tauto].
    - pose proof (sorted_head _ _ _ Hs) as Hf. rewrite Forall_forall in Hf.
      destruct (scmp k k0) eqn:E.
      + apply scmp_eq in E; subst k0. split.
        * intro H; inversion H; auto.
        * intros [H|H]; [inversion H; reflexivity|].
          exfalso. apply (slt_irrefl k). apply Hf. apply in_map_iff. exists (k, v); auto.
      + apply scmp_lt in E. split; [discriminate|].
        intros [H|H]; [inversion H; subst; exfalso; eapply slt_irrefl; eauto|].
        exfalso. apply (slt_irrefl k). eapply slt_trans; [exact E|].
        apply Hf. apply in_map_iff. exists (k, v); auto.
      + apply scmp_gt in E. rewrite (IH (sorted_tail _ _ _ Hs)). split; auto.
        intros [H|H]; auto. inversion H; subst. exfalso; eapply slt_irrefl; eauto.
  Qed.

  Lemma sorted_NoDup s : sorted s -> NoDup (skeys s).
  Proof.
    unfold sorted. induction (skeys s) as [|a l IH]; intro H; constructor.
    - inversion H as [|? ? ? Hf]; subst. intro Hin. rewrite Forall_forall in Hf.
      apply (slt_irrefl a). auto.
    - inversion H; auto.
  Qed.

  Lemma of_list_sorted l : sorted (of_list l).
  Proof.
    unfold of_list.
    assert (forall s, sorted s -> sorted (fold_left (fun s kv => sset s (fst kv) (snd kv)) l s)) as G.
    { induction l as [|[k v] r IH]; simpl; intros s Hs; auto. apply IH. apply sset_sorted; auto. }
    apply G. apply sorted_nil.
  Qed.
End Store.

Arguments store V : clear implicits.
