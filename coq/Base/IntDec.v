(* Base/IntDec.v — cosmos-sdk math.Int / math.LegacyDec arithmetic on Z.
   sdk.Int        = Z (the 256-bit guard is [int_ok]);
   sdk.LegacyDec  = Z scaled by P = 10^18 (the 315-bit guard is [dec_ok]).
   Transcribed from cosmossdk.io/math legacy_dec.go: chopPrecisionAndRound (banker's rounding),
   chopPrecisionAndTruncate, Quo, QuoTruncate, QuoInt, Mul, MulTruncate, MulInt, TruncateInt, RoundInt.
   big.Int Quo truncates toward zero = Z.quot; all users in exocore have non-negative operands, where
   Z.quot = Z.div; the definitions use Z.quot / Z.rem so they are faithful for negative operands too. *)
From Coq Require Import ZArith Lia Bool.
Local Open Scope Z_scope.

Definition P : Z := 10 ^ 18.
Definition PP : Z := P * P.

Lemma P_pos : 0 < P. Proof. unfold P; lia. Qed.
Lemma P_val : P = 1000000000000000000. Proof. reflexivity. Qed.
Lemma PP_pos : 0 < PP. Proof. unfold PP, P; lia. Qed.

Definition int_ok (x : Z) : bool := Z.abs x <? 2 ^ 256.
Definition dec_ok (x : Z) : bool := Z.abs x <? 2 ^ 315.

(* chopPrecisionAndRound on a non-negative argument *)
Definition chop_round_nn (d : Z) : Z :=
  let q := d / P in
  let r := d mod P in
  if r =? 0 then q
  else if 2 * r <? P then q
  else if 2 * r >? P then q + 1
  else if Z.even q then q else q + 1.

(* chopPrecisionAndRound: negative arguments are negated, rounded, negated back *)
Definition chop_round (d : Z) : Z :=
  if d <? 0 then - chop_round_nn (- d) else chop_round_nn d.

Definition chop_trunc (d : Z) : Z := Z.quot d P.

(* LegacyDec.Quo : mul by P twice, big.Int Quo, banker-chop *)
Definition dec_quo (a b : Z) : Z := chop_round (Z.quot (a * PP) b).
(* LegacyDec.QuoTruncate *)
Definition dec_quo_trunc (a b : Z) : Z := chop_trunc (Z.quot (a * PP) b).
(* LegacyDec.QuoRoundUp on non-negative operands: chopPrecisionAndRoundUp *)
Definition chop_round_up_nn (d : Z) : Z :=
  let q := d / P in if d mod P =? 0 then q else q + 1.
Definition dec_quo_roundup (a b : Z) : Z :=
  let m := Z.quot (a * PP) b in
  if m <? 0 then - (Z.quot (- m) P) else chop_round_up_nn m.
(* LegacyDec.Mul / MulTruncate *)
Definition dec_mul (a b : Z) : Z := chop_round (a * b).
Definition dec_mul_trunc (a b : Z) : Z := chop_trunc (a * b).
(* LegacyDec.MulInt / QuoInt (i is an sdk.Int) *)
Definition dec_mul_int (a i : Z) : Z := a * i.
Definition dec_quo_int (a i : Z) : Z := Z.quot a i.
(* LegacyDec.TruncateInt / RoundInt / NewDecFromInt *)
Definition dec_trunc_int (a : Z) : Z := Z.quot a P.
Definition dec_round_int (a : Z) : Z := chop_round a.
Definition dec_of_int (i : Z) : Z := i * P.
(* NewDecWithPrec(i, prec) = i * 10^(18-prec) for 0<=prec<=18 *)
Definition dec_with_prec (i prec : Z) : Z := i * 10 ^ (18 - prec).

(* ---------------- lemmas ---------------- *)

Lemma chop_round_nn_bounds d : 0 <= d ->
  2 * P * chop_round_nn d <= 2 * d + P /\ 2 * d - P <= 2 * P * chop_round_nn d.
Proof.
  intros Hd. pose proof P_pos as HP. unfold chop_round_nn.
  pose proof (Z.div_mod d P ltac:(lia)) as E. pose proof (Z.mod_pos_bound d P HP) as B.
  set (q := d / P) in *. set (r := d mod P) in *.
  destruct (r =? 0) eqn:E0; [apply Z.eqb_eq in E0; nia|].
  destruct (2 * r <? P) eqn:E1; [apply Z.ltb_lt in E1; nia|].
  destruct (2 * r >? P) eqn:E2; [apply Z.gtb_lt in E2; nia|].
  apply Z.ltb_ge in E1. rewrite Z.gtb_ltb in E2. apply Z.ltb_ge in E2.
  destruct (Z.even q); nia.
Qed.

Lemma chop_round_nn_nonneg d : 0 <= d -> 0 <= chop_round_nn d.
Proof.
  intros Hd. pose proof P_pos as HP. unfold chop_round_nn.
  assert (0 <= d / P) by (apply Z.div_pos; lia).
  repeat match goal with |- context [if ?c then _ else _] => destruct c end; lia.
Qed.

Lemma chop_round_nn_exact k : 0 <= k -> chop_round_nn (k * P) = k.
Proof.
  intros Hk. pose proof P_pos as HP. unfold chop_round_nn.
  rewrite Z.mod_mul by lia. rewrite Z.eqb_refl. apply Z.div_mul. lia.
Qed.

Lemma chop_round_nn_mono a b : 0 <= a -> a <= b -> chop_round_nn a <= chop_round_nn b.
Proof.
  intros Ha Hab. pose proof P_pos as HP.
  destruct (Z.eq_dec (a / P) (b / P)) as [Heq|Hne].
  - (* same quotient: compare remainders *)
    unfold chop_round_nn. cbv zeta. rewrite <- Heq.
    pose proof (Z.div_mod a P ltac:(lia)) as Ea. pose proof (Z.div_mod b P ltac:(lia)) as Eb.
    pose proof (Z.mod_pos_bound a P HP) as Ba. pose proof (Z.mod_pos_bound b P HP) as Bb.
    rewrite <- Heq in Eb.
    assert (a mod P <= b mod P) by lia.
    set (q := a / P) in *. set (ra := a mod P) in *. set (rb := b mod P) in *.
    destruct (Z.eqb_spec ra 0) as [A0|A0]; destruct (Z.eqb_spec rb 0) as [B0|B0]; try lia.
    + repeat match goal with |- context [if ?c then _ else _] => destruct c end; lia.
    + destruct (Z.ltb_spec (2 * ra) P) as [A1|A1]; destruct (Z.ltb_spec (2 * rb) P) as [B1|B1]; try lia.
      * repeat match goal with |- context [if ?c then _ else _] => destruct c end; lia.
      * rewrite !Z.gtb_ltb.
        destruct (Z.ltb_spec P (2 * ra)) as [A2|A2]; destruct (Z.ltb_spec P (2 * rb)) as [B2|B2]; try lia;
          destruct (Z.even q); lia.
  - (* different quotient: a/P + 1 <= b/P *)
    assert (a / P <= b / P) by (apply Z.div_le_mono; lia).
    assert (a / P + 1 <= b / P) by lia.
    assert (chop_round_nn a <= a / P + 1).
    { unfold chop_round_nn. repeat match goal with |- context [if ?c then _ else _] => destruct c end; lia. }
    assert (b / P <= chop_round_nn b).
    { unfold chop_round_nn. repeat match goal with |- context [if ?c then _ else _] => destruct c end; lia. }
    lia.
Qed.

Lemma chop_round_nonneg_eq d : 0 <= d -> chop_round d = chop_round_nn d.
Proof. intros H. unfold chop_round. destruct (d <? 0) eqn:E; [apply Z.ltb_lt in E; lia|reflexivity]. Qed.

Lemma quot_nonneg_div a b : 0 <= a -> 0 < b -> Z.quot a b = a / b.
Proof. intros. apply Z.quot_div_nonneg; lia. Qed.

(* Quo of non-negative by positive is non-negative *)
Lemma dec_quo_nonneg a b : 0 <= a -> 0 < b -> 0 <= dec_quo a b.
Proof.
  intros Ha Hb. unfold dec_quo. pose proof PP_pos.
  rewrite quot_nonneg_div by nia.
  assert (0 <= a * PP / b) by (apply Z.div_pos; nia).
  rewrite chop_round_nonneg_eq by assumption. apply chop_round_nn_nonneg; assumption.
Qed.

(* Quo x x = 1 *)
Lemma dec_quo_self a : 0 < a -> dec_quo a a = P.
Proof.
  intros Ha. unfold dec_quo. pose proof PP_pos. pose proof P_pos.
  rewrite quot_nonneg_div by nia.
  replace (a * PP) with (PP * a) by ring. rewrite Z.div_mul by lia.
  rewrite chop_round_nonneg_eq by lia. unfold PP. apply chop_round_nn_exact. lia.
Qed.

(* Quo is monotone in the numerator (non-negative operands) *)
Lemma dec_quo_mono_l a a' b : 0 <= a -> a <= a' -> 0 < b -> dec_quo a b <= dec_quo a' b.
Proof.
  intros Ha Hle Hb. unfold dec_quo. pose proof PP_pos.
  rewrite !quot_nonneg_div by nia.
  assert (0 <= a * PP / b) by (apply Z.div_pos; nia).
  assert (a * PP / b <= a' * PP / b) by (apply Z.div_le_mono; nia).
  rewrite !chop_round_nonneg_eq by lia. apply chop_round_nn_mono; lia.
Qed.

(* a <= b -> Quo a b <= 1 *)
Lemma dec_quo_le_one a b : 0 <= a -> a <= b -> 0 < b -> dec_quo a b <= P.
Proof.
  intros. rewrite <- (dec_quo_self b) by lia. apply dec_quo_mono_l; lia.
Qed.

Lemma dec_trunc_int_nonneg a : 0 <= a -> 0 <= dec_trunc_int a.
Proof. intros. unfold dec_trunc_int. pose proof P_pos. rewrite quot_nonneg_div by lia. apply Z.div_pos; lia. Qed.

Lemma dec_trunc_int_of_int i : dec_trunc_int (dec_of_int i) = i.
Proof. unfold dec_trunc_int, dec_of_int. pose proof P_pos. apply Z.quot_mul. lia. Qed.

Lemma dec_trunc_int_mono a b : 0 <= a -> a <= b -> dec_trunc_int a <= dec_trunc_int b.
Proof. intros. unfold dec_trunc_int. pose proof P_pos. rewrite !quot_nonneg_div by lia. apply Z.div_le_mono; lia. Qed.

(* MulTruncate of non-negatives is non-negative and monotone *)
Lemma dec_mul_trunc_nonneg a b : 0 <= a -> 0 <= b -> 0 <= dec_mul_trunc a b.
Proof. intros. unfold dec_mul_trunc, chop_trunc. pose proof P_pos. rewrite quot_nonneg_div by nia. apply Z.div_pos; nia. Qed.

Lemma dec_mul_trunc_le a b : 0 <= a -> 0 <= b -> b <= P -> dec_mul_trunc a b <= a.
Proof.
  intros. unfold dec_mul_trunc, chop_trunc. pose proof P_pos. rewrite quot_nonneg_div by nia.
  apply Z.div_le_upper_bound; nia.
Qed.
