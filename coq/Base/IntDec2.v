(* Base/IntDec2.v — additions to Base/IntDec.v used by the GENERATED kernels (coq/Gen/Kernels.v):
   the result type of a translated Go function, machine-integer wrap-around, big.Int.Cmp,
   NewIntWithDecimal, LegacyDec.Ceil.  Definitions only + a few one-line facts. *)
From Coq Require Import ZArith String Bool Lia.
From Exo Require Import Base.IntDec.
Local Open Scope Z_scope.

(* outcome of a translated Go function: normal return, `return _, Err…` (name of the registered error),
   or a Go panic raised by the called library code (division by zero, Int / LegacyDec overflow guards) *)
Inductive kres (A : Type) : Type :=
| KOk (a : A)
| KErr (e : string)
| KPanic (why : string).
Arguments KOk {A} a.
Arguments KErr {A} e.
Arguments KPanic {A} why.

Definition kres_eqb {A} (f : A -> A -> bool) (x y : kres A) : bool :=
  match x, y with
  | KOk a, KOk b => f a b
  | KErr a, KErr b => String.eqb a b
  | KPanic _, KPanic _ => true          (* panic messages are not compared *)
  | _, _ => false
  end.

Definition kres_val {A} (x : kres A) : option A := match x with KOk a => Some a | _ => None end.

(* big.Int.Cmp *)
Definition zcmp (a b : Z) : Z := match a ?= b with Lt => -1 | Eq => 0 | Gt => 1 end.

Lemma zcmp_gt a b : (zcmp a b >? 0) = (a >? b).
Proof. unfold zcmp, Z.gtb. destruct (a ?= b); reflexivity. Qed.

(* sdkmath.NewIntWithDecimal(n, dec) = n * 10^dec (dec >= 0 is guarded by the caller) *)
Definition int_with_decimal (n d : Z) : Z := n * 10 ^ d.

(* uintN arithmetic wraps *)
Definition u_add (bits a b : Z) : Z := (a + b) mod 2 ^ bits.
Definition u_sub (bits a b : Z) : Z := (a - b) mod 2 ^ bits.
Definition u_mul (bits a b : Z) : Z := (a * b) mod 2 ^ bits.

(* LegacyDec.Ceil *)
Definition dec_ceil (a : Z) : Z :=
  let q := Z.quot a P in let r := Z.rem a P in
  if r =? 0 then q * P else if a <? 0 then q * P else (q + 1) * P.

(* bytes.Compare on byte strings (sdk.AccAddress): lexicographic by byte value = String.compare *)
Definition bytes_cmp (a b : string) : Z := match String.compare a b with Lt => -1 | Eq => 0 | Gt => 1 end.

Lemma bytes_cmp_lt a b : (bytes_cmp a b <? 0) = String.ltb a b.
Proof. unfold bytes_cmp, String.ltb. destruct (String.compare a b); reflexivity. Qed.
