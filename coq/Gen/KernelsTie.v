(* Gen/KernelsTie.v — all ties of hand-written kernel counterparts in other packages to the GENERATED kernels.
   Split per consumer so that a change of one Go kernel breaks only the checks that depend on it:
     Gen/TieShares.v  Ledger.Ledger (C01, C03) and C05: TokensFromShares / SharesFromTokens
     Gen/TieUsd.v     C04, C05: CalculateUSDValue; C04: SlashFromUndelegation
     Gen/TieGas.v     C19: GasToRefund
     Gen/TieOracle.v  Oracle (C12, C13), C14: ExceedsThreshold
     Gen/TieEpochs.v  C15: decision part of the BeginBlocker closure = tick
     Gen/TieValset.v  C06: SortByPower comparator = cand_less
     Gen/TieSlash.v   C04: slash proportion of SlashAssets = proportion
     Gen/TieFees.v    C17: validator / staker reward arithmetic of x/feedistribution *)
From Exo Require Export Gen.TieShares Gen.TieUsd Gen.TieGas Gen.TieOracle Gen.TieEpochs Gen.TieValset Gen.TieSlash Gen.TieFees.
