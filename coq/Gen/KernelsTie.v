(* Gen/KernelsTie.v — all ties of hand-written kernel counterparts in other packages to the GENERATED kernels.
   Split per consumer so that a change of one Go kernel breaks only the checks that depend on it:
     Gen/TieShares.v  Ledger.Ledger (C01, C03) and C05: TokensFromShares / SharesFromTokens
     Gen/TieUsd.v     C04, C05: CalculateUSDValue; C04: SlashFromUndelegation
     Gen/TieGas.v     C19: GasToRefund
     Gen/TieOracle.v  Oracle (C12, C13), C14: ExceedsThreshold *)
From Exo Require Export Gen.TieShares Gen.TieUsd Gen.TieGas Gen.TieOracle.
