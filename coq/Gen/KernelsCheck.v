(* Gen/KernelsCheck.v — hand-written glue that validates the TRANSLATION itself: the harness suite
   "kernels" calls the real Go functions on boundary-biased inputs and records what they returned;
   [check_kcase] evaluates the GENERATED Gallina definitions (Gen/Kernels.v) on the same inputs and
   compares (a wrong method table or a wrong control-flow translation shows up here);
   [monitor_kcase] evaluates the pure share laws of property C02 on the values the Go code returned,
   independently of the generated definitions. No proofs here. *)
From Coq Require Import List String Ascii Bool ZArith NArith.
From Exo Require Import Base.IntDec Base.IntDec2 Base.Util Gen.Kernels.
From Exo Require Gen.KernelsSnapshot.
Import ListNotations.
Local Open Scope Z_scope.

Inductive kobs := OOk (vals : list Z) | OErr (name : string) | OPanic.
Record kcall := mkKC { kc_fn : string; kc_args : list Z; kc_obs : kobs }.
Definition kcase := list kcall.

Definition kobs_eqb (a b : kobs) : bool :=
  match a, b with
  | OOk x, OOk y => list_eqb Z.eqb x y
  | OErr x, OErr y => String.eqb x y
  | OPanic, OPanic => true
  | _, _ => false
  end.

Definition of_kres {A} (enc : A -> list Z) (r : kres A) : kobs :=
  match r with KOk a => OOk (enc a) | KErr e => OErr e | KPanic _ => OPanic end.

Definition kbind {A} (r : kres A) (f : A -> kobs) : kobs :=
  match r with KOk a => f a | KErr e => OErr e | KPanic _ => OPanic end.

Definition enc_Z (z : Z) : list Z := [z].
Definition enc_bool (b : bool) : list Z := [if b then 1 else 0].
Definition enc_slash (r : option Z * Z) : list Z :=
  match r with (None, a) => [0; a] | (Some s, a) => [1; s; a] end.

(* a table of kernels: the freshly generated ones, and the last good snapshot (Gen/KernelsSnapshot.v) *)
Record ktable := mkKT {
  kt_tfs : Z -> Z -> Z -> kres Z;
  kt_sft : Z -> Z -> Z -> kres Z;
  kt_usd : Z -> Z -> Z -> Z -> kres Z;
  kt_slash : Z -> Z -> Z -> kres (option Z * Z);
  kt_gas : Z -> Z -> Z -> kres Z;
  kt_exc : Z -> Z -> Z -> Z -> bool;
  kt_epoch : Z -> Z -> bool -> Z -> Z -> Z -> Z -> bool -> Z -> bool * Z * bool * Z * Z * option Z * option Z * bool;
  kt_less : string -> string -> Z -> Z -> bool;
  kt_sprop : Z -> Z -> Z -> kres Z }.

(* a 20-byte address from its big-endian integer value (the harness sends sdk.AccAddress values that way) *)
Fixpoint bytes_of_Z (n : nat) (z : Z) : string :=
  match n with
  | O => EmptyString
  | S m => String (ascii_of_N (Z.to_N ((z / 256 ^ Z.of_nat m) mod 256))) (bytes_of_Z m z)
  end.

(* what BeginBlocker leaves behind for one epoch info, from the generated decision: the stored fields (new ones iff
   the write marker is set) and the two hook notifications (-1 = not called) *)
Definition epoch_obs (d : bool * Z * bool * Z * Z * option Z * option Z * bool) (started : bool) (cur cur_start cur_height : Z) : list Z :=
  let '(_, h', st', c', cs', aft, bef, saved) := d in
  let b2z (b : bool) := if b then 1 else 0 in
  (if saved then [h'; b2z st'; c'; cs'] else [cur_height; b2z started; cur; cur_start]) ++
  [match aft with Some n => n | None => -1 end; match bef with Some n => n | None => -1 end].

Definition kt_current : ktable :=
  mkKT TokensFromShares SharesFromTokens CalculateUSDValue SlashFromUndelegation GasToRefund ExceedsThreshold
       epoch_tick_decision sort_by_power_less slash_proportion.
Definition kt_snapshot : ktable :=
  mkKT KernelsSnapshot.TokensFromShares KernelsSnapshot.SharesFromTokens KernelsSnapshot.CalculateUSDValue
       KernelsSnapshot.SlashFromUndelegation KernelsSnapshot.GasToRefund KernelsSnapshot.ExceedsThreshold
       KernelsSnapshot.epoch_tick_decision KernelsSnapshot.sort_by_power_less KernelsSnapshot.slash_proportion.

(* the kernels by name; the composite calls chain two or three kernel calls the way the keeper does *)
Definition run_kernel (kt : ktable) (fn : string) (args : list Z) : option kobs :=
  match args with
  | [a; b; c] =>
      if String.eqb fn "TokensFromShares" then Some (of_kres enc_Z (kt_tfs kt a b c))
      else if String.eqb fn "SharesFromTokens" then Some (of_kres enc_Z (kt_sft kt a b c))
      else if String.eqb fn "SlashFromUndelegation" then Some (of_kres enc_slash (kt_slash kt a b c))
      else if String.eqb fn "GasToRefund" then Some (of_kres enc_Z (kt_gas kt a b c))
      else if String.eqb fn "slash_proportion" then Some (of_kres enc_Z (kt_sprop kt a b c))
      else if String.eqb fn "RoundTrip" then (* S T x : mint for x, then redeem exactly the minted shares *)
        Some (kbind (kt_sft kt a c b) (fun sh =>
              kbind (kt_tfs kt sh (a + sh) (b + c)) (fun t => OOk [sh; t])))
      else None
  | [a; b; c; d] =>
      if String.eqb fn "CalculateUSDValue" then Some (of_kres enc_Z (kt_usd kt a b c d))
      else if String.eqb fn "ExceedsThreshold" then Some (OOk (enc_bool (kt_exc kt a b c d)))
      else if String.eqb fn "sort_by_power_less" then (* addr_i addr_j (20-byte big-endian values) power_i power_j *)
        Some (OOk (enc_bool (kt_less kt (bytes_of_Z 20 a) (bytes_of_Z 20 b) c d)))
      else if String.eqb fn "BystanderD" then (* S T x shB : value of B's shares before/after A delegates x *)
        Some (kbind (kt_sft kt a c b) (fun sh =>
              kbind (kt_tfs kt d a b) (fun v =>
              kbind (kt_tfs kt d (a + sh) (b + c)) (fun v' => OOk [sh; v; v']))))
      else if String.eqb fn "BystanderU" then (* S T r shB : value of B's shares before/after A removes r shares *)
        Some (kbind (kt_tfs kt c a b) (fun out =>
              kbind (kt_tfs kt d a b) (fun v =>
              kbind (kt_tfs kt d (a - c) (b - out)) (fun v' => OOk [out; v; v']))))
      else None
  | [a; b] =>
      (* the method table itself: LegacyDec operations of cosmossdk.io/math against Base/IntDec.v *)
      let res (v : Z) := if dec_ok v then OOk [v] else OPanic in
      if String.eqb fn "Dec.QuoTruncate" then Some (if b =? 0 then OPanic else res (dec_quo_trunc a b))
      else if String.eqb fn "Dec.QuoRoundUp" then Some (if b =? 0 then OPanic else res (dec_quo_roundup a b))
      else if String.eqb fn "Dec.Quo" then Some (if b =? 0 then OPanic else res (dec_quo a b))
      else if String.eqb fn "Dec.MulTruncate" then Some (res (dec_mul_trunc a b))
      else if String.eqb fn "Dec.Mul" then Some (res (dec_mul a b))
      else None
  | [h; t; valid; start; dur; cur; cur_start; started; cur_height] =>
      if String.eqb fn "epoch_tick_decision" then
        Some (OOk (epoch_obs (kt_epoch kt h t (negb (valid =? 0)) start dur cur cur_start (negb (started =? 0)) cur_height)
                             (negb (started =? 0)) cur cur_start cur_height))
      else None
  | _ => None
  end.

Fixpoint check_calls (kt : ktable) (cs : list kcall) (i : nat) : option nat :=
  match cs with
  | [] => None
  | c :: r =>
      match run_kernel kt (kc_fn c) (kc_args c) with
      | Some o => if kobs_eqb o (kc_obs c) then check_calls kt r (S i) else Some i
      | None => Some i
      end
  end.
(* translation check: the regenerated kernels reproduce what the Go functions returned *)
Definition check_kcase (c : kcase) : option nat := check_calls kt_current c 0%nat.
(* behaviour-change detector: the LAST GOOD kernels (snapshot) against what the Go functions return NOW; a
   failure is a concrete input on which the behaviour of a pure kernel changed *)
Definition check_ksnapshot (c : kcase) : option nat := check_calls kt_snapshot c 0%nat.

(* ---- the pure laws of C02, evaluated on what the Go functions returned ---- *)
Definition law_ok (c : kcall) : bool :=
  let fn := kc_fn c in
  match kc_args c, kc_obs c with
  | [a1; a2; a3], OOk [r1] =>
      if String.eqb fn "SharesFromTokens" then
        let tS := a1 in let x := a2 in let tT := a3 in let sh := r1 in
        if (0 <=? tS) && (0 <=? x) && (0 <? tT) then (sh * tT <=? tS * x) && (tS * x - tT <? sh * tT) && (0 <=? sh)
        else if (tT =? 0) then sh =? 0 else true
      else if String.eqb fn "TokensFromShares" then
        let sh := a1 in let tS := a2 in let tT := a3 in let t := r1 in
        if (0 <=? sh) && (0 <? tS) && (0 <=? tT) then
          (sh * tT / tS <=? t) && (t * tS <? sh * tT + (if sh * tT mod tS =? 0 then 1 else tS)) && (t <=? tT)
        else true
      else true
  | [a1; a2; a3], OErr _ | [a1; a2; a3], OPanic =>
      (* inside the guards the conversions are total (C02_kernels_total) *)
      if String.eqb fn "TokensFromShares" then
        negb ((0 <=? a1) && (a1 <=? a2) && (0 <? a2) && (0 <=? a3) && (a1 * a3 <? 2 ^ 315) && (a3 <? 2 ^ 250))
      else if String.eqb fn "SharesFromTokens" then
        negb ((0 <=? a1) && (0 <=? a2) && (0 <? a3) && (a1 * a2 <? 2 ^ 315))
      else true
  | [tS; tT; x], OOk [sh; t] =>
      if String.eqb fn "RoundTrip" then
        if (0 <? tS) && (0 <? tT) && (0 <? x) then (t <=? x) && (if tT <=? tS then x - 1 <=? t else true) else true
      else true
  | [tS; tT; a3; shB], OOk [r1; v; v'] =>
      if String.eqb fn "BystanderD" then
        let x := a3 in
        if (0 <? tS) && (0 <? tT) && (tT <=? tS) && (0 <? x) && (0 <=? shB) && (shB <=? tS) then (v <=? v') && (v' <=? v + 1) else true
      else if String.eqb fn "BystanderU" then
        let r := a3 in let out := r1 in
        if (0 <? tS) && (0 <=? tT) && (0 <? r) && (0 <? shB) && (shB + r <=? tS) then
          (v - 1 <=? v') && (v' <=? v + 1) && (out <=? tT) else true
      else true
  | _, _ => true
  end.

Fixpoint monitor_calls (cs : list kcall) (i : nat) : option nat :=
  match cs with
  | [] => None
  | c :: r => if law_ok c then monitor_calls r (S i) else Some i
  end.
Definition monitor_kcase (c : kcase) : option nat := monitor_calls c 0%nat.
