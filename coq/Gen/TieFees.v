(* Gen/TieFees.v — C17/Model.v reward arithmetic (hand-written) against the GENERATED value slices of
   x/feedistribution AllocateTokens (validator_reward: feeMultiplier and per-validator reward) and
   AllocateTokensToStakers (staker_reward). sdk.DecCoins is taken per denomination (one LegacyDec amount). *)
From Coq Require Import ZArith Bool String Lia.
From Exo Require Import Base.IntDec Base.IntDec2 Gen.Kernels.
From Exo Require C17.Model.
Local Open Scope Z_scope.

(* the fee multiplier of C17's alloc step: feesCollected.MulDecTruncate(1 - communityTax) *)
Definition c17_fee_mult (fees tax : Z) : Z := dec_mul_trunc fees (P - tax).

Theorem tie_c17_validator_reward (v : C17.Model.vin) fees tax total r :
  validator_reward (C17.Model.v_power v) fees tax total = KOk r ->
  r = C17.Model.val_reward (c17_fee_mult fees tax) total v.
Proof.
  unfold validator_reward, C17.Model.val_reward, c17_fee_mult. cbv zeta.
  destruct (negb (dec_ok (P - tax))); [discriminate|].
  destruct (negb (dec_ok (dec_mul_trunc fees (P - tax)))); [discriminate|].
  destruct (dec_of_int total =? 0); [discriminate|].
  destruct (negb (dec_ok (dec_quo_trunc (dec_of_int (C17.Model.v_power v)) (dec_of_int total)))); [discriminate|].
  destruct (negb (dec_ok _)); [discriminate|].
  intros H. congruence.
Qed.

Theorem tie_c17_staker_reward reward p total r :
  staker_reward reward p total = KOk r -> r = dec_mul_trunc reward (dec_quo_trunc p total).
Proof.
  unfold staker_reward. cbv zeta.
  destruct (total =? 0); [discriminate|].
  destruct (negb (dec_ok (dec_quo_trunc p total))); [discriminate|].
  destruct (negb (dec_ok _)); [discriminate|].
  intros H. congruence.
Qed.
