(* Gen/TieValset.v — C06/Model.v `cand_less` (hand-written comparator of utils.SortByPower) against the GENERATED
   comparator (Gen/Kernels.v sort_by_power_less: power descending, operator address bytes ascending on ties). *)
From Coq Require Import String Bool ZArith Lia.
From Exo Require Import Base.IntDec Base.IntDec2 Gen.Kernels.
From Exo Require C06.Model.
Local Open Scope Z_scope.

Theorem tie_c06_cand_less a b :
  C06.Model.cand_less a b =
  sort_by_power_less (C06.Model.c_addr a) (C06.Model.c_addr b) (C06.Model.c_pow a) (C06.Model.c_pow b).
Proof.
  unfold C06.Model.cand_less, sort_by_power_less.
  destruct (C06.Model.c_pow a =? C06.Model.c_pow b); [symmetry; apply bytes_cmp_lt | symmetry; apply Z.gtb_ltb].
Qed.
