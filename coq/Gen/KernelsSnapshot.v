(* Gen/KernelsSnapshot.v — LAST GOOD output of tools/kernel2v (corr/gen_kernels.sh --snapshot); never written by a check. *)
From Coq Require Import ZArith String Bool.
From Exo Require Import Base.IntDec Base.IntDec2.
Local Open Scope Z_scope.
Local Open Scope bool_scope.

(* x/delegation/keeper/share.go : func TokensFromShares *)
Definition TokensFromShares (stakerShare : Z) (totalShare : Z) (totalAmount : Z) : kres (Z) :=
  if (stakerShare >? totalShare) then (
    KErr "ErrInsufficientShares"
  ) else (
    if (totalShare =? 0) then (
      if (totalAmount =? 0) then (
        KOk 0
      ) else (
        KErr "ErrDivisorIsZero"
      )
    ) else (
      let k_t1 := (dec_mul_int stakerShare totalAmount) in
      if negb (dec_ok k_t1) then KPanic "Dec.MulInt: Dec overflow" else
      if (totalShare =? 0) then KPanic "Dec.Quo: division by zero" else
      let k_t2 := (dec_quo k_t1 totalShare) in
      if negb (dec_ok k_t2) then KPanic "Dec.Quo: Dec overflow" else
      let k_t3 := (dec_trunc_int k_t2) in
      if negb (int_ok k_t3) then KPanic "Dec.TruncateInt: Int overflow" else
      KOk k_t3
    )
  ).

(* x/delegation/keeper/share.go : func SharesFromTokens *)
Definition SharesFromTokens (totalShare : Z) (stakerAmount : Z) (totalAmount : Z) : kres (Z) :=
  if (totalAmount =? 0) then (
    if (totalShare =? 0) then (
      KOk 0
    ) else (
      KErr "ErrDivisorIsZero"
    )
  ) else (
    let k_t1 := (dec_mul_int totalShare stakerAmount) in
    if negb (dec_ok k_t1) then KPanic "Dec.MulInt: Dec overflow" else
    if (totalAmount =? 0) then KPanic "Dec.QuoInt: division by zero" else
    KOk (dec_quo_int k_t1 totalAmount)
  ).

(* x/operator/keeper/common_func.go : func CalculateUSDValue *)
Definition CalculateUSDValue (assetAmount : Z) (price : Z) (assetDecimal : Z) (priceDecimal : Z) : kres (Z) :=
  let k_t1 := (assetAmount * price) in
  if negb (int_ok k_t1) then KPanic "Int.Mul: Int overflow" else
  let assetValue := k_t1 in
  let assetValueDec := (dec_of_int assetValue) in
  let k_t2 := (assetDecimal + priceDecimal) in
  if (k_t2 <? 0) then KPanic "NewIntWithDecimal: NewIntWithDecimal() decimal is negative" else
  let k_t3 := (int_with_decimal 1 k_t2) in
  if negb (int_ok k_t3) then KPanic "NewIntWithDecimal: Int overflow" else
  let divisor := k_t3 in
  if (divisor =? 0) then KPanic "Dec.QuoInt: division by zero" else
  KOk (dec_quo_int assetValueDec divisor).

(* x/operator/keeper/slash.go : func SlashFromUndelegation *)
Definition SlashFromUndelegation (undelegation_Amount : Z) (undelegation_ActualCompletedAmount : Z) (slashProportion : Z) : kres (option (Z) * Z) :=
  if (undelegation_ActualCompletedAmount =? 0) then (
    KOk (None, undelegation_ActualCompletedAmount)
  ) else (
    let k_t1 := (dec_mul_int slashProportion undelegation_Amount) in
    if negb (dec_ok k_t1) then KPanic "Dec.MulInt: Dec overflow" else
    let k_t2 := (dec_trunc_int k_t1) in
    if negb (int_ok k_t2) then KPanic "Dec.TruncateInt: Int overflow" else
    let slashAmount := k_t2 in
    if (slashAmount >=? undelegation_ActualCompletedAmount) then (
      let slashAmount := undelegation_ActualCompletedAmount in
      let undelegation_ActualCompletedAmount := 0 in
      KOk ((Some slashAmount), undelegation_ActualCompletedAmount)
    ) else (
      let k_t3 := (undelegation_ActualCompletedAmount - slashAmount) in
      if negb (int_ok k_t3) then KPanic "Int.Sub: Int overflow" else
      let undelegation_ActualCompletedAmount := k_t3 in
      KOk ((Some slashAmount), undelegation_ActualCompletedAmount)
    )
  ).

(* x/evm/keeper/gas.go : func GasToRefund *)
Definition GasToRefund (availableRefund : Z) (gasConsumed : Z) (refundQuotient : Z) : kres (Z) :=
  if (refundQuotient =? 0) then KPanic "integer divide by zero" else
  let refund := (gasConsumed / refundQuotient) in
  if (refund >? availableRefund) then (
    KOk availableRefund
  ) else (
    KOk refund
  ).

(* x/oracle/keeper/common/types.go : func ExceedsThreshold *)
Definition ExceedsThreshold (ThresholdA : Z) (ThresholdB : Z) (power : Z) (totalPower : Z) : bool :=
  ((zcmp (power * ThresholdB) (totalPower * ThresholdA)) >? 0).

Definition kernel_names : list string := ("TokensFromShares"%string :: "SharesFromTokens"%string :: "CalculateUSDValue"%string :: "SlashFromUndelegation"%string :: "GasToRefund"%string :: "ExceedsThreshold"%string :: nil)%list.
