(* Gen/KernelsSnapshot.v — LAST GOOD output of tools/kernel2v (corr/gen_kernels.sh --snapshot); never written by a check. *)
From Coq Require Import ZArith String Bool.
From Exo Require Import Base.IntDec Base.IntDec2.
Local Open Scope Z_scope.
Local Open Scope bool_scope.

(* x/delegation/keeper/share.go : func TokensFromShares *)
Definition TokensFromShares (stakerShare : Z) (totalShare : Z) (totalAmount : Z) : kres (Z) :=
  if (stakerShare >? totalShare) then (
    KErr "ErrInsufficientShares"
  ) else (
    if (totalShare =? 0) then (
      if (totalAmount =? 0) then (
        KOk 0
      ) else (
        KErr "ErrDivisorIsZero"
      )
    ) else (
      let k_t1 := (dec_mul_int stakerShare totalAmount) in
      if negb (dec_ok k_t1) then KPanic "Dec.MulInt: Dec overflow" else
      if (totalShare =? 0) then KPanic "Dec.Quo: division by zero" else
      let k_t2 := (dec_quo k_t1 totalShare) in
      if negb (dec_ok k_t2) then KPanic "Dec.Quo: Dec overflow" else
      let k_t3 := (dec_trunc_int k_t2) in
      if negb (int_ok k_t3) then KPanic "Dec.TruncateInt: Int overflow" else
      KOk k_t3
    )
  ).

(* x/delegation/keeper/share.go : func SharesFromTokens *)
Definition SharesFromTokens (totalShare : Z) (stakerAmount : Z) (totalAmount : Z) : kres (Z) :=
  if (totalAmount =? 0) then (
    if (totalShare =? 0) then (
      KOk 0
    ) else (
      KErr "ErrDivisorIsZero"
    )
  ) else (
    let k_t1 := (dec_mul_int totalShare stakerAmount) in
    if negb (dec_ok k_t1) then KPanic "Dec.MulInt: Dec overflow" else
    if (totalAmount =? 0) then KPanic "Dec.QuoInt: division by zero" else
    KOk (dec_quo_int k_t1 totalAmount)
  ).

(* x/operator/keeper/common_func.go : func CalculateUSDValue *)
Definition CalculateUSDValue (assetAmount : Z) (price : Z) (assetDecimal : Z) (priceDecimal : Z) : kres (Z) :=
  let k_t1 := (assetAmount * price) in
  if negb (int_ok k_t1) then KPanic "Int.Mul: Int overflow" else
  let assetValue := k_t1 in
  let assetValueDec := (dec_of_int assetValue) in
  let k_t2 := (assetDecimal + priceDecimal) in
  if (k_t2 <? 0) then KPanic "NewIntWithDecimal: NewIntWithDecimal() decimal is negative" else
  let k_t3 := (int_with_decimal 1 k_t2) in
  if negb (int_ok k_t3) then KPanic "NewIntWithDecimal: Int overflow" else
  let divisor := k_t3 in
  if (divisor =? 0) then KPanic "Dec.QuoInt: division by zero" else
  KOk (dec_quo_int assetValueDec divisor).

(* x/operator/keeper/slash.go : func SlashFromUndelegation *)
Definition SlashFromUndelegation (undelegation_Amount : Z) (undelegation_ActualCompletedAmount : Z) (slashProportion : Z) : kres (option (Z) * Z) :=
  if (undelegation_ActualCompletedAmount =? 0) then (
    KOk (None, undelegation_ActualCompletedAmount)
  ) else (
    let k_t1 := (dec_mul_int slashProportion undelegation_Amount) in
    if negb (dec_ok k_t1) then KPanic "Dec.MulInt: Dec overflow" else
    let k_t2 := (dec_trunc_int k_t1) in
    if negb (int_ok k_t2) then KPanic "Dec.TruncateInt: Int overflow" else
    let slashAmount := k_t2 in
    if (slashAmount >=? undelegation_ActualCompletedAmount) then (
      let slashAmount := undelegation_ActualCompletedAmount in
      let undelegation_ActualCompletedAmount := 0 in
      KOk ((Some slashAmount), undelegation_ActualCompletedAmount)
    ) else (
      let k_t3 := (undelegation_ActualCompletedAmount - slashAmount) in
      if negb (int_ok k_t3) then KPanic "Int.Sub: Int overflow" else
      let undelegation_ActualCompletedAmount := k_t3 in
      KOk ((Some slashAmount), undelegation_ActualCompletedAmount)
    )
  ).

(* x/evm/keeper/gas.go : func GasToRefund *)
Definition GasToRefund (availableRefund : Z) (gasConsumed : Z) (refundQuotient : Z) : kres (Z) :=
  if (refundQuotient =? 0) then KPanic "integer divide by zero" else
  let refund := (gasConsumed / refundQuotient) in
  if (refund >? availableRefund) then (
    KOk availableRefund
  ) else (
    KOk refund
  ).

(* x/oracle/keeper/common/types.go : func ExceedsThreshold *)
Definition ExceedsThreshold (ThresholdA : Z) (ThresholdB : Z) (power : Z) (totalPower : Z) : bool :=
  ((zcmp (power * ThresholdB) (totalPower * ThresholdA)) >? 0).

(* x/epochs/keeper/abci.go : the function literal passed to IterateEpochInfos in BeginBlocker (decision part) *)
Definition epoch_tick_decision (blockHeight : Z) (blockTime : Z) (epochInfo_valid : bool) (epochInfo_StartTime : Z) (epochInfo_Duration : Z) (epochInfo_CurrentEpoch : Z) (epochInfo_CurrentEpochStartTime : Z) (epochInfo_EpochCountingStarted : bool) (epochInfo_CurrentEpochStartHeight : Z) : bool * Z * bool * Z * Z * option (Z) * option (Z) * bool :=
  let after_epoch_end : option (Z) := None in
  let before_epoch_start : option (Z) := None in
  let saved := false in
  if negb epochInfo_valid then (
    (false, epochInfo_CurrentEpochStartHeight, epochInfo_EpochCountingStarted, epochInfo_CurrentEpoch, epochInfo_CurrentEpochStartTime, after_epoch_end, before_epoch_start, saved)
  ) else (
    if (blockTime <? epochInfo_StartTime) then (
      (false, epochInfo_CurrentEpochStartHeight, epochInfo_EpochCountingStarted, epochInfo_CurrentEpoch, epochInfo_CurrentEpochStartTime, after_epoch_end, before_epoch_start, saved)
    ) else (
      let epochEndTime := (epochInfo_CurrentEpochStartTime + epochInfo_Duration) in
      let isFirstTick := (negb epochInfo_EpochCountingStarted) in
      let isTickEnding := (blockTime >? epochEndTime) in
      let isEpochStart := (isTickEnding || isFirstTick) in
      if (negb isEpochStart) then (
        (false, epochInfo_CurrentEpochStartHeight, epochInfo_EpochCountingStarted, epochInfo_CurrentEpoch, epochInfo_CurrentEpochStartTime, after_epoch_end, before_epoch_start, saved)
      ) else (
        let epochInfo_CurrentEpochStartHeight := blockHeight in
        if isFirstTick then (
          let epochInfo_EpochCountingStarted := true in
          let epochInfo_CurrentEpoch := 1 in
          let epochInfo_CurrentEpochStartTime := epochInfo_StartTime in
          let saved := true in
          let before_epoch_start := (Some epochInfo_CurrentEpoch) in
          (false, epochInfo_CurrentEpochStartHeight, epochInfo_EpochCountingStarted, epochInfo_CurrentEpoch, epochInfo_CurrentEpochStartTime, after_epoch_end, before_epoch_start, saved)
        ) else (
          let after_epoch_end := (Some epochInfo_CurrentEpoch) in
          let epochInfo_CurrentEpoch := (epochInfo_CurrentEpoch + 1) in
          let epochInfo_CurrentEpochStartTime := epochEndTime in
          let saved := true in
          let before_epoch_start := (Some epochInfo_CurrentEpoch) in
          (false, epochInfo_CurrentEpochStartHeight, epochInfo_EpochCountingStarted, epochInfo_CurrentEpoch, epochInfo_CurrentEpochStartTime, after_epoch_end, before_epoch_start, saved)
        )
      )
    )
  ).

(* utils/utils.go : the function literal passed to Slice in SortByPower (decision part) *)
Definition sort_by_power_less (addr_i : string) (addr_j : string) (power_i : Z) (power_j : Z) : bool :=
  if (power_i =? power_j) then (
    ((bytes_cmp addr_i addr_j) <? 0)
  ) else (
    (power_i >? power_j)
  ).

(* x/feedistribution/keeper/allocation.go : value slice of reward in AllocateTokens *)
Definition validator_reward (val_Power : Z) (feesCollected : Z) (communityTax : Z) (totalPreviousPower : Z) : kres (Z) :=
  let k_t1 := (P - communityTax) in
  if negb (dec_ok k_t1) then KPanic "Dec.Sub: Dec overflow" else
  let k_t2 := (dec_mul_trunc feesCollected k_t1) in
  if negb (dec_ok k_t2) then KPanic "Dec.MulDecTruncate: Dec overflow" else
  let feeMultiplier := k_t2 in
  let k_t3 := (dec_of_int totalPreviousPower) in
  let k_t4 := (dec_of_int val_Power) in
  if (k_t3 =? 0) then KPanic "Dec.QuoTruncate: division by zero" else
  let k_t5 := (dec_quo_trunc k_t4 k_t3) in
  if negb (dec_ok k_t5) then KPanic "Dec.QuoTruncate: Dec overflow" else
  let powerFraction := k_t5 in
  let k_t6 := (dec_mul_trunc feeMultiplier powerFraction) in
  if negb (dec_ok k_t6) then KPanic "Dec.MulDecTruncate: Dec overflow" else
  let reward := k_t6 in
  KOk reward.

(* x/feedistribution/keeper/allocation.go : value slice of rewardToSingleStaker in AllocateTokensToStakers *)
Definition staker_reward (rewardToAllStakers : Z) (stakerPower : Z) (curTotalStakersPowers : Z) : kres (Z) :=
  if (curTotalStakersPowers =? 0) then KPanic "Dec.QuoTruncate: division by zero" else
  let k_t1 := (dec_quo_trunc stakerPower curTotalStakersPowers) in
  if negb (dec_ok k_t1) then KPanic "Dec.QuoTruncate: Dec overflow" else
  let powerFraction := k_t1 in
  let k_t2 := (dec_mul_trunc rewardToAllStakers powerFraction) in
  if negb (dec_ok k_t2) then KPanic "Dec.MulDecTruncate: Dec overflow" else
  let rewardToSingleStaker := k_t2 in
  KOk rewardToSingleStaker.

(* x/operator/keeper/slash.go : value slice of newSlashProportion in SlashAssets *)
Definition slash_proportion (parameter_Power : Z) (parameter_SlashProportion : Z) (stakingInfo_StakingAndWaitUnbonding : Z) : kres (Z) :=
  let k_t1 := (dec_mul (dec_of_int parameter_Power) parameter_SlashProportion) in
  if negb (dec_ok k_t1) then KPanic "Dec.Mul: Dec overflow" else
  let slashUSDValue := k_t1 in
  if (stakingInfo_StakingAndWaitUnbonding =? 0) then KPanic "Dec.Quo: division by zero" else
  let k_t2 := (dec_quo slashUSDValue stakingInfo_StakingAndWaitUnbonding) in
  if negb (dec_ok k_t2) then KPanic "Dec.Quo: Dec overflow" else
  let newSlashProportion := k_t2 in
  let newSlashProportion := (Z.min (dec_of_int 1) newSlashProportion) in
  KOk newSlashProportion.

Definition kernel_names : list string := ("TokensFromShares"%string :: "SharesFromTokens"%string :: "CalculateUSDValue"%string :: "SlashFromUndelegation"%string :: "GasToRefund"%string :: "ExceedsThreshold"%string :: "epoch_tick_decision"%string :: "sort_by_power_less"%string :: "validator_reward"%string :: "staker_reward"%string :: "slash_proportion"%string :: nil)%list.
