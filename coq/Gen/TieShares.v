(* Gen/TieShares.v — ties the hand-written share conversions of other packages (Ledger/Ledger.v used by C01 and C03,
   C05/Model.v) to the GENERATED kernels of Gen/Kernels.v: whenever the Go function returns normally / with an error,
   the hand-written definition returns the same thing. (A KPanic of the generated kernel = an overflow guard of
   cosmossdk.io/math; the hand-written versions do not model those guards.) If share.go changes, the regenerated
   Kernels.v makes these lemmas fail, i.e. the packages that list this file in coq_targets notice. *)
From Coq Require Import ZArith Bool String Lia.
From Exo Require Import Base.IntDec Base.IntDec2 Gen.Kernels.
From Exo Require Ledger.Ledger C05.Model.
Local Open Scope Z_scope.

Definition res_opt {A} (r : kres A) : option (option A) :=   (* Some (Some v) | Some None = error | None = panic *)
  match r with KOk a => Some (Some a) | KErr _ => Some None | KPanic _ => None end.

Lemma tie_ledger_tokens_from_shares sh S T r :
  res_opt (TokensFromShares sh S T) = Some r -> Ledger.Ledger.tokens_from_shares sh S T = r.
Proof.
  unfold TokensFromShares, Ledger.Ledger.tokens_from_shares.
  destruct (sh >? S); [simpl; congruence|].
  destruct (S =? 0); [destruct (T =? 0); simpl; congruence|].
  cbv zeta.
  destruct (negb (dec_ok (dec_mul_int sh T))); [simpl; congruence|].
  destruct (negb (dec_ok (dec_quo (dec_mul_int sh T) S))); [simpl; congruence|].
  destruct (negb (int_ok (dec_trunc_int (dec_quo (dec_mul_int sh T) S)))); simpl; congruence.
Qed.

Lemma tie_ledger_shares_from_tokens S x T r :
  res_opt (SharesFromTokens S x T) = Some r -> Ledger.Ledger.shares_from_tokens S x T = r.
Proof.
  unfold SharesFromTokens, Ledger.Ledger.shares_from_tokens.
  destruct (T =? 0); [destruct (S =? 0); simpl; congruence|].
  cbv zeta.
  destruct (negb (dec_ok (dec_mul_int S x))); simpl; congruence.
Qed.

Definition outcome_of {A} (o : option A) : C05.Model.outcome A :=
  match o with Some a => C05.Model.Ok a | None => C05.Model.Err end.

Lemma tie_c05_tokens_from_shares sh S T r :
  res_opt (TokensFromShares sh S T) = Some r -> C05.Model.tokens_from_shares sh S T = outcome_of r.
Proof.
  unfold TokensFromShares, C05.Model.tokens_from_shares.
  destruct (sh >? S); [simpl; intros H; injection H as <-; reflexivity|].
  destruct (S =? 0); [destruct (T =? 0); simpl; intros H; injection H as <-; reflexivity|].
  cbv zeta.
  destruct (negb (dec_ok (dec_mul_int sh T))); [simpl; congruence|].
  destruct (negb (dec_ok (dec_quo (dec_mul_int sh T) S))); [simpl; congruence|].
  destruct (negb (int_ok (dec_trunc_int (dec_quo (dec_mul_int sh T) S)))); simpl; [congruence|].
  intros H; injection H as <-; reflexivity.
Qed.
