(* Gen/TieEpochs.v — C15/Model.v `tick` (hand-written) against the GENERATED decision part of the closure of
   x/epochs BeginBlocker (Gen/Kernels.v epoch_tick_decision): for ALL inputs the new epoch info is the generated one
   (written iff the generated `saved` marker is set) and the hook notifications are the fan-out of the generated
   AfterEpochEnd / BeforeEpochStart markers (the fan-out over the subscribers stays hand-written). *)
From Coq Require Import List String Bool ZArith Lia.
From Exo Require Import Base.IntDec Base.IntDec2 Gen.Kernels.
From Exo Require C15.Model.
Import ListNotations.
Local Open Scope Z_scope.

Definition decision_of (h t : Z) (e : C15.Model.epoch_info) :=
  epoch_tick_decision h t (C15.Model.validate e) (C15.Model.ei_start e) (C15.Model.ei_dur e) (C15.Model.ei_cur e)
    (C15.Model.ei_cur_start e) (C15.Model.ei_started e) (C15.Model.ei_cur_height e).

Definition apply_decision (nsubs : nat) (e : C15.Model.epoch_info)
  (d : bool * Z * bool * Z * Z * option Z * option Z * bool) : C15.Model.epoch_info * list C15.Model.event :=
  let '(_, height, started, cur, cur_start, after_end, before_start, saved) := d in
  (if saved then C15.Model.mkEI (C15.Model.ei_id e) (C15.Model.ei_start e) (C15.Model.ei_dur e) cur cur_start started height
   else e,
   (match after_end with Some n => C15.Model.fanout nsubs C15.Model.EvEnd (C15.Model.ei_id e) n | None => [] end) ++
   (match before_start with Some n => C15.Model.fanout nsubs C15.Model.EvStart (C15.Model.ei_id e) n | None => [] end)).

Theorem tie_c15_tick nsubs h t e : C15.Model.tick nsubs h t e = apply_decision nsubs e (decision_of h t e).
Proof.
  unfold C15.Model.tick, decision_of, epoch_tick_decision, apply_decision.
  destruct (C15.Model.validate e); simpl negb; cbv iota; [|reflexivity].
  destruct (t <? C15.Model.ei_start e); [reflexivity|].
  cbv zeta. rewrite Z.gtb_ltb.
  destruct (C15.Model.ei_started e); simpl negb.
  - rewrite orb_false_r.
    destruct (C15.Model.ei_cur_start e + C15.Model.ei_dur e <? t); simpl; reflexivity.
  - rewrite orb_true_r. simpl. reflexivity.
Qed.

(* the closure never asks the iteration to stop *)
Lemma tie_c15_never_stops h t e : fst (fst (fst (fst (fst (fst (fst (decision_of h t e))))))) = false.
Proof.
  unfold decision_of, epoch_tick_decision.
  repeat match goal with |- context [if ?c then _ else _] => destruct c end; reflexivity.
Qed.
