(* Gen/TieOracle.v — ExceedsThreshold: Oracle/Model.v (C12, C13) and C14/Model.v against the GENERATED kernel. *)
From Coq Require Import ZArith Bool String Lia.
From Exo Require Import Base.IntDec Base.IntDec2 Gen.Kernels.
From Exo Require C14.Model Oracle.Model.
Local Open Scope Z_scope.

Lemma tie_c14_exceeds power total :
  ExceedsThreshold C14.Model.thr_a C14.Model.thr_b power total = C14.Model.exceeds power total.
Proof. unfold ExceedsThreshold, C14.Model.exceeds. rewrite zcmp_gt. apply Z.gtb_ltb. Qed.

Lemma tie_oracle_exceeds p power total :
  ExceedsThreshold (Oracle.Model.p_thr_a p) (Oracle.Model.p_thr_b p) power total = Oracle.Model.exceeds p power total.
Proof. unfold ExceedsThreshold, Oracle.Model.exceeds. rewrite zcmp_gt. apply Z.gtb_ltb. Qed.
