(* Gen/TieUsd.v — C04/Model.v and C05/Model.v: hand-written CalculateUSDValue, slash amount and SlashFromUndelegation
   against the GENERATED kernels (Gen/Kernels.v). *)
From Coq Require Import List ZArith Bool String Lia.
From Exo Require Import Base.IntDec Base.IntDec2 Gen.Kernels.
From Exo Require C04.Model C05.Model.
Import ListNotations.
Local Open Scope Z_scope.

(* whenever the Go function returns (no overflow / negative-exponent panic), it returns the hand-written value *)
Lemma tie_c04_usd a p d pd v : CalculateUSDValue a p d pd = KOk v -> v = C04.Model.usd a p d pd.
Proof.
  unfold CalculateUSDValue, C04.Model.usd, int_with_decimal. cbv zeta.
  destruct (negb (int_ok (a * p))); [discriminate|].
  destruct (d + pd <? 0); [discriminate|].
  destruct (negb (int_ok (1 * 10 ^ (d + pd)))); [discriminate|].
  destruct (1 * 10 ^ (d + pd) =? 0); [discriminate|].
  intros H. injection H as <-. f_equal. destruct (10 ^ (d + pd)); reflexivity.
Qed.

Lemma tie_c05_usd a p d pd v : CalculateUSDValue a p d pd = KOk v -> v = C05.Model.usd a p d pd.
Proof. intros H. apply tie_c04_usd in H. exact H. Qed.

(* and inside the guards it does return *)
Lemma tie_usd_total a p d pd : 0 <= d + pd -> int_ok (a * p) = true -> int_ok (10 ^ (d + pd)) = true ->
  CalculateUSDValue a p d pd = KOk (C04.Model.usd a p d pd).
Proof.
  intros Hd H1 H2. unfold CalculateUSDValue, C04.Model.usd, int_with_decimal. cbv zeta.
  rewrite !Z.mul_1_l, H1, H2.
  destruct (d + pd <? 0) eqn:E; [apply Z.ltb_lt in E; lia|].
  destruct (10 ^ (d + pd) =? 0) eqn:E0; [|reflexivity].
  apply Z.eqb_eq in E0. assert (0 < 10 ^ (d + pd)) by (apply Z.pow_pos_nonneg; lia). lia.
Qed.

(* SlashFromUndelegation on the record fields = C04's slash_from_undel on the record *)
Lemma tie_c04_slash_from_undel p (r : C04.Model.urec) res act' :
  SlashFromUndelegation (C04.Model.u_amount r) (C04.Model.u_actual r) p = KOk (res, act') ->
  C04.Model.slash_from_undel p r =
    (C04.Model.set_actual r act',
     match res with None => [] | Some amt => [(C04.Model.u_staker r, C04.Model.u_asset r, amt)] end).
Proof.
  destruct r as [id op h stk ass amount actual fp].
  unfold SlashFromUndelegation, C04.Model.slash_from_undel, C04.Model.slash_amt, C04.Model.set_actual. simpl.
  destruct (actual =? 0) eqn:E0.
  - intros H. injection H as <- <-. reflexivity.
  - cbv zeta.
    destruct (negb (dec_ok (dec_mul_int p amount))); [discriminate|].
    destruct (negb (int_ok (dec_trunc_int (dec_mul_int p amount)))); [discriminate|].
    destruct (dec_trunc_int (dec_mul_int p amount) >=? actual).
    + intros H. injection H as <- <-. reflexivity.
    + destruct (negb (int_ok (actual - dec_trunc_int (dec_mul_int p amount)))); [discriminate|].
      intros H. injection H as <- <-. reflexivity.
Qed.
