(* Gen/TieSlash.v — C04/Model.v `proportion` (hand-written) against the GENERATED value slice of newSlashProportion in
   SlashAssets (Gen/Kernels.v slash_proportion: NewDec(Power).Mul(SlashProportion).Quo(value), MinDec with 1). *)
From Coq Require Import ZArith Bool String Lia.
From Exo Require Import Base.IntDec Base.IntDec2 Gen.Kernels.
From Exo Require C04.Model.
Local Open Scope Z_scope.

Lemma chop_round_exact k : chop_round (k * P) = k.
Proof.
  pose proof P_pos as HP. unfold chop_round. destruct (k * P <? 0) eqn:E.
  - apply Z.ltb_lt in E. assert (k < 0) by nia.
    replace (- (k * P)) with ((- k) * P) by ring. rewrite chop_round_nn_exact by lia. lia.
  - apply Z.ltb_ge in E. apply chop_round_nn_exact. nia.
Qed.

Lemma dec_mul_of_int n f : dec_mul (dec_of_int n) f = n * f.
Proof.
  unfold dec_mul, dec_of_int. replace (n * P * f) with (n * f * P) by ring. apply chop_round_exact.
Qed.

Lemma dec_of_int_1 : dec_of_int 1 = P.
Proof. unfold dec_of_int. lia. Qed.

(* whenever the Go computation returns (non-zero value, no 315-bit overflow) it returns the hand-written proportion *)
Theorem tie_c04_proportion power f value v :
  slash_proportion power f value = KOk v -> v = C04.Model.proportion power f value.
Proof.
  unfold slash_proportion, C04.Model.proportion. cbv zeta. rewrite dec_mul_of_int, dec_of_int_1.
  destruct (negb (dec_ok (power * f))); [discriminate|].
  destruct (value =? 0); [discriminate|].
  destruct (negb (dec_ok (dec_quo (power * f) value))); [discriminate|].
  intros H. injection H as <-. reflexivity.
Qed.

Theorem tie_c04_proportion_total power f value :
  value <> 0 -> dec_ok (power * f) = true -> dec_ok (dec_quo (power * f) value) = true ->
  slash_proportion power f value = KOk (C04.Model.proportion power f value).
Proof.
  intros Hv H1 H2. unfold slash_proportion, C04.Model.proportion. cbv zeta. rewrite dec_mul_of_int, dec_of_int_1, H1.
  destruct (value =? 0) eqn:E; [apply Z.eqb_eq in E; contradiction|].
  simpl negb. cbv iota. rewrite H2. reflexivity.
Qed.
