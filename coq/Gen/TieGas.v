(* Gen/TieGas.v — C19/Model.v gas_to_refund against the GENERATED GasToRefund (Gen/Kernels.v). *)
From Coq Require Import ZArith Bool String Lia.
From Exo Require Import Base.IntDec Base.IntDec2 Gen.Kernels.
From Exo Require C19.Model.
Local Open Scope Z_scope.

Lemma tie_c19_gas_to_refund a c q : q <> 0 -> GasToRefund a c q = KOk (C19.Model.gas_to_refund a c q).
Proof.
  intros Hq. unfold GasToRefund, C19.Model.gas_to_refund.
  destruct (q =? 0) eqn:E; [apply Z.eqb_eq in E; contradiction|].
  cbv zeta. destruct (c / q >? a); reflexivity.
Qed.

Lemma tie_c19_gas_to_refund_panics a c : exists why, GasToRefund a c 0 = KPanic why.
Proof. eexists. reflexivity. Qed.

