#!/usr/bin/env python3
"""check_entry_points.py [inventory.txt]

Checks coq/C10/entry_points.txt against
  (a) the constructors of `Inductive entry_point` in coq/C10/Model.v, and
  (b) optionally the P_/M_ lines of an inventory.txt written by `build/exoharness c10inv -out DIR`
      (the Go scanner in harness/s_c10_inv.go: stdlib go/parser over precompiles/*/abi.json, IsTransaction,
      RegisterMsgServer call sites and _Msg_serviceDesc of every module wired into app/app.go).
Exit 1 and a diff on any difference ("correspondence C10/inventory no longer checks").
The same comparison is done inside Coq on every run (Model.check_inv, suite `inventory`); this script is the
human-readable form of it.
"""
import os, re, sys
root = os.path.dirname(os.path.dirname(os.path.dirname(os.path.abspath(__file__))))
txt = [l.strip() for l in open(os.path.join(root, "coq/C10/entry_points.txt")) if l.strip() and not l.startswith("#")]
model = open(os.path.join(root, "coq/C10/Model.v")).read()
m = re.search(r"Inductive entry_point :=(.*?)\.\n", model, re.S)
ctors = re.findall(r"\|\s*([PM]_\w+)", m.group(1))
bad = 0
def diff(a, an, b, bn):
    global bad
    for x in sorted(set(a) - set(b)):
        print("only in %s: %s" % (an, x)); bad = 1
    for x in sorted(set(b) - set(a)):
        print("only in %s: %s" % (bn, x)); bad = 1
diff(txt, "entry_points.txt", ctors, "Model.v")
if len(sys.argv) > 1:
    inv = [l.strip() for l in open(sys.argv[1]) if l.startswith(("P_", "M_"))]
    diff(txt, "entry_points.txt", inv, "repository scan")
print("C10 inventory: %d entry points, %s" % (len(txt), "DIFFERENT" if bad else "consistent"))
sys.exit(bad)
