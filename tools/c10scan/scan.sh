#!/bin/bash
# Lists the privileged entry points of $VERIF_REPO (default /repo) and checks them against the C10 model.
set -euo pipefail
V="$(cd "$(dirname "$0")/../.." && pwd)"
OUT="$(mktemp -d)"
"$V/build/exoharness" c10inv -out "$OUT" >/dev/null
cat "$OUT/inventory.txt"
python3 "$V/tools/c10scan/check_entry_points.py" "$OUT/inventory.txt"
