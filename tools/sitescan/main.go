// sitescan: static inventory of the places where Go can inject a schedule (or another source of
// non-determinism) into consensus code of the exocore tree, compared with coq/C08/sites.txt.
//
// It type-checks the consensus packages with go/packages (export data from the build cache, so it is
// cheap once the harness has been built) and lists, per enclosing top-level function:
//
//	maprange   every `range` statement whose operand has a map type (types.Map after Underlying)
//	timenow    calls of time.Now / time.Since / time.Until
//	rand       any use of math/rand, math/rand/v2 or crypto/rand
//	go         `go` statements
//	select     `select` statements
//	float      arithmetic / comparison / conversion on float32|float64 operands
//	mapordered call of a function of the scanned packages that RETURNS a slice filled inside a map range and not
//	           sorted (a "map-ordered slice producer": SealRound, GetValidators, …): the caller inherits the schedule
//
// Site id  = <kind> <file>:<function>:<operand>[#k]:<fingerprint>   (fingerprint = stmt.function.callees)
// fingerprint = sha1(shape of the statement's syntax tree)[:8] "." sha1(shape of the whole enclosing
// function's syntax tree)[:8]; "shape" = node kinds + identifiers + literals + operators, no positions, comments
// or layout, so pure formatting changes do not move it — the second half matters because whether a map-range is harmless usually depends
// on what the function does AFTER the loop (the sort that follows, the use of the collected slice).
//
// Third fingerprint component (wave 5): sha1 over the shapes of the CALLEES the schedule reaches — the functions of
// the scanned packages that are called (transitively, depth <= 3) from the body of a map range, from the body of a
// `for … range <slice that came from a map-ordered producer>` loop, or that receive the producer's result as an
// argument.  A lemma about such a loop rests on a property of those callees (e.g. "removing feeder f from a nonce
// list commutes"), so a change of their bodies must un-cover the site.  Calls through keeper interfaces are resolved
// by method name to every concrete method of that name in the scanned packages.  "0" = no such callee.
//
// usage: sitescan -repo DIR -sites coq/C08/sites.txt [-props coq/C08/Props.v] [-json] [-emit]
package main

import (
	"bufio"
	"bytes"
	"crypto/sha1"
	"encoding/hex"
	"encoding/json"
	"flag"
	"fmt"
	"go/ast"
	"go/printer"
	"go/token"
	"go/types"
	"os"
	"path/filepath"
	"regexp"
	"sort"
	"strings"

	"golang.org/x/tools/go/packages"
)

type Site struct {
	Kind        string `json:"kind"`
	File        string `json:"file"`
	Func        string `json:"func"`
	Operand     string `json:"operand"`
	FP          string `json:"fp"`
	Line        int    `json:"line"`
	ID          string `json:"id"`     // kind file:func:operand:fp
	Key         string `json:"key"`    // kind file:func:operand (without fingerprint)
	Status      string `json:"status"` // ok | new | changed | stale | bad-lemma
	Covered     bool   `json:"covered"`
	Disposition string `json:"disposition"`
}

// funcDecls: full name -> shape of the declaration, and callees (full names / bare method names for interface calls)
type declInfo struct {
	shape   string
	callees []string
}

var (
	funcDecls     = map[string]*declInfo{}
	methodsByName = map[string][]string{} // bare method name -> full names of concrete methods
)

func calleesOf(info *types.Info, n ast.Node) []string {
	var out []string
	ast.Inspect(n, func(x ast.Node) bool {
		c, ok := x.(*ast.CallExpr)
		if !ok {
			return true
		}
		var fn *types.Func
		switch fx := c.Fun.(type) {
		case *ast.Ident:
			fn, _ = info.Uses[fx].(*types.Func)
		case *ast.SelectorExpr:
			fn, _ = info.Uses[fx.Sel].(*types.Func)
		}
		if fn == nil {
			return true
		}
		if sig, ok := fn.Type().(*types.Signature); ok && sig.Recv() != nil {
			if _, isIface := sig.Recv().Type().Underlying().(*types.Interface); isIface {
				out = append(out, "iface:"+fn.Name())
				return true
			}
		}
		out = append(out, fn.FullName())
		return true
	})
	return out
}

func indexDecls(p *packages.Package, f *ast.File) {
	for _, d := range f.Decls {
		fd, ok := d.(*ast.FuncDecl)
		if !ok || fd.Body == nil {
			continue
		}
		obj, ok := p.TypesInfo.Defs[fd.Name].(*types.Func)
		if !ok {
			continue
		}
		funcDecls[obj.FullName()] = &declInfo{shape: shape(fd), callees: calleesOf(p.TypesInfo, fd.Body)}
		if fd.Recv != nil {
			methodsByName[fd.Name.Name] = append(methodsByName[fd.Name.Name], obj.FullName())
		}
	}
}

// closureFP hashes the shapes of everything reachable from the seed callees within depth 3.
func closureFP(seeds []string) string {
	seen := map[string]bool{}
	var visit func(name string, depth int)
	visit = func(name string, depth int) {
		if strings.HasPrefix(name, "iface:") {
			for _, full := range methodsByName[strings.TrimPrefix(name, "iface:")] {
				visit(full, depth)
			}
			return
		}
		d, ok := funcDecls[name]
		if !ok || seen[name] {
			return
		}
		seen[name] = true
		if depth >= 3 {
			return
		}
		for _, c := range d.callees {
			visit(c, depth+1)
		}
	}
	for _, sd := range seeds {
		visit(sd, 1)
	}
	if len(seen) == 0 {
		return "0"
	}
	names := make([]string, 0, len(seen))
	for n := range seen {
		names = append(names, n)
	}
	sort.Strings(names)
	var sb strings.Builder
	for _, n := range names {
		sb.WriteString(n)
		sb.WriteByte('=')
		sb.WriteString(funcDecls[n].shape)
		sb.WriteByte(';')
	}
	return h8(sb.String())
}

var patterns = []string{"./x/...", "./app", "./app/ante/...", "./precompiles/...", "./utils/...", "./types/..."}

func excluded(pkgPath string) bool {
	for _, s := range []string{"/client", "/testutil", "/simulation", "/mocks", "/mock"} {
		if strings.Contains(pkgPath, s+"/") || strings.HasSuffix(pkgPath, s) {
			return true
		}
	}
	return false
}

func norm(fset *token.FileSet, n ast.Node) string {
	var buf bytes.Buffer
	cfg := printer.Config{Mode: printer.RawFormat}
	_ = cfg.Fprint(&buf, fset, n)
	return strings.Join(strings.Fields(buf.String()), " ")
}

// shape renders the STRUCTURE of a syntax tree: node kinds, identifiers, literal values, operators — no
// positions, no comments, no layout.  gofmt-level changes (line breaks, trailing commas, parentheses-free
// re-wrapping, comment edits) leave it unchanged; any change of the tree does not.
func shape(n ast.Node) string {
	var sb strings.Builder
	ast.Inspect(n, func(x ast.Node) bool {
		if x == nil {
			sb.WriteByte(')')
			return false
		}
		if _, ok := x.(*ast.CommentGroup); ok {
			return false
		}
		if _, ok := x.(*ast.Comment); ok {
			return false
		}
		if p, ok := x.(*ast.ParenExpr); ok && p != n {
			// keep parentheses: they can change evaluation order only together with a tree change, but dropping
			// them here would need a precedence-aware comparison; they are rare enough to keep
			_ = p
		}
		sb.WriteByte('(')
		sb.WriteString(strings.TrimPrefix(fmt.Sprintf("%T", x), "*ast."))
		switch v := x.(type) {
		case *ast.Ident:
			sb.WriteByte(' ')
			sb.WriteString(v.Name)
		case *ast.BasicLit:
			sb.WriteByte(' ')
			sb.WriteString(v.Kind.String())
			sb.WriteByte(' ')
			sb.WriteString(v.Value)
		case *ast.BinaryExpr:
			sb.WriteString(" " + v.Op.String())
		case *ast.UnaryExpr:
			sb.WriteString(" " + v.Op.String())
		case *ast.AssignStmt:
			sb.WriteString(" " + v.Tok.String())
		case *ast.IncDecStmt:
			sb.WriteString(" " + v.Tok.String())
		case *ast.BranchStmt:
			sb.WriteString(" " + v.Tok.String())
		case *ast.RangeStmt:
			sb.WriteString(" " + v.Tok.String())
		case *ast.GenDecl:
			sb.WriteString(" " + v.Tok.String())
		case *ast.ChanType:
			sb.WriteString(fmt.Sprintf(" %d", v.Dir))
		case *ast.Ellipsis, *ast.StarExpr:
		case *ast.CallExpr:
			if v.Ellipsis.IsValid() {
				sb.WriteString(" ...")
			}
		case *ast.CompositeLit:
			if v.Incomplete {
				sb.WriteString(" incomplete")
			}
		case *ast.Field:
			if v.Tag != nil {
				sb.WriteString(" tag")
			}
		case *ast.SliceExpr:
			if v.Slice3 {
				sb.WriteString(" 3")
			}
		}
		return true
	})
	return sb.String()
}

func h8(s string) string {
	h := sha1.Sum([]byte(s))
	return hex.EncodeToString(h[:])[:8]
}

func funcName(fd *ast.FuncDecl) string {
	if fd.Recv == nil || len(fd.Recv.List) == 0 {
		return fd.Name.Name
	}
	t := fd.Recv.List[0].Type
	star := ""
	if s, ok := t.(*ast.StarExpr); ok {
		star = "*"
		t = s.X
	}
	name := "?"
	switch x := t.(type) {
	case *ast.Ident:
		name = x.Name
	case *ast.IndexExpr:
		if id, ok := x.X.(*ast.Ident); ok {
			name = id.Name
		}
	}
	return "(" + star + name + ")." + fd.Name.Name
}

func isFloat(t types.Type) bool {
	if t == nil {
		return false
	}
	b, ok := t.Underlying().(*types.Basic)
	return ok && b.Info()&types.IsFloat != 0
}

func main() {
	repo := flag.String("repo", "/repo", "exocore source tree")
	sitesFile := flag.String("sites", "", "coq/C08/sites.txt")
	propsFile := flag.String("props", "", "coq/C08/Props.v (lemma names are checked against it)")
	asJSON := flag.Bool("json", false, "print JSON")
	emit := flag.Bool("emit", false, "print a sites.txt skeleton of the current tree")
	update := flag.Bool("update", false, "rewrite the sites file: refresh the fingerprints of the sites it already lists (dispositions kept, to be re-reviewed), add new sites as `=> TODO`, drop entries whose site is gone")
	flag.Parse()

	cfg := &packages.Config{
		Mode:       packages.NeedName | packages.NeedFiles | packages.NeedCompiledGoFiles | packages.NeedSyntax | packages.NeedTypes | packages.NeedTypesInfo | packages.NeedImports,
		Dir:        *repo,
		Tests:      false,
		BuildFlags: []string{"-mod=mod"},
		Env:        append(os.Environ(), "GOFLAGS=-mod=mod", "GOPROXY=off", "GOSUMDB=off", "GOTOOLCHAIN=local"),
	}
	pkgs, err := packages.Load(cfg, patterns...)
	if err != nil {
		fmt.Fprintln(os.Stderr, "sitescan: load:", err)
		os.Exit(3)
	}
	var sites []*Site
	nerr := 0
	producers := map[string]bool{}
	for _, p := range pkgs {
		if excluded(p.PkgPath) {
			continue
		}
		for i, f := range p.Syntax {
			if fn := p.CompiledGoFiles[i]; strings.HasSuffix(fn, "_test.go") || strings.HasSuffix(fn, ".pb.go") {
				continue
			}
			findProducers(p, f, producers)
			indexDecls(p, f)
		}
	}
	for _, p := range pkgs {
		if excluded(p.PkgPath) {
			continue
		}
		for _, e := range p.Errors {
			nerr++
			fmt.Fprintln(os.Stderr, "sitescan: type error:", e)
		}
		for i, f := range p.Syntax {
			fn := p.CompiledGoFiles[i]
			rel, _ := filepath.Rel(*repo, fn)
			if strings.HasSuffix(rel, "_test.go") || strings.HasSuffix(rel, ".pb.go") || strings.HasSuffix(rel, ".pb.gw.go") {
				continue
			}
			scanFile(p, f, rel, &sites, producers)
		}
	}
	if nerr > 0 {
		fmt.Fprintln(os.Stderr, "sitescan: the consensus packages do not type-check; inventory unreliable")
		os.Exit(3)
	}
	// ordinal suffix for identical keys inside one function
	seen := map[string]int{}
	sort.SliceStable(sites, func(i, j int) bool {
		if sites[i].File != sites[j].File {
			return sites[i].File < sites[j].File
		}
		return sites[i].Line < sites[j].Line
	})
	for _, s := range sites {
		k := s.Kind + " " + s.File + ":" + s.Func + ":" + s.Operand
		seen[k]++
		if seen[k] > 1 {
			s.Operand = fmt.Sprintf("%s#%d", s.Operand, seen[k])
			k = s.Kind + " " + s.File + ":" + s.Func + ":" + s.Operand
		}
		s.Key = k
		s.ID = k + ":" + s.FP
	}
	if *emit {
		for _, s := range sites {
			fmt.Printf("%s => TODO\n", s.ID)
		}
		return
	}

	// compare with sites.txt
	type entry struct{ fp, disp string }
	entries := map[string]entry{}
	var order []string
	if *sitesFile != "" {
		fh, err := os.Open(*sitesFile)
		if err != nil {
			fmt.Fprintln(os.Stderr, "sitescan:", err)
			os.Exit(3)
		}
		sc := bufio.NewScanner(fh)
		sc.Buffer(make([]byte, 1<<20), 1<<20)
		for sc.Scan() {
			line := strings.TrimSpace(sc.Text())
			if line == "" || strings.HasPrefix(line, "#") {
				continue
			}
			parts := strings.SplitN(line, " => ", 2)
			if len(parts) != 2 {
				fmt.Fprintln(os.Stderr, "sitescan: malformed line in sites file:", line)
				os.Exit(3)
			}
			id := strings.TrimSpace(parts[0])
			ix := strings.LastIndex(id, ":")
			entries[id[:ix]] = entry{id[ix+1:], strings.TrimSpace(parts[1])}
			order = append(order, id[:ix])
		}
		fh.Close()
	}
	lemmas := map[string]bool{}
	if *propsFile != "" {
		b, err := os.ReadFile(*propsFile)
		if err != nil {
			fmt.Fprintln(os.Stderr, "sitescan:", err)
			os.Exit(3)
		}
		re := regexp.MustCompile(`(?m)^\s*Theorem\s+([A-Za-z0-9_']+)`)
		for _, m := range re.FindAllStringSubmatch(string(b), -1) {
			lemmas[m[1]] = true
		}
	}
	present := map[string]bool{}
	for _, s := range sites {
		present[s.Key] = true
		e, ok := entries[s.Key]
		switch {
		case !ok:
			s.Status = "new"
		case e.fp != s.FP:
			s.Status = "changed"
			s.Disposition = e.disp
		default:
			s.Disposition = e.disp
			s.Status = "ok"
			s.Covered = true
			if !strings.HasPrefix(e.disp, "benign:") {
				for _, l := range strings.Split(e.disp, ",") {
					l = strings.TrimSpace(l)
					if *propsFile != "" && !lemmas[l] {
						s.Status = "bad-lemma"
						s.Covered = false
					}
				}
			} else if len(strings.TrimSpace(strings.TrimPrefix(e.disp, "benign:"))) < 8 {
				s.Status = "bad-lemma"
				s.Covered = false
			}
		}
	}
	if *update {
		if *sitesFile == "" {
			fmt.Fprintln(os.Stderr, "sitescan: -update needs -sites")
			os.Exit(3)
		}
		old, _ := os.ReadFile(*sitesFile)
		var out bytes.Buffer
		for _, line := range strings.Split(string(old), "\n") {
			t := strings.TrimSpace(line)
			if t == "" || strings.HasPrefix(t, "#") {
				if t != "" {
					out.WriteString(line + "\n")
				}
				continue
			}
			break
		}
		for _, s := range sites {
			d := "TODO"
			if e, ok := entries[s.Key]; ok {
				d = e.disp
			}
			fmt.Fprintf(&out, "%s => %s\n", s.ID, d)
		}
		if err := os.WriteFile(*sitesFile, out.Bytes(), 0o644); err != nil {
			fmt.Fprintln(os.Stderr, "sitescan:", err)
			os.Exit(3)
		}
		fmt.Printf("sitescan: %s rewritten with %d sites\n", *sitesFile, len(sites))
		return
	}
	for _, k := range order {
		if !present[k] {
			sp := strings.SplitN(k, " ", 2)
			sites = append(sites, &Site{Kind: sp[0], Key: k, ID: k + ":" + entries[k].fp, FP: entries[k].fp, Status: "stale", Covered: true, Disposition: entries[k].disp})
		}
	}
	if *asJSON {
		b, _ := json.MarshalIndent(sites, "", " ")
		fmt.Println(string(b))
		return
	}
	bad := 0
	for _, s := range sites {
		if !s.Covered {
			bad++
			fmt.Printf("UNCOVERED %-9s %s (line %d)\n", s.Status, s.ID, s.Line)
		}
	}
	fmt.Printf("sitescan: %d sites, %d uncovered\n", len(sites), bad)
	if bad > 0 {
		os.Exit(1)
	}
}

// findProducers records (by full name) every function that has a slice-typed result, ranges over a map, appends
// inside that loop and never calls package sort / slices.
func findProducers(p *packages.Package, f *ast.File, producers map[string]bool) {
	info := p.TypesInfo
	for _, d := range f.Decls {
		fd, ok := d.(*ast.FuncDecl)
		if !ok || fd.Body == nil {
			continue
		}
		obj, ok := info.Defs[fd.Name].(*types.Func)
		if !ok {
			continue
		}
		sig := obj.Type().(*types.Signature)
		hasSlice := false
		for i := 0; i < sig.Results().Len(); i++ {
			if _, ok := sig.Results().At(i).Type().Underlying().(*types.Slice); ok {
				hasSlice = true
			}
		}
		if !hasSlice {
			continue
		}
		appendsInMapRange, sorts := false, false
		ast.Inspect(fd.Body, func(n ast.Node) bool {
			switch x := n.(type) {
			case *ast.RangeStmt:
				if tv, ok := info.Types[x.X]; ok && tv.Type != nil {
					if _, isMap := tv.Type.Underlying().(*types.Map); isMap {
						ast.Inspect(x.Body, func(m ast.Node) bool {
							if c, ok := m.(*ast.CallExpr); ok {
								if id, ok := c.Fun.(*ast.Ident); ok && id.Name == "append" {
									appendsInMapRange = true
								}
							}
							return true
						})
					}
				}
			case *ast.SelectorExpr:
				if id, ok := x.X.(*ast.Ident); ok {
					if pn, ok := info.Uses[id].(*types.PkgName); ok && (pn.Imported().Path() == "sort" || pn.Imported().Path() == "slices") {
						sorts = true
					}
				}
			}
			return true
		})
		if appendsInMapRange && !sorts {
			producers[obj.FullName()] = true
		}
	}
}

func scanFile(p *packages.Package, f *ast.File, rel string, out *[]*Site, producers map[string]bool) {
	fset := p.Fset
	info := p.TypesInfo
	for _, d := range f.Decls {
		fd, ok := d.(*ast.FuncDecl)
		if !ok || fd.Body == nil {
			continue
		}
		fname := funcName(fd)
		ffp := h8(shape(fd))
		addC := func(kind string, n ast.Node, operand string, fpnode ast.Node, seeds []string) {
			*out = append(*out, &Site{Kind: kind, File: rel, Func: fname, Operand: strings.Join(strings.Fields(operand), ""),
				FP: h8(shape(fpnode)) + "." + ffp + "." + closureFP(seeds), Line: fset.Position(n.Pos()).Line})
		}
		add := func(kind string, n ast.Node, operand string, fpnode ast.Node) { addC(kind, n, operand, fpnode, nil) }
		// schedule-carrying loops of this function: which identifiers hold a producer's result, which calls take it
		// as an argument
		consumerSeeds := func(call *ast.CallExpr) []string {
			var seeds []string
			carriers := map[types.Object]bool{}
			ast.Inspect(fd.Body, func(m ast.Node) bool {
				switch y := m.(type) {
				case *ast.AssignStmt:
					for _, r := range y.Rhs {
						if r == ast.Expr(call) {
							for _, l := range y.Lhs {
								if id, ok := l.(*ast.Ident); ok && id.Name != "_" {
									if o := info.ObjectOf(id); o != nil {
										if _, isSlice := o.Type().Underlying().(*types.Slice); isSlice {
											carriers[o] = true
										}
									}
								}
							}
						}
					}
				case *ast.CallExpr:
					for _, a := range y.Args {
						if a == ast.Expr(call) {
							seeds = append(seeds, calleesOf(info, &ast.ExprStmt{X: &ast.CallExpr{Fun: y.Fun}})...)
						}
					}
				}
				return true
			})
			ast.Inspect(fd.Body, func(m ast.Node) bool {
				if rs, ok := m.(*ast.RangeStmt); ok {
					if id, ok := rs.X.(*ast.Ident); ok && carriers[info.ObjectOf(id)] {
						seeds = append(seeds, calleesOf(info, rs.Body)...)
					}
				}
				return true
			})
			return seeds
		}
		ast.Inspect(fd.Body, func(n ast.Node) bool {
			switch x := n.(type) {
			case *ast.RangeStmt:
				if tv, ok := info.Types[x.X]; ok && tv.Type != nil {
					if _, isMap := tv.Type.Underlying().(*types.Map); isMap {
						addC("maprange", x, norm(fset, x.X), x, calleesOf(info, x.Body))
					}
				}
			case *ast.GoStmt:
				if _, lit := x.Call.Fun.(*ast.FuncLit); lit {
					add("go", x, "funclit", x)
				} else {
					add("go", x, norm(fset, x.Call.Fun), x)
				}
			case *ast.SelectStmt:
				add("select", x, "select", x)
			case *ast.SelectorExpr:
				if id, ok := x.X.(*ast.Ident); ok {
					if pn, ok := info.Uses[id].(*types.PkgName); ok {
						switch pn.Imported().Path() {
						case "time":
							if x.Sel.Name == "Now" || x.Sel.Name == "Since" || x.Sel.Name == "Until" {
								add("timenow", x, "time."+x.Sel.Name, x)
							}
						case "math/rand", "math/rand/v2", "crypto/rand":
							add("rand", x, pn.Imported().Path()+"."+x.Sel.Name, x)
						}
					}
				}
			case *ast.BinaryExpr:
				if tv, ok := info.Types[x.X]; ok && isFloat(tv.Type) {
					add("float", x, norm(fset, x), x)
					return false
				}
			case *ast.CallExpr:
				var callee *types.Func
				switch fx := x.Fun.(type) {
				case *ast.Ident:
					callee, _ = info.Uses[fx].(*types.Func)
				case *ast.SelectorExpr:
					callee, _ = info.Uses[fx.Sel].(*types.Func)
				}
				if callee != nil && producers[callee.FullName()] {
					addC("mapordered", x, callee.Name(), x, consumerSeeds(x))
				}
				// conversion to a float type
				if tv, ok := info.Types[x.Fun]; ok && tv.IsType() && isFloat(tv.Type) {
					add("float", x, norm(fset, x), x)
				}
			}
			return true
		})
	}
}
