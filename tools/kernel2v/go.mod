module kernel2v

go 1.21
