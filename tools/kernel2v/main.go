// kernel2v — Go-AST -> Gallina translator for the whitelisted PURE kernels of exocore.
//
// It parses the CURRENT source files under -repo with go/parser and prints coq/Gen/Kernels.v:
// one Gallina definition per whitelisted function. The accepted subset is straight-line code over
// sdkmath.Int / sdkmath.LegacyDec / *big.Int / machine integers / bool with `if`, `:=`, `=`, `return`;
// no loops, no store access, no closures. Method calls are mapped through the fixed tables below to
// Base/IntDec.v and Base/IntDec2.v. Go panics that the called library functions can raise (division by
// zero, the 256-bit Int guard, the 315-bit LegacyDec guard) are made explicit as `KPanic` outcomes, error
// returns as `KErr "<ErrName>"`. Every construct outside the subset aborts the translation with exit
// status 1 and a message naming the function and the construct: that is "correspondence broken".
//
// Standard library only (go/parser, go/ast, go/token).
package main

import (
	"flag"
	"fmt"
	"go/ast"
	"go/parser"
	"go/token"
	"os"
	"path/filepath"
	"sort"
	"strconv"
	"strings"
)

// ---- kinds -------------------------------------------------------------------------------------

type kind int

const (
	kInt     kind = iota // sdkmath.Int
	kDec                 // sdkmath.LegacyDec (Z scaled by 10^18)
	kBig                 // *big.Int
	kBigRecv             // new(big.Int): receiver placeholder of big.Int three-address methods
	kUint                // uintN
	kSInt                // int, intN (overflow of the machine type is not modelled; only + - and comparisons)
	kLit                 // untyped integer constant
	kBool
	kError
	kStruct // flattened pointer-to-struct parameter / pointer-to-struct result
	kTime   // time.Time as Z nanoseconds since the Unix epoch (no overflow modelled)
	kDur    // time.Duration as Z nanoseconds
	kBytes  // []byte / sdk.AccAddress compared bytewise (Gallina string)
)

type typ struct {
	k    kind
	bits int
}

func (t typ) String() string {
	switch t.k {
	case kInt:
		return "Int"
	case kDec:
		return "LegacyDec"
	case kBig:
		return "*big.Int"
	case kBigRecv:
		return "new(big.Int)"
	case kUint:
		return fmt.Sprintf("uint%d", t.bits)
	case kSInt:
		return "int"
	case kLit:
		return "untyped-int"
	case kBool:
		return "bool"
	case kError:
		return "error"
	case kTime:
		return "time.Time"
	case kDur:
		return "time.Duration"
	case kBytes:
		return "[]byte"
	}
	return "struct"
}

func (t typ) numeric() bool { return t.k != kBool && t.k != kError && t.k != kStruct && t.k != kBigRecv }

func coqType(t typ) string {
	if t.k == kBool {
		return "bool"
	}
	if t.k == kBytes {
		return "string"
	}
	return "Z"
}

// ---- whitelist ---------------------------------------------------------------------------------

type fieldSpec struct {
	Name string
	T    typ
}

type marker struct {
	Name string
	Args []int // indices of the numeric call arguments that are captured (none: a bool flag)
}

type spec struct {
	File      string
	Func      string // top-level function, or (with Closure / SliceOf) the function or method that contains the kernel
	Out       string // name of the Gallina definition (default Func)
	// Closure: the kernel is the function literal passed to the call <x>.<Closure>(...) inside Func
	Closure string
	// SliceOf: the kernel is the value slice of these local variables of Func: the top-level assignments they depend on
	SliceOf []string
	Inputs  []fieldSpec // (SliceOf) locals / parameters of Func that are inputs of the slice: their definitions are not followed
	Reads   map[string]fieldSpec // argument-less calls that read the environment, by path: "ctx.BlockTime" -> parameter
	ExtErr  map[string]string    // `if err := <path>(); err != nil`: outcome decided outside -> bool parameter (true = nil)
	Skip    []string             // effect statements outside the decision part (logging, events): call-path prefixes
	Markers map[string]marker    // effect statements whose execution (and numeric arguments) are part of the result
	Alias   map[string]fieldSpec // expressions standing for an abstract element, by source text -> parameter
	Flatten   map[string][]fieldSpec // pointer-to-struct parameters replaced by these numeric fields
	RetFields []string               // pointer-to-struct result: the numeric fields of the composite literal that are output
	Required  bool
}

var whitelist = []spec{
	{File: "x/delegation/keeper/share.go", Func: "TokensFromShares", Required: true},
	{File: "x/delegation/keeper/share.go", Func: "SharesFromTokens", Required: true},
	{File: "x/operator/keeper/common_func.go", Func: "CalculateUSDValue"},
	{File: "x/operator/keeper/slash.go", Func: "SlashFromUndelegation",
		Flatten: map[string][]fieldSpec{"undelegation": {
			{"Amount", typ{k: kInt}}, {"ActualCompletedAmount", typ{k: kInt}}}},
		RetFields: []string{"Amount"}},
	{File: "x/evm/keeper/gas.go", Func: "GasToRefund"},
	{File: "x/oracle/keeper/common/types.go", Func: "ExceedsThreshold"},
	// decision part of the closure of x/epochs BeginBlocker (hook fan-out, events and the store write stay outside)
	{File: "x/epochs/keeper/abci.go", Func: "BeginBlocker", Out: "epoch_tick_decision", Closure: "IterateEpochInfos",
		Flatten: map[string][]fieldSpec{"epochInfo": {
			{"StartTime", typ{k: kTime}}, {"Duration", typ{k: kDur}}, {"CurrentEpoch", typ{kSInt, 64}},
			{"CurrentEpochStartTime", typ{k: kTime}}, {"EpochCountingStarted", typ{k: kBool}},
			{"CurrentEpochStartHeight", typ{kSInt, 64}}}},
		Reads:  map[string]fieldSpec{"ctx.BlockTime": {"blockTime", typ{k: kTime}}, "ctx.BlockHeight": {"blockHeight", typ{kSInt, 64}}},
		ExtErr: map[string]string{"epochInfo.Validate": "epochInfo_valid"},
		Skip:   []string{"logger.", "ctx.EventManager()."},
		Markers: map[string]marker{"k.setEpochInfoUnchecked": {Name: "saved"},
			"k.Hooks().AfterEpochEnd": {Name: "after_epoch_end", Args: []int{2}}, "k.Hooks().BeforeEpochStart": {Name: "before_epoch_start", Args: []int{2}}}},
	// comparator of utils.SortByPower
	{File: "utils/utils.go", Func: "SortByPower", Out: "sort_by_power_less", Closure: "Slice",
		Alias: map[string]fieldSpec{"powers[indices[i]]": {"power_i", typ{kSInt, 64}}, "powers[indices[j]]": {"power_j", typ{kSInt, 64}},
			"operatorAddrs[indices[i]]": {"addr_i", typ{k: kBytes}}, "operatorAddrs[indices[j]]": {"addr_j", typ{k: kBytes}}}},
	// per-validator reward of x/feedistribution AllocateTokens; sdk.DecCoins is handled per denomination: the amount
	// of ONE coin is a LegacyDec and DecCoins.MulDecTruncate is LegacyDec.MulTruncate on it
	{File: "x/feedistribution/keeper/allocation.go", Func: "AllocateTokens", Out: "validator_reward", SliceOf: []string{"reward"},
		Inputs: []fieldSpec{{"feesCollected", typ{k: kDec}}, {"communityTax", typ{k: kDec}}, {"totalPreviousPower", typ{kSInt, 64}}},
		Flatten: map[string][]fieldSpec{"val": {{"Power", typ{kSInt, 64}}}}},
	// and per-staker reward of AllocateTokensToStakers
	{File: "x/feedistribution/keeper/allocation.go", Func: "AllocateTokensToStakers", Out: "staker_reward", SliceOf: []string{"rewardToSingleStaker"},
		Inputs: []fieldSpec{{"rewardToAllStakers", typ{k: kDec}}, {"stakerPower", typ{k: kDec}}, {"curTotalStakersPowers", typ{k: kDec}}}},
	// the proportion that SlashAssets applies
	{File: "x/operator/keeper/slash.go", Func: "SlashAssets", Out: "slash_proportion", SliceOf: []string{"newSlashProportion"},
		Flatten: map[string][]fieldSpec{"parameter": {{"Power", typ{kSInt, 64}}, {"SlashProportion", typ{k: kDec}}},
			"stakingInfo": {{"StakingAndWaitUnbonding", typ{k: kDec}}}}},
}

// ---- tables --------------------------------------------------------------------------------------

type guard struct {
	cond string // template over $r $1 $2 (pre) or $v (post); true = panic
	msg  string
}

type op struct {
	args []kind
	res  typ
	tmpl string
	pre  []guard
	post []guard
}

var intOK = []guard{{"negb (int_ok $v)", "Int overflow"}}
var decOK = []guard{{"negb (dec_ok $v)", "Dec overflow"}}
var div0 = func(a string) []guard { return []guard{{"(" + a + " =? 0)", "division by zero"}} }

var tInt, tDec, tBig, tBool, tSInt = typ{k: kInt}, typ{k: kDec}, typ{k: kBig}, typ{k: kBool}, typ{k: kSInt}

func cmpOps(prefix string, arg kind, m map[string]op) {
	for name, o := range map[string]string{"GT": ">?", "GTE": ">=?", "LT": "<?", "LTE": "<=?", "Equal": "=?"} {
		m[prefix+"."+name] = op{args: []kind{arg}, res: tBool, tmpl: "($r " + o + " $1)"}
	}
	m[prefix+".IsZero"] = op{res: tBool, tmpl: "($r =? 0)"}
	m[prefix+".IsPositive"] = op{res: tBool, tmpl: "($r >? 0)"}
	m[prefix+".IsNegative"] = op{res: tBool, tmpl: "($r <? 0)"}
	m[prefix+".Neg"] = op{res: typ{k: arg}, tmpl: "(- $r)"}
}

// methods: "<receiver kind>.<Method>"
var methods = func() map[string]op {
	m := map[string]op{
		"Int.Add":          {args: []kind{kInt}, res: tInt, tmpl: "($r + $1)", post: intOK},
		"Int.Sub":          {args: []kind{kInt}, res: tInt, tmpl: "($r - $1)", post: intOK},
		"Int.Mul":          {args: []kind{kInt}, res: tInt, tmpl: "($r * $1)", post: intOK},
		"Int.Quo":          {args: []kind{kInt}, res: tInt, tmpl: "(Z.quot $r $1)", pre: div0("$1")},
		"Int.BigInt":       {res: tBig, tmpl: "$r"},
		"Int.ToLegacyDec":  {res: tDec, tmpl: "(dec_of_int $r)"},
		"Dec.Add":          {args: []kind{kDec}, res: tDec, tmpl: "($r + $1)", post: decOK},
		"Dec.Sub":          {args: []kind{kDec}, res: tDec, tmpl: "($r - $1)", post: decOK},
		"Dec.Mul":          {args: []kind{kDec}, res: tDec, tmpl: "(dec_mul $r $1)", post: decOK},
		"Dec.MulTruncate":  {args: []kind{kDec}, res: tDec, tmpl: "(dec_mul_trunc $r $1)", post: decOK},
		"Dec.MulDecTruncate": {args: []kind{kDec}, res: tDec, tmpl: "(dec_mul_trunc $r $1)", post: decOK},
		"Dec.MulInt":       {args: []kind{kInt}, res: tDec, tmpl: "(dec_mul_int $r $1)", post: decOK},
		"Dec.MulInt64":     {args: []kind{kSInt}, res: tDec, tmpl: "(dec_mul_int $r $1)", post: decOK},
		"Dec.Quo":          {args: []kind{kDec}, res: tDec, tmpl: "(dec_quo $r $1)", pre: div0("$1"), post: decOK},
		"Dec.QuoTruncate":  {args: []kind{kDec}, res: tDec, tmpl: "(dec_quo_trunc $r $1)", pre: div0("$1"), post: decOK},
		"Dec.QuoRoundUp":   {args: []kind{kDec}, res: tDec, tmpl: "(dec_quo_roundup $r $1)", pre: div0("$1"), post: decOK},
		"Dec.QuoInt":       {args: []kind{kInt}, res: tDec, tmpl: "(dec_quo_int $r $1)", pre: div0("$1")},
		"Dec.QuoInt64":     {args: []kind{kSInt}, res: tDec, tmpl: "(dec_quo_int $r $1)", pre: div0("$1")},
		"Dec.TruncateInt":  {res: tInt, tmpl: "(dec_trunc_int $r)", post: intOK},
		"Dec.RoundInt":     {res: tInt, tmpl: "(dec_round_int $r)", post: intOK},
		"Dec.Ceil":         {res: tDec, tmpl: "(dec_ceil $r)"},
		"Time.Before":      {args: []kind{kTime}, res: tBool, tmpl: "($r <? $1)"},
		"Time.After":       {args: []kind{kTime}, res: tBool, tmpl: "($r >? $1)"},
		"Time.Equal":       {args: []kind{kTime}, res: tBool, tmpl: "($r =? $1)"},
		"Time.Add":         {args: []kind{kDur}, res: typ{k: kTime}, tmpl: "($r + $1)"},
		"Time.Sub":         {args: []kind{kTime}, res: typ{k: kDur}, tmpl: "($r - $1)"},
		"Big.Cmp":          {args: []kind{kBig}, res: tSInt, tmpl: "(zcmp $r $1)"},
		"Big.Sign":         {res: tSInt, tmpl: "(Z.sgn $r)"},
		"BigRecv.Mul":      {args: []kind{kBig, kBig}, res: tBig, tmpl: "($1 * $2)"},
		"BigRecv.Add":      {args: []kind{kBig, kBig}, res: tBig, tmpl: "($1 + $2)"},
		"BigRecv.Sub":      {args: []kind{kBig, kBig}, res: tBig, tmpl: "($1 - $2)"},
		"BigRecv.Quo":      {args: []kind{kBig, kBig}, res: tBig, tmpl: "(Z.quot $1 $2)", pre: div0("$2")},
		"BigRecv.Set":      {args: []kind{kBig}, res: tBig, tmpl: "$1"},
		"BigRecv.SetInt64": {args: []kind{kSInt}, res: tBig, tmpl: "$1"},
	}
	cmpOps("Int", kInt, m)
	cmpOps("Dec", kDec, m)
	return m
}()

// package functions: "<import path>.<Func>"
const pMath, pSdk, pBig, pErrors = "cosmossdk.io/math", "github.com/cosmos/cosmos-sdk/types", "math/big", "cosmossdk.io/errors"

var pkgFuncs = func() map[string]op {
	m := map[string]op{
		pMath + ".NewInt":            {args: []kind{kSInt}, res: tInt, tmpl: "$1"},
		pMath + ".NewIntFromUint64":  {args: []kind{kUint}, res: tInt, tmpl: "$1"},
		pMath + ".NewIntFromBigInt":  {args: []kind{kBig}, res: tInt, tmpl: "$1", post: intOK},
		pMath + ".ZeroInt":           {res: tInt, tmpl: "0"},
		pMath + ".OneInt":            {res: tInt, tmpl: "1"},
		pMath + ".NewIntWithDecimal": {args: []kind{kSInt, kSInt}, res: tInt, tmpl: "(int_with_decimal $1 $2)", pre: []guard{{"($2 <? 0)", "NewIntWithDecimal() decimal is negative"}}, post: intOK},
		pBig + ".NewInt":             {args: []kind{kSInt}, res: tBig, tmpl: "$1"},
		"bytes.Compare":              {args: []kind{kBytes, kBytes}, res: tSInt, tmpl: "(bytes_cmp $1 $2)"},
	}
	dec := map[string]op{
		"ZeroDec":          {res: tDec, tmpl: "0"},
		"OneDec":           {res: tDec, tmpl: "P"},
		"NewDec":           {args: []kind{kSInt}, res: tDec, tmpl: "(dec_of_int $1)"},
		"NewDecFromBigInt": {args: []kind{kBig}, res: tDec, tmpl: "(dec_of_int $1)"},
		"NewDecFromInt":    {args: []kind{kInt}, res: tDec, tmpl: "(dec_of_int $1)"},
		"MinDec":           {args: []kind{kDec, kDec}, res: tDec, tmpl: "(Z.min $1 $2)"},
		"MaxDec":           {args: []kind{kDec, kDec}, res: tDec, tmpl: "(Z.max $1 $2)"},
	}
	for n, o := range dec {
		m[pMath+".Legacy"+n] = o
		m[pSdk+"."+n] = o
	}
	for _, n := range []string{"NewInt", "ZeroInt", "OneInt", "NewIntFromBigInt", "NewIntWithDecimal", "NewIntFromUint64"} {
		m[pSdk+"."+n] = m[pMath+"."+n]
	}
	return m
}()

var typeNames = map[string]typ{
	pMath + ".Int": tInt, pMath + ".LegacyDec": tDec, pSdk + ".Int": tInt, pSdk + ".Dec": tDec,
}

var builtinTypes = map[string]typ{
	"uint64": {kUint, 64}, "uint32": {kUint, 32}, "uint16": {kUint, 16}, "uint8": {kUint, 8}, "uint": {kUint, 64},
	"int": {kSInt, 64}, "int64": {kSInt, 64}, "int32": {kSInt, 32}, "int16": {kSInt, 16}, "int8": {kSInt, 8},
	"bool": {k: kBool}, "error": {k: kError},
}

var reserved = func() map[string]bool {
	m := map[string]bool{}
	for _, w := range strings.Fields(`as at cofix else end exists exists2 fix for forall fun if IF in let match mod
		return Set Prop Type SProp then using where with by struct Definition Lemma Theorem Proof Qed
		P PP Z N nat bool true false None Some option string negb andb orb list pair fst snd
		int_ok dec_ok chop_round chop_round_nn chop_trunc dec_quo dec_quo_trunc dec_quo_roundup dec_mul
		dec_mul_trunc dec_mul_int dec_quo_int dec_trunc_int dec_round_int dec_of_int dec_with_prec dec_ceil
		chop_round_up_nn zcmp int_with_decimal u_add u_sub u_mul kres KOk KErr KPanic bytes_cmp`) {
		m[w] = true
	}
	return m
}()

func ident(n string) string {
	if reserved[n] || strings.HasPrefix(n, "k_t") {
		return n + "_"
	}
	return n
}

// ---- translator state ----------------------------------------------------------------------------

type pkgVar struct {
	t typ
}

type pre struct {
	isLet bool
	name  string
	code  string
	msg   string
}

type tr struct {
	sp      *spec
	fset    *token.FileSet
	imports map[string]string // alias -> path
	pkgVars map[string]pkgVar
	used    map[string]typ // package-level variables read by the function -> leading parameters
	tmp     int
	monadic bool
	guards  int
	mutated []string // flattened fields that are assigned: "<param>_<field>"
	markers []string // marker variables (sorted), part of every result
	mtypes  map[string]string
	extra   map[string]typ // parameters that do not come from the signature (reads, external outcomes, aliases, captured structs)
	slice   []string
	stypes  []typ
	closure bool
	seen    map[string]bool // locals / parameters that are read
	results []typ
	hasErr  bool
}

type transErr struct{ msg string }

func (t *tr) fail(n ast.Node, format string, a ...interface{}) {
	pos := ""
	if n != nil {
		p := t.fset.Position(n.Pos())
		pos = fmt.Sprintf(" at %s:%d", p.Filename, p.Line)
	}
	panic(transErr{fmt.Sprintf("kernel2v: function %s: %s%s", t.sp.Func, fmt.Sprintf(format, a...), pos)})
}

func nodeStr(n ast.Node) string { return fmt.Sprintf("%T", n) }

func (t *tr) pkgOf(e ast.Expr) (string, bool) {
	id, ok := e.(*ast.Ident)
	if !ok || id.Obj != nil {
		return "", false
	}
	p, ok := t.imports[id.Name]
	return p, ok
}

func (t *tr) goType(e ast.Expr) typ {
	switch x := e.(type) {
	case *ast.Ident:
		if ty, ok := builtinTypes[x.Name]; ok {
			return ty
		}
	case *ast.SelectorExpr:
		if p, ok := t.pkgOf(x.X); ok {
			if ty, ok := typeNames[p+"."+x.Sel.Name]; ok {
				return ty
			}
		}
	case *ast.StarExpr:
		if s, ok := x.X.(*ast.SelectorExpr); ok {
			if p, ok := t.pkgOf(s.X); ok && p == pBig && s.Sel.Name == "Int" {
				return tBig
			}
			return typ{k: kStruct}
		}
	}
	t.fail(e, "unsupported type %s", exprSrc(e))
	return typ{}
}

func exprSrc(e ast.Expr) string {
	switch x := e.(type) {
	case *ast.Ident:
		return x.Name
	case *ast.SelectorExpr:
		return exprSrc(x.X) + "." + x.Sel.Name
	case *ast.StarExpr:
		return "*" + exprSrc(x.X)
	case *ast.CallExpr:
		return exprSrc(x.Fun) + "(...)"
	case *ast.BasicLit:
		return x.Value
	case *ast.IndexExpr:
		return exprSrc(x.X) + "[" + exprSrc(x.Index) + "]"
	}
	return nodeStr(e)
}

// callPath renders the callee of a call as a dotted path; inner argument-less calls keep "()":
// k.Hooks().AfterEpochEnd, ctx.EventManager().EmitEvent, ctx.BlockTime
func callPath(e ast.Expr) string {
	switch x := e.(type) {
	case *ast.Ident:
		return x.Name
	case *ast.SelectorExpr:
		return callPath(x.X) + "." + x.Sel.Name
	case *ast.CallExpr:
		return callPath(x.Fun) + "()"
	}
	return "?"
}

func isAtom(s string) bool {
	if s == "" {
		return false
	}
	for _, c := range s {
		if !(c == '_' || c == '\'' || (c >= '0' && c <= '9') || (c >= 'a' && c <= 'z') || (c >= 'A' && c <= 'Z')) {
			return false
		}
	}
	return true
}

func (t *tr) fresh() string {
	t.tmp++
	return fmt.Sprintf("k_t%d", t.tmp)
}

func (t *tr) bind(ps *[]pre, code string) string {
	if isAtom(code) {
		return code
	}
	n := t.fresh()
	*ps = append(*ps, pre{isLet: true, name: n, code: code})
	return n
}

func compatible(have typ, want kind) bool {
	if have.k == want {
		return true
	}
	if have.k == kLit && (want == kSInt || want == kUint) {
		return true
	}
	if have.k == kUint && want == kSInt { // widening conversions are written explicitly in Go; accept uintN where intM is asked only via conversion
		return false
	}
	return false
}

// apply instantiates an op of the tables: receiver code r, argument codes.
func (t *tr) apply(n ast.Node, name string, o op, r string, args []ast.Expr, env map[string]typ, ps *[]pre) (string, typ) {
	if len(args) != len(o.args) {
		t.fail(n, "call %s with %d arguments (table expects %d)", name, len(args), len(o.args))
	}
	needAtoms := len(o.pre) > 0
	codes := make([]string, len(args))
	for i, a := range args {
		c, ty := t.expr(a, env, ps)
		if !compatible(ty, o.args[i]) {
			t.fail(a, "argument %d of %s has kind %s (table expects %s)", i+1, name, ty, typ{k: o.args[i], bits: 64})
		}
		if needAtoms {
			c = t.bind(ps, c)
		}
		codes[i] = c
	}
	if needAtoms && r != "" {
		r = t.bind(ps, r)
	}
	subst := func(s string) string {
		s = strings.ReplaceAll(s, "$r", r)
		for i, c := range codes {
			s = strings.ReplaceAll(s, "$"+strconv.Itoa(i+1), c)
		}
		return s
	}
	for _, g := range o.pre {
		t.guards++
		*ps = append(*ps, pre{code: subst(g.cond), msg: name + ": " + g.msg})
	}
	code := subst(o.tmpl)
	if len(o.post) > 0 {
		v := t.bind(ps, code)
		if v == code { // already an atom: still fine to guard on it
		}
		for _, g := range o.post {
			t.guards++
			*ps = append(*ps, pre{code: strings.ReplaceAll(g.cond, "$v", v), msg: name + ": " + g.msg})
		}
		code = v
	}
	return code, o.res
}

func kindName(k kind) string {
	switch k {
	case kInt:
		return "Int"
	case kDec:
		return "Dec"
	case kBig:
		return "Big"
	case kBigRecv:
		return "BigRecv"
	case kTime:
		return "Time"
	}
	return ""
}

func (t *tr) expr(e ast.Expr, env map[string]typ, ps *[]pre) (string, typ) {
	if a, ok := t.sp.Alias[exprSrc(e)]; ok {
		t.extra[a.Name] = a.T
		return ident(a.Name), a.T
	}
	if c, ok := e.(*ast.CallExpr); ok && len(c.Args) == 0 {
		if r, ok := t.sp.Reads[callPath(c.Fun)]; ok {
			t.extra[r.Name] = r.T
			return ident(r.Name), r.T
		}
	}
	switch x := e.(type) {
	case *ast.ParenExpr:
		return t.expr(x.X, env, ps)
	case *ast.BasicLit:
		if x.Kind != token.INT {
			t.fail(x, "unsupported literal %s", x.Value)
		}
		v, err := strconv.ParseUint(strings.ReplaceAll(x.Value, "_", ""), 0, 64)
		if err != nil {
			t.fail(x, "unsupported integer literal %s", x.Value)
		}
		return strconv.FormatUint(v, 10), typ{k: kLit}
	case *ast.Ident:
		if x.Name == "true" || x.Name == "false" {
			return x.Name, tBool
		}
		if ty, ok := env[x.Name]; ok {
			if t.seen != nil {
				t.seen[x.Name] = true
			}
			return ident(x.Name), ty
		}
		if pv, ok := t.pkgVars[x.Name]; ok {
			t.used[x.Name] = pv.t
			return ident(x.Name), pv.t
		}
		t.fail(x, "unsupported identifier %s (not a parameter, local or package-level integer variable)", x.Name)
	case *ast.SelectorExpr:
		if id, ok := x.X.(*ast.Ident); ok {
			if fs, ok := t.sp.Flatten[id.Name]; ok {
				for _, f := range fs {
					if f.Name == x.Sel.Name {
						return ident(id.Name + "_" + f.Name), env[id.Name+"_"+f.Name]
					}
				}
				t.fail(x, "field %s.%s is not in the flattening table", id.Name, x.Sel.Name)
			}
		}
		t.fail(x, "unsupported selector expression %s", exprSrc(x))
	case *ast.UnaryExpr:
		switch x.Op {
		case token.NOT:
			c, ty := t.expr(x.X, env, ps)
			if ty.k != kBool {
				t.fail(x, "operator ! on kind %s", ty)
			}
			return "(negb " + c + ")", tBool
		}
		t.fail(x, "unsupported unary operator %s", x.Op)
	case *ast.BinaryExpr:
		return t.binary(x, env, ps)
	case *ast.CallExpr:
		return t.call(x, env, ps)
	}
	t.fail(e, "unsupported expression %s", nodeStr(e))
	return "", typ{}
}

func (t *tr) binary(x *ast.BinaryExpr, env map[string]typ, ps *[]pre) (string, typ) {
	if x.Op == token.LAND || x.Op == token.LOR {
		a, ta := t.expr(x.X, env, ps)
		var ps2 []pre
		b, tb := t.expr(x.Y, env, &ps2)
		if len(ps2) > 0 {
			t.fail(x.Y, "call that can panic inside the right operand of %s (short-circuit evaluation is outside the subset)", x.Op)
		}
		if ta.k != kBool || tb.k != kBool {
			t.fail(x, "operator %s on kinds %s, %s", x.Op, ta, tb)
		}
		if x.Op == token.LAND {
			return "(" + a + " && " + b + ")", tBool
		}
		return "(" + a + " || " + b + ")", tBool
	}
	a, ta := t.expr(x.X, env, ps)
	b, tb := t.expr(x.Y, env, ps)
	ty := ta
	if ta.k == kLit {
		ty = tb
	} else if tb.k != kLit && tb != ta {
		t.fail(x, "operator %s on different kinds %s, %s", x.Op, ta, tb)
	}
	if ty.k != kUint && ty.k != kSInt && ty.k != kLit {
		t.fail(x, "operator %s on kind %s (only machine integers)", x.Op, ty)
	}
	switch x.Op {
	case token.GTR:
		return "(" + a + " >? " + b + ")", tBool
	case token.GEQ:
		return "(" + a + " >=? " + b + ")", tBool
	case token.LSS:
		return "(" + a + " <? " + b + ")", tBool
	case token.LEQ:
		return "(" + a + " <=? " + b + ")", tBool
	case token.EQL:
		return "(" + a + " =? " + b + ")", tBool
	case token.NEQ:
		return "(negb (" + a + " =? " + b + "))", tBool
	case token.ADD, token.SUB, token.MUL:
		fn := map[token.Token]string{token.ADD: "u_add", token.SUB: "u_sub", token.MUL: "u_mul"}[x.Op]
		sym := map[token.Token]string{token.ADD: "+", token.SUB: "-", token.MUL: "*"}[x.Op]
		if ty.k == kUint {
			return fmt.Sprintf("(%s %d %s %s)", fn, ty.bits, a, b), ty
		}
		if ty.k == kSInt && x.Op == token.MUL {
			t.fail(x, "operator * on signed machine integers (overflow is outside the subset)")
		}
		return "(" + a + " " + sym + " " + b + ")", ty
	case token.QUO, token.REM:
		if ty.k != kUint {
			t.fail(x, "operator %s on kind %s (only unsigned machine integers)", x.Op, ty)
		}
		b = t.bind(ps, b)
		t.guards++
		*ps = append(*ps, pre{code: "(" + b + " =? 0)", msg: "integer divide by zero"})
		if x.Op == token.QUO {
			return "(" + a + " / " + b + ")", ty
		}
		return "(" + a + " mod " + b + ")", ty
	}
	t.fail(x, "unsupported binary operator %s", x.Op)
	return "", typ{}
}

func (t *tr) call(x *ast.CallExpr, env map[string]typ, ps *[]pre) (string, typ) {
	switch f := x.Fun.(type) {
	case *ast.Ident:
		if f.Name == "new" && len(x.Args) == 1 {
			if t.goType(&ast.StarExpr{X: x.Args[0]}) == tBig {
				return "", typ{k: kBigRecv}
			}
		}
		if to, ok := builtinTypes[f.Name]; ok && len(x.Args) == 1 && (to.k == kUint || to.k == kSInt) {
			c, from := t.expr(x.Args[0], env, ps)
			switch {
			case from.k == kLit:
				return c, to
			case from.k == kUint && to.k == kUint && from.bits <= to.bits:
				return c, to
			case from.k == kUint && to.k == kSInt && from.bits < to.bits:
				return c, to
			case from.k == kSInt && to.k == kSInt && from.bits <= to.bits:
				return c, to
			}
			t.fail(x, "conversion %s(%s) can truncate or wrap", f.Name, from)
		}
		t.fail(x, "call of %s", f.Name)
	case *ast.SelectorExpr:
		if p, ok := t.pkgOf(f.X); ok {
			name := p + "." + f.Sel.Name
			o, ok := pkgFuncs[name]
			if !ok {
				t.fail(x, "call of %s: not in the function table", name)
			}
			return t.apply(x, f.Sel.Name, o, "", x.Args, env, ps)
		}
		r, rt := t.expr(f.X, env, ps)
		name := kindName(rt.k) + "." + f.Sel.Name
		o, ok := methods[name]
		if !ok || kindName(rt.k) == "" {
			t.fail(x, "method %s on kind %s: not in the method table", f.Sel.Name, rt)
		}
		return t.apply(x, name, o, r, x.Args, env, ps)
	}
	t.fail(x, "unsupported call %s", exprSrc(x.Fun))
	return "", typ{}
}

// ---- statements ------------------------------------------------------------------------------------

func ind(n int) string { return strings.Repeat("  ", n) }

func emitPre(ps []pre, d int) string {
	var sb strings.Builder
	for _, p := range ps {
		if p.isLet {
			sb.WriteString(fmt.Sprintf("%slet %s := %s in\n", ind(d), p.name, p.code))
		} else {
			sb.WriteString(fmt.Sprintf("%sif %s then KPanic %s else\n", ind(d), p.code, strconv.Quote(p.msg)))
		}
	}
	return sb.String()
}

func copyEnv(e map[string]typ) map[string]typ {
	m := make(map[string]typ, len(e))
	for k, v := range e {
		m[k] = v
	}
	return m
}

func (t *tr) errName(e ast.Expr) string {
	switch x := e.(type) {
	case *ast.SelectorExpr:
		if _, ok := t.pkgOf(x.X); ok && strings.HasPrefix(x.Sel.Name, "Err") {
			return x.Sel.Name
		}
	case *ast.CallExpr:
		if s, ok := x.Fun.(*ast.SelectorExpr); ok && (s.Sel.Name == "Wrap" || s.Sel.Name == "Wrapf") {
			if p, ok := t.pkgOf(s.X); ok && p == pErrors && len(x.Args) >= 1 {
				return t.errName(x.Args[0])
			}
			return t.errName(s.X)
		}
	}
	t.fail(e, "unsupported error expression %s", exprSrc(e))
	return ""
}

func (t *tr) tuple(vals []string) string {
	if len(vals) == 1 {
		return vals[0]
	}
	return "(" + strings.Join(vals, ", ") + ")"
}

func (t *tr) finish(vals []string, env map[string]typ) string {
	for _, m := range t.mutated {
		vals = append(vals, ident(m))
	}
	for _, m := range t.markers {
		vals = append(vals, ident(m))
	}
	v := t.tuple(vals)
	if t.monadic {
		return "KOk " + v
	}
	return v
}

func (t *tr) ret(s *ast.ReturnStmt, env map[string]typ, d int) string {
	nres := len(t.results)
	if t.hasErr {
		nres++
	}
	if len(s.Results) != nres {
		t.fail(s, "return with %d values (signature has %d; named results are outside the subset)", len(s.Results), nres)
	}
	if t.hasErr {
		last := s.Results[len(s.Results)-1]
		if id, ok := last.(*ast.Ident); !ok || id.Name != "nil" {
			return ind(d) + "KErr " + strconv.Quote(t.errName(last)) + "\n"
		}
	}
	var ps []pre
	var vals []string
	for i, rt := range t.results {
		e := s.Results[i]
		if rt.k == kStruct {
			if id, ok := e.(*ast.Ident); ok && id.Name == "nil" {
				vals = append(vals, "None")
				continue
			}
			u, ok := e.(*ast.UnaryExpr)
			var cl *ast.CompositeLit
			if ok && u.Op == token.AND {
				cl, _ = u.X.(*ast.CompositeLit)
			}
			if cl == nil {
				t.fail(e, "unsupported struct result %s", nodeStr(e))
			}
			var fs []string
			for _, want := range t.sp.RetFields {
				found := false
				for _, el := range cl.Elts {
					kv, ok := el.(*ast.KeyValueExpr)
					if !ok {
						t.fail(el, "positional composite literal")
					}
					if k, ok := kv.Key.(*ast.Ident); ok && k.Name == want {
						c, ty := t.expr(kv.Value, env, &ps)
						if !ty.numeric() {
							t.fail(kv.Value, "result field %s has kind %s", want, ty)
						}
						fs = append(fs, c)
						found = true
					}
				}
				if !found {
					t.fail(cl, "result field %s is not set in the composite literal", want)
				}
			}
			vals = append(vals, "(Some "+t.tuple(fs)+")")
			continue
		}
		c, ty := t.expr(e, env, &ps)
		if ty.k != rt.k && !(ty.k == kLit && (rt.k == kUint || rt.k == kSInt)) {
			t.fail(e, "returned kind %s, signature says %s", ty, rt)
		}
		vals = append(vals, c)
	}
	return emitPre(ps, d) + ind(d) + t.finish(vals, env) + "\n"
}

func (t *tr) block(stmts []ast.Stmt, env map[string]typ, d int) string {
	if len(stmts) == 0 && t.slice != nil {
		var vals []string
		t.stypes = nil
		for _, v := range t.slice {
			ty, ok := env[v]
			if !ok {
				t.fail(nil, "slice target %s is never assigned at the top level of the function", v)
			}
			vals = append(vals, ident(v))
			t.stypes = append(t.stypes, ty)
		}
		return ind(d) + t.finish(vals, env) + "\n"
	}
	if len(stmts) == 0 {
		if len(t.results) == 0 && !t.hasErr {
			return ind(d) + t.finish(nil, env) + "\n"
		}
		t.fail(nil, "control reaches the end of the function without a return")
	}
	s, rest := stmts[0], stmts[1:]
	switch x := s.(type) {
	case *ast.ReturnStmt:
		return t.ret(x, env, d)
	case *ast.BlockStmt:
		return t.block(append(append([]ast.Stmt{}, x.List...), rest...), env, d)
	case *ast.ExprStmt:
		call, ok := x.X.(*ast.CallExpr)
		if !ok {
			t.fail(x, "unsupported statement %s", nodeStr(x.X))
		}
		path := callPath(call.Fun)
		for _, p := range t.sp.Skip {
			if strings.HasPrefix(path, p) {
				return t.block(rest, env, d)
			}
		}
		if m, ok := t.sp.Markers[path]; ok {
			var ps []pre
			val := "true"
			if len(m.Args) > 0 {
				var as []string
				for _, i := range m.Args {
					if i >= len(call.Args) {
						t.fail(x, "marker %s: call has no argument %d", path, i)
					}
					c, ty := t.expr(call.Args[i], env, &ps)
					if !ty.numeric() {
						t.fail(call.Args[i], "marker %s: argument of kind %s", path, ty)
					}
					as = append(as, c)
				}
				val = "(Some " + t.tuple(as) + ")"
			}
			return emitPre(ps, d) + ind(d) + "let " + ident(m.Name) + " := " + val + " in\n" + t.block(rest, env, d)
		}
		t.fail(x, "call statement %s (neither in the skip list nor a marker)", path)
	case *ast.IncDecStmt:
		one := &ast.BasicLit{Kind: token.INT, Value: "1", ValuePos: x.Pos()}
		opTok := token.ADD
		if x.Tok == token.DEC {
			opTok = token.SUB
		}
		as := &ast.AssignStmt{Lhs: []ast.Expr{x.X}, Tok: token.ASSIGN, TokPos: x.Pos(),
			Rhs: []ast.Expr{&ast.BinaryExpr{X: x.X, Op: opTok, Y: one, OpPos: x.Pos()}}}
		return t.block(append([]ast.Stmt{as}, rest...), env, d)
	case *ast.IfStmt:
		if x.Init != nil {
			// `if err := <external call>(); err != nil { ... }`: the outcome is a boolean input of the kernel
			as, ok := x.Init.(*ast.AssignStmt)
			var name string
			if ok && len(as.Lhs) == 1 && len(as.Rhs) == 1 && as.Tok == token.DEFINE {
				if c, ok := as.Rhs[0].(*ast.CallExpr); ok && len(c.Args) == 0 {
					name = t.sp.ExtErr[callPath(c.Fun)]
				}
			}
			be, _ := x.Cond.(*ast.BinaryExpr)
			if name == "" || be == nil || be.Op != token.NEQ || exprSrc(be.X) != exprSrc(as.Lhs[0]) || exprSrc(be.Y) != "nil" || x.Else != nil {
				t.fail(x, "if statement with an init clause")
			}
			t.extra[name] = tBool
			thenB := t.block(append(append([]ast.Stmt{}, x.Body.List...), rest...), copyEnv(env), d+1)
			elseB := t.block(rest, copyEnv(env), d+1)
			return ind(d) + "if negb " + ident(name) + " then (\n" + thenB + ind(d) + ") else (\n" + elseB + ind(d) + ")\n"
		}
		var ps []pre
		c, ty := t.expr(x.Cond, env, &ps)
		if ty.k != kBool {
			t.fail(x.Cond, "if condition of kind %s", ty)
		}
		thenB := t.block(append(append([]ast.Stmt{}, x.Body.List...), rest...), copyEnv(env), d+1)
		var elseS []ast.Stmt
		if x.Else != nil {
			elseS = append(elseS, x.Else)
		}
		elseB := t.block(append(elseS, rest...), copyEnv(env), d+1)
		return emitPre(ps, d) + ind(d) + "if " + c + " then (\n" + thenB + ind(d) + ") else (\n" + elseB + ind(d) + ")\n"
	case *ast.AssignStmt:
		if len(x.Lhs) != 1 || len(x.Rhs) != 1 || (x.Tok != token.DEFINE && x.Tok != token.ASSIGN) {
			t.fail(x, "assignment form %s with %d:%d operands", x.Tok, len(x.Lhs), len(x.Rhs))
		}
		var ps []pre
		c, ty := t.expr(x.Rhs[0], env, &ps)
		var name string
		switch l := x.Lhs[0].(type) {
		case *ast.Ident:
			if l.Name == "_" {
				t.fail(x, "assignment to _")
			}
			name = l.Name
			if x.Tok == token.ASSIGN {
				old, ok := env[name]
				if !ok {
					t.fail(x, "assignment to %s which is not a local", name)
				}
				if old.k != ty.k && ty.k != kLit {
					t.fail(x, "assignment changes the kind of %s from %s to %s", name, old, ty)
				}
				if ty.k == kLit {
					ty = old
				}
			}
		case *ast.SelectorExpr:
			id, ok := l.X.(*ast.Ident)
			if !ok || t.sp.Flatten[id.Name] == nil || x.Tok != token.ASSIGN {
				t.fail(x, "assignment to %s", exprSrc(l))
			}
			name = id.Name + "_" + l.Sel.Name
			old, ok := env[name]
			if ok && ty.k == kLit && (old.k == kSInt || old.k == kUint) {
				ty = old
			}
			if !ok || old.k != ty.k {
				t.fail(x, "assignment to field %s (not in the flattening table or kind mismatch)", exprSrc(l))
			}
		default:
			t.fail(x, "assignment target %s", nodeStr(l))
		}
		if !ty.numeric() && ty.k != kBool {
			t.fail(x, "binding of kind %s", ty)
		}
		env = copyEnv(env)
		env[name] = ty
		return emitPre(ps, d) + ind(d) + "let " + ident(name) + " := " + c + " in\n" + t.block(rest, env, d)
	}
	t.fail(s, "unsupported statement %s", nodeStr(s))
	return ""
}

// mutatedFields scans the body for assignments to flattened fields (in source order, deduplicated).
func (t *tr) mutatedFields(body *ast.BlockStmt) []string {
	var out []string
	seen := map[string]bool{}
	ast.Inspect(body, func(n ast.Node) bool {
		if a, ok := n.(*ast.AssignStmt); ok {
			for _, l := range a.Lhs {
				if s, ok := l.(*ast.SelectorExpr); ok {
					if id, ok := s.X.(*ast.Ident); ok && t.sp.Flatten[id.Name] != nil {
						n := id.Name + "_" + s.Sel.Name
						if !seen[n] {
							seen[n] = true
							out = append(out, n)
						}
					}
				}
			}
		}
		return true
	})
	return out
}

func collectPkgVars(dir string, fset *token.FileSet) map[string]pkgVar {
	out := map[string]pkgVar{}
	pkgs, err := parser.ParseDir(fset, dir, func(fi os.FileInfo) bool { return !strings.HasSuffix(fi.Name(), "_test.go") }, 0)
	if err != nil {
		return out
	}
	for _, p := range pkgs {
		for _, f := range p.Files {
			for _, d := range f.Decls {
				g, ok := d.(*ast.GenDecl)
				if !ok || (g.Tok != token.VAR && g.Tok != token.CONST) {
					continue
				}
				for _, s := range g.Specs {
					vs := s.(*ast.ValueSpec)
					id, ok := vs.Type.(*ast.Ident)
					if !ok {
						continue
					}
					ty, ok := builtinTypes[id.Name]
					if !ok || (ty.k != kUint && ty.k != kSInt) {
						continue
					}
					for _, n := range vs.Names {
						out[n.Name] = pkgVar{t: ty}
					}
				}
			}
		}
	}
	return out
}

func translate(repo string, sp *spec) (out string, err error) {
	defer func() {
		if r := recover(); r != nil {
			if te, ok := r.(transErr); ok {
				err = fmt.Errorf("%s", te.msg)
				return
			}
			panic(r)
		}
	}()
	fset := token.NewFileSet()
	path := filepath.Join(repo, sp.File)
	file, perr := parser.ParseFile(fset, path, nil, 0)
	if perr != nil {
		return "", fmt.Errorf("kernel2v: function %s: cannot parse %s: %v", sp.Func, sp.File, perr)
	}
	special := sp.Closure != "" || sp.SliceOf != nil
	var fd *ast.FuncDecl
	for _, d := range file.Decls {
		if f, ok := d.(*ast.FuncDecl); ok && f.Name.Name == sp.Func && (f.Recv == nil || special) {
			fd = f
		}
	}
	if fd == nil || fd.Body == nil {
		return "", fmt.Errorf("kernel2v: function %s: not found as a top-level function in %s", sp.Func, sp.File)
	}
	t := &tr{sp: sp, fset: fset, imports: map[string]string{}, used: map[string]typ{}, extra: map[string]typ{}, mtypes: map[string]string{}, seen: map[string]bool{}}
	for _, im := range file.Imports {
		p, _ := strconv.Unquote(im.Path.Value)
		alias := filepath.Base(p)
		if im.Name != nil {
			alias = im.Name.Name
		}
		t.imports[alias] = p
	}
	t.pkgVars = collectPkgVars(filepath.Dir(path), fset)
	if fd.Type.TypeParams != nil {
		t.fail(fd, "generic function")
	}
	ftype, fbody := fd.Type, fd.Body
	if sp.Closure != "" {
		// the function literal passed to <x>.<Closure>(...)
		var lit *ast.FuncLit
		n := 0
		ast.Inspect(fd.Body, func(nd ast.Node) bool {
			if c, ok := nd.(*ast.CallExpr); ok {
				if se, ok := c.Fun.(*ast.SelectorExpr); ok && se.Sel.Name == sp.Closure {
					for _, a := range c.Args {
						if l, ok := a.(*ast.FuncLit); ok {
							lit = l
							n++
						}
					}
				}
			}
			return true
		})
		if lit == nil || n != 1 {
			t.fail(fd, "expected exactly one function literal passed to a call of %s, found %d", sp.Closure, n)
		}
		ftype, fbody = lit.Type, lit.Body
		t.closure = true
	}
	// parameters
	env := map[string]typ{}
	type param struct {
		name string
		t    typ
	}
	var params []param
	fromSig := map[string]bool{}
	if sp.SliceOf == nil {
		for _, f := range ftype.Params.List {
			for _, n := range f.Names {
				if n.Name == "_" {
					continue
				}
				if fs := sp.Flatten[n.Name]; fs != nil { // struct (value or pointer) replaced by its listed fields
					fromSig[n.Name] = true
					for _, fl := range fs {
						params = append(params, param{n.Name + "_" + fl.Name, fl.T})
						env[n.Name+"_"+fl.Name] = fl.T
					}
					continue
				}
				ty := t.goType(f.Type)
				if ty.k == kStruct {
					t.fail(f, "pointer-to-struct parameter %s without a flattening table", n.Name)
				}
				if !ty.numeric() && ty.k != kBool {
					t.fail(f, "parameter %s of kind %s", n.Name, ty)
				}
				params = append(params, param{n.Name, ty})
				env[n.Name] = ty
			}
		}
	}
	// structs captured from the enclosing scope (closures, slices): their listed fields are parameters too
	var capt []string
	for n := range sp.Flatten {
		if !fromSig[n] {
			capt = append(capt, n)
		}
	}
	sort.Strings(capt)
	for _, n := range capt {
		if !special {
			t.fail(fd, "flattening table for %s, which is not a parameter", n)
		}
		for _, fl := range sp.Flatten[n] {
			params = append(params, param{n + "_" + fl.Name, fl.T})
			env[n+"_"+fl.Name] = fl.T
		}
	}
	if ftype.Results != nil && sp.SliceOf == nil {
		for _, f := range ftype.Results.List {
			if len(f.Names) > 0 && !t.closure {
				t.fail(f, "named results")
			}
			ty := t.goType(f.Type)
			if ty.k == kError {
				t.hasErr = true
				continue
			}
			if t.hasErr {
				t.fail(f, "error is not the last result")
			}
			if ty.k == kStruct && len(sp.RetFields) == 0 {
				t.fail(f, "pointer-to-struct result without a result-field table")
			}
			cnt := len(f.Names)
			if cnt == 0 {
				cnt = 1
			}
			for c := 0; c < cnt; c++ {
				t.results = append(t.results, ty)
			}
		}
	}
	stmts := fbody.List
	if sp.SliceOf != nil {
		// value slice: the top-level assignments the targets depend on, in source order
		need := map[string]bool{}
		for _, v := range sp.SliceOf {
			need[v] = true
		}
		isInput := map[string]bool{}
		for _, in := range sp.Inputs {
			isInput[in.Name] = true
			params = append(params, param{in.Name, in.T})
			env[in.Name] = in.T
		}
		// all single assignments of the function, nested blocks included, in source order
		var all []*ast.AssignStmt
		ast.Inspect(fbody, func(nd ast.Node) bool {
			if _, ok := nd.(*ast.FuncLit); ok {
				return false
			}
			if as, ok := nd.(*ast.AssignStmt); ok {
				all = append(all, as)
			}
			return true
		})
		var keep []ast.Stmt
		for i := len(all) - 1; i >= 0; i-- {
			as := all[i]
			if len(as.Lhs) != 1 || len(as.Rhs) != 1 {
				continue
			}
			id, ok := as.Lhs[0].(*ast.Ident)
			if !ok || !need[id.Name] || isInput[id.Name] {
				continue
			}
			keep = append([]ast.Stmt{as}, keep...)
			if as.Tok == token.DEFINE {
				delete(need, id.Name)
			}
			ast.Inspect(as.Rhs[0], func(nd ast.Node) bool {
				switch y := nd.(type) {
				case *ast.SelectorExpr:
					ast.Inspect(y.X, func(n2 ast.Node) bool {
						if i2, ok := n2.(*ast.Ident); ok {
							need[i2.Name] = true
						}
						return true
					})
					return false
				case *ast.Ident:
					need[y.Name] = true
				}
				return true
			})
		}
		stmts = keep
		t.slice = sp.SliceOf
	}
	for _, m := range sp.Markers {
		t.markers = append(t.markers, m.Name)
		if len(m.Args) == 0 {
			t.mtypes[m.Name] = "bool"
		} else {
			zs := make([]string, len(m.Args))
			for i := range zs {
				zs[i] = "Z"
			}
			t.mtypes[m.Name] = "option (" + strings.Join(zs, " * ") + ")"
		}
	}
	sort.Strings(t.markers)
	fbodyBlock := &ast.BlockStmt{List: stmts}
	t.mutated = t.mutatedFields(fbodyBlock)
	t.monadic = t.hasErr
	body := t.block(stmts, env, 1)
	if t.guards > 0 && !t.monadic {
		t.monadic, t.tmp, t.guards = true, 0, 0
		body = t.block(stmts, env, 1)
	}
	// markers start as "not executed"
	minit := ""
	for _, m := range t.markers {
		if t.mtypes[m] == "bool" {
			minit += ind(1) + "let " + ident(m) + " := false in\n"
		} else {
			minit += ind(1) + "let " + ident(m) + " : " + t.mtypes[m] + " := None in\n"
		}
	}
	body = minit + body
	// result type
	var rts []string
	for _, r := range t.results {
		if r.k == kStruct {
			fs := make([]string, len(sp.RetFields))
			for i := range fs {
				fs[i] = "Z"
			}
			rts = append(rts, "option ("+strings.Join(fs, " * ")+")")
		} else {
			rts = append(rts, coqType(r))
		}
	}
	for _, ty := range t.stypes {
		rts = append(rts, coqType(ty))
	}
	for _, m := range t.mutated {
		rts = append(rts, coqType(env[m]))
	}
	for _, m := range t.markers {
		rts = append(rts, t.mtypes[m])
	}
	rt := strings.Join(rts, " * ")
	if len(rts) == 0 {
		rt = "unit"
	}
	if t.monadic {
		rt = "kres (" + rt + ")"
	}
	var sb strings.Builder
	outName := sp.Func
	what := "func " + sp.Func
	if sp.Out != "" {
		outName = sp.Out
	}
	if sp.Closure != "" {
		what = "the function literal passed to " + sp.Closure + " in " + sp.Func + " (decision part)"
	} else if sp.SliceOf != nil {
		what = "value slice of " + strings.Join(sp.SliceOf, ", ") + " in " + sp.Func
	}
	sb.WriteString(fmt.Sprintf("(* %s : %s *)\n", sp.File, what))
	sb.WriteString("Definition " + outName)
	for n, ty := range t.extra {
		t.used[n] = ty
	}
	var names []string
	for n := range t.used {
		names = append(names, n)
	}
	sort.Strings(names)
	for _, n := range names {
		sb.WriteString(fmt.Sprintf(" (%s : %s)", ident(n), coqType(t.used[n])))
	}
	for _, p := range params {
		if t.closure && !t.seen[p.name] && !strings.Contains(p.name, "_") {
			continue // index parameter of a closure that only occurs inside aliased element expressions
		}
		sb.WriteString(fmt.Sprintf(" (%s : %s)", ident(p.name), coqType(p.t)))
	}
	sb.WriteString(" : " + rt + " :=\n" + strings.TrimRight(body, "\n") + ".\n")
	return sb.String(), nil
}

func main() {
	repo := flag.String("repo", "/repo", "root of the exocore working tree")
	outp := flag.String("out", "", "output file (default stdout)")
	flag.Parse()
	var sb strings.Builder
	sb.WriteString("(* Gen/Kernels.v — GENERATED by tools/kernel2v from the current exocore sources; do not edit.\n")
	sb.WriteString("   Regenerated by corr/gen_kernels.sh on every check; lemmas about these definitions live in the\n")
	sb.WriteString("   property packages (C02/Proofs.v ...), so a change of the Go kernels re-checks them. *)\n")
	sb.WriteString("From Coq Require Import ZArith String Bool.\nFrom Exo Require Import Base.IntDec Base.IntDec2.\n")
	sb.WriteString("Local Open Scope Z_scope.\nLocal Open Scope bool_scope.\n\n")
	failed := false
	var names []string
	for i := range whitelist {
		s, err := translate(*repo, &whitelist[i])
		if err != nil {
			fmt.Fprintln(os.Stderr, err.Error())
			failed = true
			continue
		}
		sb.WriteString(s + "\n")
		nm := whitelist[i].Func
		if whitelist[i].Out != "" {
			nm = whitelist[i].Out
		}
		names = append(names, strconv.Quote(nm)+"%string")
	}
	if failed {
		fmt.Fprintln(os.Stderr, "kernel2v: translation aborted (correspondence broken: a pure kernel left the translatable subset)")
		os.Exit(1)
	}
	sb.WriteString("Definition kernel_names : list string := (" + strings.Join(names, " :: ") + " :: nil)%list.\n")
	if *outp == "" {
		fmt.Print(sb.String())
		return
	}
	if err := os.WriteFile(*outp, []byte(sb.String()), 0o644); err != nil {
		fmt.Fprintln(os.Stderr, "kernel2v:", err)
		os.Exit(2)
	}
}
